//! Shared core of the E-QUERY engine: typed table generator, predicate AST + generator + SQL
//! renderer, the two independent references (own three-valued evaluator over model rows and
//! DataFusion over an Arrow MemTable), scan helpers with execution knobs.

use arrow_array::builder::*;
use arrow_array::*;
use arrow_schema::{DataType, SchemaRef};
use datafusion::prelude::SessionContext;
use futures::{FutureExt, TryStreamExt};
use lance::dataset::scanner::{ColumnOrdering, MaterializationStyle};
use lance::dataset::{WriteMode, WriteParams};
use lance::Dataset;
use lance_encoding::version::LanceFileVersion;
use std::cmp::Ordering;
use std::collections::{BTreeMap, BTreeSet};
use std::sync::Arc;
use std::time::Duration;
use vmon::prng::Rng;
pub use vmon::table::{batch_to_rows, cell_at, Cell, ColSpec, ColTy, Row, TableSpec};

// ---------------------------------------------------------------------------------------------
// type classes
// ---------------------------------------------------------------------------------------------

#[derive(Clone, Copy, Debug, PartialEq, Eq)]
pub enum Class {
    Int,
    Float,
    Str,
    Bool,
    Date,
    Ts,
    Other,
}

pub fn class_of(ty: &ColTy) -> Class {
    match ty {
        ColTy::I8 | ColTy::I16 | ColTy::I32 | ColTy::I64 | ColTy::U8 | ColTy::U16 | ColTy::U32 | ColTy::U64 => {
            Class::Int
        }
        ColTy::F32 | ColTy::F64 => Class::Float,
        ColTy::Utf8 | ColTy::LargeUtf8 => Class::Str,
        ColTy::Bool => Class::Bool,
        ColTy::Date32 => Class::Date,
        ColTy::TsMicro => Class::Ts,
        _ => Class::Other,
    }
}

pub fn int_bounds(ty: &ColTy) -> (i128, i128) {
    match ty {
        ColTy::I8 => (i8::MIN as i128, i8::MAX as i128),
        ColTy::I16 => (i16::MIN as i128, i16::MAX as i128),
        ColTy::I32 => (i32::MIN as i128, i32::MAX as i128),
        ColTy::I64 => (i64::MIN as i128, i64::MAX as i128),
        ColTy::U8 => (0, u8::MAX as i128),
        ColTy::U16 => (0, u16::MAX as i128),
        ColTy::U32 => (0, u32::MAX as i128),
        ColTy::U64 => (0, u64::MAX as i128),
        ColTy::Date32 => (i32::MIN as i128, i32::MAX as i128),
        ColTy::TsMicro => (i64::MIN as i128, i64::MAX as i128),
        _ => (0, 0),
    }
}

pub fn query_pool() -> Vec<ColTy> {
    vec![
        ColTy::I8,
        ColTy::I16,
        ColTy::I32,
        ColTy::I64,
        ColTy::U8,
        ColTy::U16,
        ColTy::U32,
        ColTy::U64,
        ColTy::F32,
        ColTy::F64,
        ColTy::Bool,
        ColTy::Utf8,
        ColTy::LargeUtf8,
        ColTy::Date32,
        ColTy::TsMicro,
    ]
}

// ---------------------------------------------------------------------------------------------
// tables
// ---------------------------------------------------------------------------------------------

/// Column metadata used by generator / evaluator. Column 0 is always `id: Int64 NOT NULL`.
#[derive(Clone, Debug)]
pub struct ColInfo {
    pub name: String,
    pub ty: ColTy,
    pub nullable: bool,
}

#[derive(Clone)]
pub struct Model {
    pub cols: Vec<ColInfo>,
    pub schema: SchemaRef,
    /// live rows by primary key, full schema order
    pub rows: BTreeMap<i64, Row>,
}

impl Model {
    pub fn new(spec: &TableSpec) -> Self {
        let mut cols = vec![ColInfo {
            name: "id".into(),
            ty: ColTy::I64,
            nullable: false,
        }];
        for c in &spec.cols {
            cols.push(ColInfo {
                name: c.name.clone(),
                ty: c.ty.clone(),
                nullable: c.nullable,
            });
        }
        Self {
            cols,
            schema: spec.schema(),
            rows: BTreeMap::new(),
        }
    }
    pub fn insert_batch(&mut self, b: &RecordBatch) {
        for r in batch_to_rows(b) {
            let id = r[0].as_i64().expect("id");
            self.rows.insert(id, r);
        }
    }
    pub fn col_index(&self, name: &str) -> Option<usize> {
        self.cols.iter().position(|c| c.name == name)
    }
    pub fn len(&self) -> usize {
        self.rows.len()
    }
    pub fn describe(&self) -> String {
        self.cols
            .iter()
            .skip(1)
            .map(|c| format!("{}:{:?}{}", c.name, c.ty, if c.nullable { "?" } else { "" }))
            .collect::<Vec<_>>()
            .join(",")
    }
    /// distinct non-null values of a column (capped) — literal pool
    pub fn col_values(&self, col: usize, cap: usize) -> Vec<Cell> {
        let mut out: Vec<Cell> = vec![];
        for r in self.rows.values() {
            let c = &r[col];
            if c.is_null() {
                continue;
            }
            if !out.iter().any(|x| x == c) {
                out.push(c.clone());
                if out.len() >= cap {
                    break;
                }
            }
        }
        out
    }
    /// Arrow batch of the current model (id order) — input of the DataFusion reference.
    pub fn to_batch(&self) -> RecordBatch {
        let rows: Vec<&Row> = self.rows.values().collect();
        rows_to_batch(&self.cols, self.schema.clone(), &rows)
    }
}

pub fn rows_to_batch(cols: &[ColInfo], schema: SchemaRef, rows: &[&Row]) -> RecordBatch {
    let mut arrays: Vec<ArrayRef> = vec![];
    for (ci, c) in cols.iter().enumerate() {
        arrays.push(cells_to_array(&c.ty, rows.iter().map(|r| &r[ci])));
    }
    RecordBatch::try_new(schema, arrays).expect("rows_to_batch")
}

pub fn cells_to_array<'a>(ty: &ColTy, cells: impl Iterator<Item = &'a Cell>) -> ArrayRef {
    macro_rules! ints {
        ($b:ty, $t:ty) => {{
            let mut b = <$b>::new();
            for c in cells {
                match c {
                    Cell::Int(v) => b.append_value(*v as $t),
                    _ => b.append_null(),
                }
            }
            Arc::new(b.finish()) as ArrayRef
        }};
    }
    match ty {
        ColTy::I8 => ints!(Int8Builder, i8),
        ColTy::I16 => ints!(Int16Builder, i16),
        ColTy::I32 => ints!(Int32Builder, i32),
        ColTy::I64 => ints!(Int64Builder, i64),
        ColTy::U8 => ints!(UInt8Builder, u8),
        ColTy::U16 => ints!(UInt16Builder, u16),
        ColTy::U32 => ints!(UInt32Builder, u32),
        ColTy::U64 => ints!(UInt64Builder, u64),
        ColTy::Date32 => ints!(Date32Builder, i32),
        ColTy::TsMicro => ints!(TimestampMicrosecondBuilder, i64),
        ColTy::F32 => {
            let mut b = Float32Builder::new();
            for c in cells {
                match c {
                    Cell::Float(v) => b.append_value(*v as f32),
                    _ => b.append_null(),
                }
            }
            Arc::new(b.finish())
        }
        ColTy::F64 => {
            let mut b = Float64Builder::new();
            for c in cells {
                match c {
                    Cell::Float(v) => b.append_value(*v),
                    _ => b.append_null(),
                }
            }
            Arc::new(b.finish())
        }
        ColTy::Bool => {
            let mut b = BooleanBuilder::new();
            for c in cells {
                match c {
                    Cell::Bool(v) => b.append_value(*v),
                    _ => b.append_null(),
                }
            }
            Arc::new(b.finish())
        }
        ColTy::Utf8 => {
            let mut b = StringBuilder::new();
            for c in cells {
                match c {
                    Cell::Str(v) => b.append_value(v),
                    _ => b.append_null(),
                }
            }
            Arc::new(b.finish())
        }
        ColTy::LargeUtf8 => {
            let mut b = LargeStringBuilder::new();
            for c in cells {
                match c {
                    Cell::Str(v) => b.append_value(v),
                    _ => b.append_null(),
                }
            }
            Arc::new(b.finish())
        }
        ColTy::ListI32 => {
            // NOTE: built as List<Int64> on purpose (see `widen_lists`): SQL integer literals are
            // Int64 and DataFusion's array_has_any fails at run time on List<Int32> vs List<Int64>.
            let mut b = ListBuilder::new(Int64Builder::new());
            for c in cells {
                match c {
                    Cell::List(v) => {
                        for x in v {
                            match x {
                                Cell::Int(i) => b.values().append_value(*i as i64),
                                _ => b.values().append_null(),
                            }
                        }
                        b.append(true);
                    }
                    _ => b.append_null(),
                }
            }
            Arc::new(b.finish())
        }
        other => panic!("cells_to_array: unsupported {other:?}"),
    }
}

/// Random spec with `n` value columns from `pool`; small domains are favoured so that predicates
/// select interesting subsets.
pub fn random_spec(rng: &mut Rng, pool: &[ColTy], n: usize) -> TableSpec {
    let mut cols = vec![];
    for i in 0..n {
        let ty = rng.pick(pool).clone();
        let nullable = rng.chance(2, 3);
        cols.push(ColSpec {
            name: format!("c{i}"),
            ty,
            nullable,
            null_eighths: *rng.pick(&[0u8, 1, 2, 4, 7]),
            small_domain: rng.chance(2, 3),
        });
    }
    TableSpec { cols }
}

/// Cast every List<Int32> column of a generated batch to List<Int64> (see cells_to_array).
pub fn widen_lists(b: &RecordBatch) -> RecordBatch {
    use arrow_schema::{Field, Schema};
    let mut fields = vec![];
    let mut cols = vec![];
    for (f, c) in b.schema().fields().iter().zip(b.columns()) {
        if let DataType::List(item) = f.data_type() {
            if item.data_type() == &DataType::Int32 {
                let nt = DataType::List(Arc::new(Field::new("item", DataType::Int64, true)));
                cols.push(arrow_cast::cast(c, &nt).expect("widen list"));
                fields.push(Field::new(f.name(), nt, f.is_nullable()));
                continue;
            }
        }
        fields.push(f.as_ref().clone());
        cols.push(c.clone());
    }
    RecordBatch::try_new(Arc::new(Schema::new(fields)), cols).expect("widen_lists")
}

pub fn storage_version_name(v: LanceFileVersion) -> &'static str {
    match v {
        LanceFileVersion::Legacy => "legacy",
        LanceFileVersion::V2_0 => "2.0",
        LanceFileVersion::V2_1 => "2.1",
        LanceFileVersion::V2_2 => "2.2",
        _ => "other",
    }
}

pub fn unique_uri(tag: &str) -> String {
    format!("memory://{}_{}", tag, uuid::Uuid::new_v4().simple())
}

pub fn reader_of(batches: Vec<RecordBatch>) -> impl RecordBatchReader + Send + 'static {
    let schema = batches[0].schema();
    RecordBatchIterator::new(batches.into_iter().map(Ok), schema)
}

/// Writes `frags` as one dataset: first batch creates, the others are appended (one fragment each,
/// or more when `max_rows_per_file` splits them).
pub async fn write_table(
    uri: &str,
    frags: &[RecordBatch],
    version: LanceFileVersion,
    max_rows_per_file: Option<usize>,
    max_rows_per_group: Option<usize>,
    stable_row_ids: bool,
) -> lance::Result<Dataset> {
    let mk = |mode| {
        let mut p = WriteParams {
            mode,
            data_storage_version: Some(version),
            enable_stable_row_ids: stable_row_ids,
            ..Default::default()
        };
        if let Some(m) = max_rows_per_file {
            p.max_rows_per_file = m.max(1);
        }
        if let Some(m) = max_rows_per_group {
            p.max_rows_per_group = m.max(1);
        }
        p
    };
    let mut ds = Dataset::write(reader_of(vec![frags[0].clone()]), uri, Some(mk(WriteMode::Create))).await?;
    for f in &frags[1..] {
        ds.append(reader_of(vec![f.clone()]), Some(mk(WriteMode::Append))).await?;
    }
    Ok(ds)
}

// ---------------------------------------------------------------------------------------------
// predicate AST
// ---------------------------------------------------------------------------------------------

#[derive(Clone, Debug, PartialEq)]
pub enum Lit {
    Null,
    Bool(bool),
    Int(i128),
    Float(f64),
    Str(String),
    Date(i32),
    Ts(i64),
}

#[derive(Clone, Copy, Debug, PartialEq, Eq)]
pub enum CmpOp {
    Eq,
    Ne,
    Lt,
    Le,
    Gt,
    Ge,
}

impl CmpOp {
    pub fn sql(&self) -> &'static str {
        match self {
            CmpOp::Eq => "=",
            CmpOp::Ne => "<>",
            CmpOp::Lt => "<",
            CmpOp::Le => "<=",
            CmpOp::Gt => ">",
            CmpOp::Ge => ">=",
        }
    }
    pub fn test(&self, o: Ordering) -> bool {
        match self {
            CmpOp::Eq => o == Ordering::Equal,
            CmpOp::Ne => o != Ordering::Equal,
            CmpOp::Lt => o == Ordering::Less,
            CmpOp::Le => o != Ordering::Greater,
            CmpOp::Gt => o == Ordering::Greater,
            CmpOp::Ge => o != Ordering::Less,
        }
    }
    pub fn flip(&self) -> CmpOp {
        match self {
            CmpOp::Eq => CmpOp::Eq,
            CmpOp::Ne => CmpOp::Ne,
            CmpOp::Lt => CmpOp::Gt,
            CmpOp::Le => CmpOp::Ge,
            CmpOp::Gt => CmpOp::Lt,
            CmpOp::Ge => CmpOp::Le,
        }
    }
}

#[derive(Clone, Copy, Debug, PartialEq, Eq)]
pub enum IsKind {
    True,
    False,
    NotTrue,
    NotFalse,
}

#[derive(Clone, Debug, PartialEq)]
pub enum Pred {
    /// `col op lit`, or `lit op' col` when `lit_left` (op is always the column-on-the-left operator)
    Cmp { col: usize, op: CmpOp, lit: Lit, lit_left: bool },
    ColCmp { a: usize, op: CmpOp, b: usize },
    Between { col: usize, lo: Lit, hi: Lit, neg: bool },
    In { col: usize, lits: Vec<Lit>, neg: bool },
    IsNull { col: usize, neg: bool },
    BoolCol(usize),
    Is(Box<Pred>, IsKind),
    Not(Box<Pred>),
    And(Box<Pred>, Box<Pred>),
    Or(Box<Pred>, Box<Pred>),
    /// `contains(col, 's')`
    Contains { col: usize, s: String },
    /// `array_has_any(col, [..])` / `array_has_all(col, [..])` / `array_has(col, v)`
    ArrayHas { col: usize, all: bool, vals: Vec<i128> },
}

fn days_to_date(d: i32) -> Option<String> {
    let base = chrono::NaiveDate::from_ymd_opt(1970, 1, 1)?;
    let date = base.checked_add_signed(chrono::Duration::days(d as i64))?;
    use chrono::Datelike;
    if date.year() < 1 || date.year() > 9999 {
        return None;
    }
    Some(date.format("%Y-%m-%d").to_string())
}

fn micros_to_ts(us: i64) -> Option<String> {
    let secs = us.div_euclid(1_000_000);
    let sub = us.rem_euclid(1_000_000) as u32;
    let dt = chrono::DateTime::from_timestamp(secs, sub * 1000)?;
    use chrono::Datelike;
    let n = dt.naive_utc();
    if n.year() < 1 || n.year() > 9999 {
        return None;
    }
    Some(n.format("%Y-%m-%d %H:%M:%S%.6f").to_string())
}

impl Lit {
    pub fn sql(&self) -> String {
        match self {
            Lit::Null => "NULL".into(),
            Lit::Bool(b) => b.to_string(),
            Lit::Int(i) => i.to_string(),
            Lit::Float(f) => {
                if f.is_nan() {
                    "CAST('NaN' AS DOUBLE)".into()
                } else if f.is_infinite() {
                    if *f > 0.0 {
                        "CAST('inf' AS DOUBLE)".into()
                    } else {
                        "CAST('-inf' AS DOUBLE)".into()
                    }
                } else {
                    let s = format!("{:?}", f);
                    // make sure the SQL parsers see a float, not an integer
                    if s.contains('.') || s.contains('e') || s.contains('E') {
                        s
                    } else {
                        format!("{s}.0")
                    }
                }
            }
            Lit::Str(s) => format!("'{}'", s.replace('\'', "''")),
            Lit::Date(d) => format!("DATE '{}'", days_to_date(*d).unwrap_or_else(|| "1970-01-01".into())),
            Lit::Ts(t) => format!(
                "TIMESTAMP '{}'",
                micros_to_ts(*t).unwrap_or_else(|| "1970-01-01 00:00:00.000000".into())
            ),
        }
    }
    pub fn is_null(&self) -> bool {
        matches!(self, Lit::Null)
    }
    pub fn is_float_special(&self) -> bool {
        match self {
            Lit::Float(f) => f.is_nan() || f.is_infinite() || *f == 0.0,
            _ => false,
        }
    }
}

impl Pred {
    pub fn sql(&self, cols: &[ColInfo]) -> String {
        let n = |c: &usize| cols[*c].name.clone();
        match self {
            Pred::Cmp { col, op, lit, lit_left } => {
                if *lit_left {
                    format!("{} {} {}", lit.sql(), op.flip().sql(), n(col))
                } else {
                    format!("{} {} {}", n(col), op.sql(), lit.sql())
                }
            }
            Pred::ColCmp { a, op, b } => format!("{} {} {}", n(a), op.sql(), n(b)),
            Pred::Between { col, lo, hi, neg } => format!(
                "{} {}BETWEEN {} AND {}",
                n(col),
                if *neg { "NOT " } else { "" },
                lo.sql(),
                hi.sql()
            ),
            Pred::In { col, lits, neg } => format!(
                "{} {}IN ({})",
                n(col),
                if *neg { "NOT " } else { "" },
                lits.iter().map(|l| l.sql()).collect::<Vec<_>>().join(", ")
            ),
            Pred::IsNull { col, neg } => {
                format!("{} IS {}NULL", n(col), if *neg { "NOT " } else { "" })
            }
            Pred::BoolCol(c) => n(c),
            Pred::Is(p, k) => format!(
                "({}) IS {}",
                p.sql(cols),
                match k {
                    IsKind::True => "TRUE",
                    IsKind::False => "FALSE",
                    IsKind::NotTrue => "NOT TRUE",
                    IsKind::NotFalse => "NOT FALSE",
                }
            ),
            Pred::Not(p) => format!("NOT ({})", p.sql(cols)),
            Pred::And(a, b) => format!("({}) AND ({})", a.sql(cols), b.sql(cols)),
            Pred::Or(a, b) => format!("({}) OR ({})", a.sql(cols), b.sql(cols)),
            Pred::Contains { col, s } => format!("contains({}, '{}')", n(col), s.replace('\'', "''")),
            Pred::ArrayHas { col, all, vals } => format!(
                "{}({}, [{}])",
                if *all { "array_has_all" } else { "array_has_any" },
                n(col),
                vals.iter().map(|v| v.to_string()).collect::<Vec<_>>().join(", ")
            ),
        }
    }

    /// Shape signature: column names replaced by their types, literals by a coarse class.
    pub fn shape(&self, cols: &[ColInfo]) -> String {
        let t = |c: &usize| format!("{:?}", cols[*c].ty);
        let l = |x: &Lit| match x {
            Lit::Null => "N",
            Lit::Bool(_) => "b",
            Lit::Int(_) => "i",
            Lit::Float(f) if f.is_nan() => "nan",
            Lit::Float(f) if f.is_infinite() => "inf",
            Lit::Float(f) if *f == 0.0 => "z",
            Lit::Float(_) => "f",
            Lit::Str(s) if s.is_empty() => "e",
            Lit::Str(_) => "s",
            Lit::Date(_) => "d",
            Lit::Ts(_) => "t",
        };
        match self {
            Pred::Cmp { col, op, lit, lit_left } => {
                format!("{}{}{}{}", t(col), op.sql(), l(lit), if *lit_left { "~" } else { "" })
            }
            Pred::ColCmp { a, op, b } => format!("{}{}{}", t(a), op.sql(), t(b)),
            Pred::Between { col, lo, hi, neg } => {
                format!("{}{}btw{}{}", t(col), if *neg { "!" } else { "" }, l(lo), l(hi))
            }
            Pred::In { col, lits, neg } => format!(
                "{}{}in{}{}",
                t(col),
                if *neg { "!" } else { "" },
                lits.len(),
                if lits.iter().any(|x| x.is_null()) { "N" } else { "" }
            ),
            Pred::IsNull { col, neg } => format!("{}{}null", t(col), if *neg { "!" } else { "" }),
            Pred::BoolCol(c) => t(c),
            Pred::Is(p, k) => format!("is{:?}({})", k, p.shape(cols)),
            Pred::Not(p) => format!("!({})", p.shape(cols)),
            Pred::And(a, b) => format!("({})&({})", a.shape(cols), b.shape(cols)),
            Pred::Or(a, b) => format!("({})|({})", a.shape(cols), b.shape(cols)),
            Pred::Contains { col, s } => format!("{}contains{}", t(col), s.chars().count().min(4)),
            Pred::ArrayHas { col, all, vals } => {
                format!("{}has{}{}", t(col), if *all { "all" } else { "any" }, vals.len())
            }
        }
    }

    pub fn columns(&self, out: &mut BTreeSet<usize>) {
        match self {
            Pred::Cmp { col, .. }
            | Pred::Between { col, .. }
            | Pred::In { col, .. }
            | Pred::IsNull { col, .. }
            | Pred::Contains { col, .. }
            | Pred::ArrayHas { col, .. } => {
                out.insert(*col);
            }
            Pred::BoolCol(c) => {
                out.insert(*c);
            }
            Pred::ColCmp { a, b, .. } => {
                out.insert(*a);
                out.insert(*b);
            }
            Pred::Is(p, _) | Pred::Not(p) => p.columns(out),
            Pred::And(a, b) | Pred::Or(a, b) => {
                a.columns(out);
                b.columns(out);
            }
        }
    }

    /// true if a float special value (NaN, ±0, ±inf) can influence the result: a float special
    /// literal, or a float column (whose data may contain specials) under an order comparison.
    pub fn touches_float(&self, cols: &[ColInfo]) -> bool {
        let isf = |c: &usize| class_of(&cols[*c].ty) == Class::Float;
        match self {
            Pred::Cmp { col, lit, .. } => isf(col) || matches!(lit, Lit::Float(_)),
            Pred::ColCmp { a, b, .. } => isf(a) || isf(b),
            Pred::Between { col, lo, hi, .. } => {
                isf(col) || matches!(lo, Lit::Float(_)) || matches!(hi, Lit::Float(_))
            }
            Pred::In { col, lits, .. } => isf(col) || lits.iter().any(|l| matches!(l, Lit::Float(_))),
            Pred::IsNull { .. } | Pred::BoolCol(_) | Pred::Contains { .. } | Pred::ArrayHas { .. } => false,
            Pred::Is(p, _) | Pred::Not(p) => p.touches_float(cols),
            Pred::And(a, b) | Pred::Or(a, b) => a.touches_float(cols) || b.touches_float(cols),
        }
    }

    /// Negation normal form (valid in three-valued logic): NOT is pushed to the leaves; comparison
    /// operators, IN / BETWEEN / IS NULL flags are flipped; `IS ...` atoms and boolean columns keep
    /// an explicit Not.
    pub fn nnf(&self, positive: bool) -> Pred {
        let neg_op = |o: CmpOp| match o {
            CmpOp::Eq => CmpOp::Ne,
            CmpOp::Ne => CmpOp::Eq,
            CmpOp::Lt => CmpOp::Ge,
            CmpOp::Le => CmpOp::Gt,
            CmpOp::Gt => CmpOp::Le,
            CmpOp::Ge => CmpOp::Lt,
        };
        match self {
            Pred::Not(p) => p.nnf(!positive),
            Pred::And(a, b) => {
                if positive {
                    Pred::And(Box::new(a.nnf(true)), Box::new(b.nnf(true)))
                } else {
                    Pred::Or(Box::new(a.nnf(false)), Box::new(b.nnf(false)))
                }
            }
            Pred::Or(a, b) => {
                if positive {
                    Pred::Or(Box::new(a.nnf(true)), Box::new(b.nnf(true)))
                } else {
                    Pred::And(Box::new(a.nnf(false)), Box::new(b.nnf(false)))
                }
            }
            _ if positive => self.clone(),
            Pred::Cmp { col, op, lit, lit_left } => Pred::Cmp { col: *col, op: neg_op(*op), lit: lit.clone(), lit_left: *lit_left },
            Pred::ColCmp { a, op, b } => Pred::ColCmp { a: *a, op: neg_op(*op), b: *b },
            Pred::Between { col, lo, hi, neg } => Pred::Between { col: *col, lo: lo.clone(), hi: hi.clone(), neg: !*neg },
            Pred::In { col, lits, neg } => Pred::In { col: *col, lits: lits.clone(), neg: !*neg },
            Pred::IsNull { col, neg } => Pred::IsNull { col: *col, neg: !*neg },
            Pred::Is(p, k) => Pred::Is(
                p.clone(),
                match k {
                    IsKind::True => IsKind::NotTrue,
                    IsKind::NotTrue => IsKind::True,
                    IsKind::False => IsKind::NotFalse,
                    IsKind::NotFalse => IsKind::False,
                },
            ),
            other => Pred::Not(Box::new(other.clone())),
        }
    }

    /// On a tree in NNF: within one AND-chain, a pair `x <(=) a` ... `x >(=) b` on the same column
    /// with the upper bound written first and mixed strictness. Returns (column, a, b).
    pub fn upper_first_mixed_ranges(&self, out: &mut Vec<(usize, Lit, Lit)>) {
        fn flatten<'a>(p: &'a Pred, v: &mut Vec<&'a Pred>) {
            match p {
                Pred::And(l, r) => {
                    flatten(l, v);
                    flatten(r, v);
                }
                other => v.push(other),
            }
        }
        match self {
            Pred::And(..) => {
                let mut v = vec![];
                flatten(self, &mut v);
                for (i, l) in v.iter().enumerate() {
                    for r in v[i + 1..].iter() {
                        if let (Pred::Cmp { col: c1, op: o1, lit: a, .. }, Pred::Cmp { col: c2, op: o2, lit: b, .. }) = (l, r) {
                            if c1 == c2 && matches!((o1, o2), (CmpOp::Lt, CmpOp::Ge) | (CmpOp::Le, CmpOp::Gt)) {
                                out.push((*c1, a.clone(), b.clone()));
                            }
                        }
                    }
                }
                for p in v {
                    if !matches!(p, Pred::Cmp { .. }) {
                        p.upper_first_mixed_ranges(out);
                    }
                }
            }
            Pred::Or(l, r) => {
                l.upper_first_mixed_ranges(out);
                r.upper_first_mixed_ranges(out);
            }
            Pred::Not(p) | Pred::Is(p, _) => p.upper_first_mixed_ranges(out),
            _ => {}
        }
    }

    /// DataFusion's in-list simplifier merges IN / NOT IN / = / <> leaves on the same column
    /// (`x NOT IN A OR x NOT IN B` -> `x NOT IN (A ∩ B)`, `x NOT IN A AND x IN B` -> `x IN (B − A)`)
    /// without regard to NULL semantics. Pattern: two equality/IN leaves on one column, at least one
    /// of them negated (in NNF).
    pub fn has_mergeable_inlists_same_column(&self) -> bool {
        !self.mergeable_inlist_columns(true).is_empty()
    }

    /// Columns with two equality / IN leaves (in NNF); `require_negated`: at least one of them negated.
    pub fn mergeable_inlist_columns(&self, require_negated: bool) -> Vec<usize> {
        fn collect(p: &Pred, out: &mut Vec<(usize, bool)>) {
            match p {
                Pred::Cmp { col, op: CmpOp::Eq, .. } => out.push((*col, false)),
                Pred::Cmp { col, op: CmpOp::Ne, .. } => out.push((*col, true)),
                Pred::In { col, neg, .. } => out.push((*col, *neg)),
                Pred::And(a, b) | Pred::Or(a, b) => {
                    collect(a, out);
                    collect(b, out);
                }
                Pred::Not(p) | Pred::Is(p, _) => collect(p, out),
                _ => {}
            }
        }
        let mut v = vec![];
        collect(&self.nnf(true), &mut v);
        let mut cols = vec![];
        for (i, (c, n)) in v.iter().enumerate() {
            if v[i + 1..].iter().any(|(c2, n2)| c == c2 && (!require_negated || *n || *n2)) && !cols.contains(c) {
                cols.push(*c);
            }
        }
        cols
    }

    #[allow(dead_code)]
    fn has_mergeable_inlists_same_column_old(&self) -> bool {
        fn collect(p: &Pred, out: &mut Vec<(usize, bool)>) {
            match p {
                Pred::Cmp { col, op: CmpOp::Eq, .. } => out.push((*col, false)),
                Pred::Cmp { col, op: CmpOp::Ne, .. } => out.push((*col, true)),
                Pred::In { col, neg, .. } => out.push((*col, *neg)),
                Pred::And(a, b) | Pred::Or(a, b) => {
                    collect(a, out);
                    collect(b, out);
                }
                Pred::Not(p) | Pred::Is(p, _) => collect(p, out),
                _ => {}
            }
        }
        let mut v = vec![];
        collect(&self.nnf(true), &mut v);
        v.iter().enumerate().any(|(i, (c, n))| v[i + 1..].iter().any(|(c2, n2)| c == c2 && (*n || *n2)))
    }

    /// true if some literal of the tree is a NaN
    pub fn has_nan_literal(&self) -> bool {
        let nan = |l: &Lit| matches!(l, Lit::Float(f) if f.is_nan());
        match self {
            Pred::Cmp { lit, .. } => nan(lit),
            Pred::Between { lo, hi, .. } => nan(lo) || nan(hi),
            Pred::In { lits, .. } => lits.iter().any(nan),
            Pred::Is(p, _) | Pred::Not(p) => p.has_nan_literal(),
            Pred::And(a, b) | Pred::Or(a, b) => a.has_nan_literal() || b.has_nan_literal(),
            _ => false,
        }
    }

    /// Leaves (kind, column) that occur with *negative* polarity in the tree; `<>` and NOT IN count
    /// as a negated equality / IN. Used for the narrow C19 known-finding signature.
    pub fn negated_leaves(&self, positive: bool, out: &mut Vec<(&'static str, usize)>) {
        match self {
            Pred::Cmp { col, op, .. } => {
                // `<>` is a negated equality
                let (kind, self_neg) = match op {
                    CmpOp::Eq => ("eq", false),
                    CmpOp::Ne => ("eq", true),
                    _ => ("range", false),
                };
                if (!positive) ^ self_neg {
                    out.push((kind, *col));
                }
            }
            Pred::In { col, neg, .. } => {
                if positive == *neg {
                    out.push(("in", *col));
                }
            }
            Pred::Between { col, neg, .. } => {
                if positive == *neg {
                    out.push(("between", *col));
                }
            }
            Pred::BoolCol(c) => {
                if !positive {
                    out.push(("bool", *c));
                }
            }
            Pred::ArrayHas { col, .. } => {
                if !positive {
                    out.push(("array_has", *col));
                }
            }
            Pred::IsNull { .. } | Pred::ColCmp { .. } | Pred::Contains { .. } => {}
            Pred::Is(p, k) => match k {
                IsKind::True | IsKind::NotFalse => p.negated_leaves(positive, out),
                IsKind::False | IsKind::NotTrue => p.negated_leaves(!positive, out),
            },
            Pred::Not(p) => p.negated_leaves(!positive, out),
            Pred::And(a, b) | Pred::Or(a, b) => {
                a.negated_leaves(positive, out);
                b.negated_leaves(positive, out);
            }
        }
    }
}

// ---------------------------------------------------------------------------------------------
// reference (a): three-valued evaluator over model rows, exact mathematical comparison
// ---------------------------------------------------------------------------------------------

fn lit_as_f64(l: &Lit) -> Option<f64> {
    match l {
        Lit::Int(i) => Some(*i as f64),
        Lit::Float(f) => Some(*f),
        _ => None,
    }
}

/// Ordering of a cell of column type `ty` against a literal; None when either side is NULL.
/// Integers/temporals compare as mathematical integers; floats with IEEE total order (what
/// arrow/DataFusion comparison kernels implement) after rounding the literal to the column type;
/// strings bytewise.
pub fn cmp_cell_lit(ty: &ColTy, v: &Cell, lit: &Lit) -> Option<Ordering> {
    if v.is_null() || lit.is_null() {
        return None;
    }
    match (class_of(ty), v, lit) {
        (Class::Int, Cell::Int(a), Lit::Int(b)) => Some(a.cmp(b)),
        (Class::Int, Cell::Int(a), Lit::Float(b)) => Some((*a as f64).total_cmp(b)),
        (Class::Date, Cell::Int(a), Lit::Date(b)) => Some(a.cmp(&(*b as i128))),
        (Class::Ts, Cell::Int(a), Lit::Ts(b)) => Some(a.cmp(&(*b as i128))),
        (Class::Float, Cell::Float(a), l) => {
            let mut b = lit_as_f64(l)?;
            if *ty == ColTy::F32 {
                b = b as f32 as f64;
            }
            Some(a.total_cmp(&b))
        }
        (Class::Str, Cell::Str(a), Lit::Str(b)) => Some(a.as_bytes().cmp(b.as_bytes())),
        (Class::Bool, Cell::Bool(a), Lit::Bool(b)) => Some(a.cmp(b)),
        _ => panic!("cmp_cell_lit: generator produced incomparable {ty:?} {v:?} {lit:?}"),
    }
}

pub fn cmp_cells(ty: &ColTy, a: &Cell, b: &Cell) -> Option<Ordering> {
    if a.is_null() || b.is_null() {
        return None;
    }
    match (a, b) {
        (Cell::Int(x), Cell::Int(y)) => Some(x.cmp(y)),
        (Cell::Float(x), Cell::Float(y)) => Some(x.total_cmp(y)),
        (Cell::Str(x), Cell::Str(y)) => Some(x.as_bytes().cmp(y.as_bytes())),
        (Cell::Bool(x), Cell::Bool(y)) => Some(x.cmp(y)),
        _ => panic!("cmp_cells: incomparable {ty:?}"),
    }
}

fn and3(a: Option<bool>, b: Option<bool>) -> Option<bool> {
    match (a, b) {
        (Some(false), _) | (_, Some(false)) => Some(false),
        (Some(true), Some(true)) => Some(true),
        _ => None,
    }
}
fn or3(a: Option<bool>, b: Option<bool>) -> Option<bool> {
    match (a, b) {
        (Some(true), _) | (_, Some(true)) => Some(true),
        (Some(false), Some(false)) => Some(false),
        _ => None,
    }
}

pub fn eval(p: &Pred, cols: &[ColInfo], row: &Row) -> Option<bool> {
    match p {
        Pred::Cmp { col, op, lit, .. } => cmp_cell_lit(&cols[*col].ty, &row[*col], lit).map(|o| op.test(o)),
        Pred::ColCmp { a, op, b } => cmp_cells(&cols[*a].ty, &row[*a], &row[*b]).map(|o| op.test(o)),
        Pred::Between { col, lo, hi, neg } => {
            let ty = &cols[*col].ty;
            let ge = cmp_cell_lit(ty, &row[*col], lo).map(|o| o != Ordering::Less);
            let le = cmp_cell_lit(ty, &row[*col], hi).map(|o| o != Ordering::Greater);
            let r = and3(ge, le);
            if *neg {
                r.map(|x| !x)
            } else {
                r
            }
        }
        Pred::In { col, lits, neg } => {
            let ty = &cols[*col].ty;
            let mut r = Some(false);
            for l in lits {
                r = or3(r, cmp_cell_lit(ty, &row[*col], l).map(|o| o == Ordering::Equal));
            }
            if *neg {
                r.map(|x| !x)
            } else {
                r
            }
        }
        Pred::IsNull { col, neg } => Some(row[*col].is_null() != *neg),
        Pred::BoolCol(c) => match &row[*c] {
            Cell::Bool(b) => Some(*b),
            _ => None,
        },
        Pred::Is(p, k) => {
            let v = eval(p, cols, row);
            Some(match k {
                IsKind::True => v == Some(true),
                IsKind::False => v == Some(false),
                IsKind::NotTrue => v != Some(true),
                IsKind::NotFalse => v != Some(false),
            })
        }
        Pred::Not(p) => eval(p, cols, row).map(|x| !x),
        Pred::And(a, b) => and3(eval(a, cols, row), eval(b, cols, row)),
        Pred::Or(a, b) => or3(eval(a, cols, row), eval(b, cols, row)),
        Pred::Contains { col, s } => match &row[*col] {
            Cell::Str(v) => Some(v.contains(s.as_str())),
            _ => None,
        },
        Pred::ArrayHas { col, all, vals } => match &row[*col] {
            // array_has_any / array_has_all over non-null needles: element equality; NULL elements
            // of the haystack never equal a needle.
            Cell::List(items) => {
                let has = |v: &i128| items.iter().any(|c| matches!(c, Cell::Int(x) if x == v));
                Some(if *all { vals.iter().all(has) } else { vals.iter().any(has) })
            }
            _ => None,
        },
    }
}

/// ids of model rows for which the predicate is TRUE
pub fn ref_ids(p: &Pred, m: &Model) -> BTreeSet<i64> {
    m.rows
        .iter()
        .filter(|(_, r)| eval(p, &m.cols, r) == Some(true))
        .map(|(k, _)| *k)
        .collect()
}

// ---------------------------------------------------------------------------------------------
// reference (b): DataFusion over a MemTable
// ---------------------------------------------------------------------------------------------

pub struct DfRef {
    ctx: SessionContext,
    batch: RecordBatch,
    df_schema: datafusion::common::DFSchema,
}

impl DfRef {
    pub fn new(batch: RecordBatch) -> Result<Self, String> {
        let ctx = SessionContext::new();
        ctx.register_batch("t", batch.clone()).map_err(|e| e.to_string())?;
        let df_schema = datafusion::common::DFSchema::try_from(batch.schema().as_ref().clone()).map_err(|e| e.to_string())?;
        Ok(Self { ctx, batch, df_schema })
    }
    /// Reference (b): the predicate is parsed by DataFusion's SQL front end, type-coerced and
    /// evaluated row by row by its physical expression evaluator over the Arrow batch — *without*
    /// the logical optimizer / simplifier (whose rewrites are part of what Lance is checked against:
    /// Lance runs the same simplifier on its filters).
    pub async fn ids_where(&self, where_sql: &str) -> Result<BTreeSet<i64>, String> {
        use arrow_array::cast::AsArray;
        let expr = self.ctx.parse_sql_expr(where_sql, &self.df_schema).map_err(|e| format!("parse: {e}"))?;
        let phys = self.ctx.create_physical_expr(expr, &self.df_schema).map_err(|e| format!("plan: {e}"))?;
        let n = self.batch.num_rows();
        let v = phys.evaluate(&self.batch).map_err(|e| format!("eval: {e}"))?;
        let arr = v.into_array(n).map_err(|e| format!("eval: {e}"))?;
        let b = arr.as_boolean_opt().ok_or_else(|| format!("predicate is {:?}, not boolean", arr.data_type()))?;
        let ids = self.batch.column(0).as_any().downcast_ref::<Int64Array>().ok_or("id column not Int64")?;
        Ok((0..n).filter(|i| b.is_valid(*i) && b.value(*i)).map(|i| ids.value(i)).collect())
    }
    /// The same predicate through DataFusion's complete SQL pipeline (optimizer included). Only
    /// used to attribute a deviation of Lance to a rewrite it shares with DataFusion.
    pub async fn ids_where_full_sql(&self, where_sql: &str) -> Result<BTreeSet<i64>, String> {
        Ok(self.ids_query(&format!("SELECT id FROM t WHERE {where_sql}")).await?.into_iter().collect())
    }
    pub async fn ids_query(&self, sql: &str) -> Result<Vec<i64>, String> {
        let df = self.ctx.sql(sql).await.map_err(|e| format!("plan: {e}"))?;
        let bs = df.collect().await.map_err(|e| format!("exec: {e}"))?;
        let mut out = vec![];
        for b in bs {
            let a = b
                .column(0)
                .as_any()
                .downcast_ref::<Int64Array>()
                .ok_or_else(|| "id column not Int64".to_string())?
                .clone();
            out.extend(a.values().iter().copied());
        }
        Ok(out)
    }
}

// ---------------------------------------------------------------------------------------------
// predicate generator
// ---------------------------------------------------------------------------------------------

#[derive(Clone, Debug)]
pub struct GenCfg {
    /// columns usable in predicates (indices into model.cols)
    pub cols: Vec<usize>,
    /// columns to favour (e.g. the indexed one); chosen with probability 3/4 when non-empty
    pub focus: Vec<usize>,
    pub max_depth: u32,
    /// allow out-of-range integer literals, float literals on int columns, NULL literals
    pub hostile_literals: bool,
    pub allow_colcmp: bool,
    /// string columns on which `contains(col, 's')` leaves are generated (n-gram index)
    pub contains_cols: Vec<usize>,
}

pub struct PredGen<'a> {
    pub m: &'a Model,
    pub cfg: GenCfg,
    pub pools: BTreeMap<usize, Vec<Cell>>,
}

impl<'a> PredGen<'a> {
    pub fn new(m: &'a Model, cfg: GenCfg) -> Self {
        let mut pools = BTreeMap::new();
        for c in &cfg.cols {
            pools.insert(*c, m.col_values(*c, 48));
        }
        Self { m, cfg, pools }
    }

    fn pick_col(&self, rng: &mut Rng) -> usize {
        if !self.cfg.focus.is_empty() && rng.chance(3, 4) {
            *rng.pick(&self.cfg.focus)
        } else {
            *rng.pick(&self.cfg.cols)
        }
    }

    pub fn lit_for(&self, rng: &mut Rng, col: usize) -> Lit {
        let ty = &self.m.cols[col].ty;
        let pool = self.pools.get(&col).map(|v| v.as_slice()).unwrap_or(&[]);
        let hostile = self.cfg.hostile_literals;
        if hostile && rng.chance(1, 25) {
            return Lit::Null;
        }
        let from_pool = |rng: &mut Rng| -> Option<Cell> {
            if pool.is_empty() {
                None
            } else {
                Some(rng.pick(pool).clone())
            }
        };
        match class_of(ty) {
            Class::Int => {
                let (lo, hi) = int_bounds(ty);
                // literals must parse as i64 in Lance's SQL (larger magnitudes become f64)
                let clamp = |v: i128| v.clamp(i64::MIN as i128 + 1, i64::MAX as i128);
                let r = rng.below(20);
                let v = match r {
                    0..=8 => match from_pool(rng) {
                        Some(Cell::Int(v)) => {
                            // value present, or a neighbour
                            v + *rng.pick(&[0i128, 0, 0, 1, -1])
                        }
                        _ => rng.range(-3, 12) as i128,
                    },
                    9..=12 => rng.range(-4, 13) as i128,
                    13 => lo,
                    14 => hi,
                    15 => *rng.pick(&[lo + 1, hi - 1, 0, -1, 1]),
                    16 | 17 if hostile => *rng.pick(&[hi + 1, lo - 1, hi + 1000, lo - 1000, 1 << 40, -(1 << 40)]),
                    18 if hostile && matches!(ty, ColTy::I8 | ColTy::I16 | ColTy::I32 | ColTy::U8 | ColTy::U16 | ColTy::U32) => {
                        // float literal against an integer column (exactly representable domain)
                        return Lit::Float(*rng.pick(&[2.5, -0.5, 3.0, 0.0, 1e10, -1e10]));
                    }
                    _ => rng.range(-4, 13) as i128,
                };
                Lit::Int(clamp(v))
            }
            Class::Float => {
                let r = rng.below(20);
                let as_ty = |v: f64| if *ty == ColTy::F32 { v as f32 as f64 } else { v };
                match r {
                    0..=8 => match from_pool(rng) {
                        Some(Cell::Float(v)) => Lit::Float(v),
                        _ => Lit::Float(1.0),
                    },
                    9..=11 => Lit::Float(*rng.pick(&[0.0, -0.0, 1.0, -1.0, 2.5, 3.0, 10.0, 100.25, 0.5, -2.5, 1e30, -1e-30])).map_f(as_ty),
                    12 | 13 => Lit::Int(rng.range(-3, 12) as i128),
                    14 => Lit::Float(f64::NAN),
                    15 => Lit::Float(f64::INFINITY),
                    16 => Lit::Float(f64::NEG_INFINITY),
                    17 => Lit::Float(-0.0),
                    18 => Lit::Float(0.0),
                    _ => Lit::Float(as_ty((rng.range(-4000, 4000) as f64) / 4.0)),
                }
            }
            Class::Str => {
                let r = rng.below(10);
                match r {
                    0..=5 => match from_pool(rng) {
                        Some(Cell::Str(s)) => Lit::Str(s),
                        _ => Lit::Str("a".into()),
                    },
                    6 => Lit::Str(String::new()),
                    7 => Lit::Str(rng.pick(vmon::table::WORDS).to_string()),
                    8 => Lit::Str(rng.pick(&["a'b", "zz", "Z", "日", "é", " ", "ab ", "abd"]).to_string()),
                    _ => match from_pool(rng) {
                        // prefix / extension of an existing value: boundary for range predicates
                        Some(Cell::Str(s)) => {
                            let mut t: String = s.chars().take(s.chars().count().saturating_sub(1)).collect();
                            if rng.bool() {
                                t = format!("{s}a");
                            }
                            Lit::Str(t)
                        }
                        _ => Lit::Str("b".into()),
                    },
                }
            }
            Class::Bool => Lit::Bool(rng.bool()),
            Class::Date => {
                let v = match rng.below(10) {
                    0..=5 => match from_pool(rng) {
                        Some(Cell::Int(v)) => v + *rng.pick(&[0i128, 0, 1, -1]),
                        _ => 0,
                    },
                    6 => -100_000,
                    7 => 100_000,
                    _ => rng.range(-4, 13) as i128,
                };
                Lit::Date(v.clamp(-700_000, 2_900_000) as i32)
            }
            Class::Ts => {
                let v = match rng.below(10) {
                    0..=5 => match from_pool(rng) {
                        Some(Cell::Int(v)) => v + *rng.pick(&[0i128, 0, 1, -1]),
                        _ => 0,
                    },
                    6 => -4_000_000_000_000_000,
                    7 => 4_000_000_000_000_000,
                    _ => rng.range(-4, 13) as i128,
                };
                Lit::Ts(v.clamp(-60_000_000_000_000_000, 250_000_000_000_000_000) as i64)
            }
            Class::Other => Lit::Null,
        }
    }

    pub fn leaf(&self, rng: &mut Rng) -> Pred {
        let col = self.pick_col(rng);
        let ty = &self.m.cols[col].ty;
        let class = class_of(ty);
        if self.cfg.contains_cols.contains(&col) && rng.chance(2, 3) {
            let pool = self.pools.get(&col).map(|v| v.as_slice()).unwrap_or(&[]);
            let s = match rng.below(10) {
                0..=5 if !pool.is_empty() => match rng.pick(pool) {
                    // substring (in characters) of an existing value, length 0..=5
                    Cell::Str(v) => {
                        let chars: Vec<char> = v.chars().collect();
                        if chars.is_empty() {
                            String::new()
                        } else {
                            let a = rng.usize_below(chars.len());
                            let len = rng.urange(0, 5).min(chars.len() - a);
                            chars[a..a + len].iter().collect()
                        }
                    }
                    _ => "ab".into(),
                },
                6 => String::new(),
                7 => rng.pick(&["a", "ab", "é", "日", "日本", " ", "_", "%_"]).to_string(),
                8 => rng.pick(&["abc", "zet", "anc", "lan", "pha", "Alp", "x y", "ééé", "nul", "ABC", "LAN"]).to_string(),
                _ => (0..rng.urange(1, 6)).map(|_| *rng.pick(&['a', 'b', 'z', ' ', 'é', '日', '0', '_', 'Q'])).collect(),
            };
            return Pred::Contains { col, s };
        }
        if *ty == ColTy::ListI32 {
            return if rng.chance(1, 8) {
                Pred::IsNull { col, neg: rng.bool() }
            } else {
                let n = rng.urange(1, 3);
                Pred::ArrayHas { col, all: rng.chance(1, 3), vals: (0..n).map(|_| rng.range(-5, 6) as i128).collect() }
            };
        }
        if class == Class::Bool {
            return match rng.below(8) {
                0 | 1 => Pred::BoolCol(col),
                2 => Pred::IsNull { col, neg: rng.bool() },
                3 => Pred::Is(
                    Box::new(Pred::BoolCol(col)),
                    *rng.pick(&[IsKind::True, IsKind::False, IsKind::NotTrue, IsKind::NotFalse]),
                ),
                4 => Pred::In {
                    col,
                    // no NULL element inside IN lists (see the generic leaf below)
                    lits: vec![{
                        let mut l = self.lit_for(rng, col);
                        while l.is_null() {
                            l = self.lit_for(rng, col);
                        }
                        l
                    }],
                    neg: rng.chance(1, 3),
                },
                _ => Pred::Cmp {
                    col,
                    op: *rng.pick(&[CmpOp::Eq, CmpOp::Ne, CmpOp::Eq, CmpOp::Lt, CmpOp::Ge]),
                    lit: self.lit_for(rng, col),
                    lit_left: false,
                },
            };
        }
        match rng.below(20) {
            0..=8 => Pred::Cmp {
                col,
                op: *rng.pick(&[CmpOp::Eq, CmpOp::Eq, CmpOp::Ne, CmpOp::Lt, CmpOp::Le, CmpOp::Gt, CmpOp::Ge]),
                lit: self.lit_for(rng, col),
                lit_left: rng.chance(1, 8),
            },
            9..=11 => {
                let a = self.lit_for(rng, col);
                let b = self.lit_for(rng, col);
                // usually lo <= hi, sometimes inverted (empty range)
                let (lo, hi) = if rng.chance(5, 6) { order_lits(ty, a, b) } else { (a, b) };
                Pred::Between { col, lo, hi, neg: rng.chance(1, 4) }
            }
            12..=14 => {
                let n = rng.urange(1, 5);
                let mut lits: Vec<Lit> = vec![];
                for _ in 0..n {
                    let mut l = self.lit_for(rng, col);
                    // NULL elements inside IN lists are left out: DataFusion's in-list simplifier
                    // (shared by Lance) merges lists without regard to NULL elements — a rare
                    // construct and an upstream matter (see NOTES.md)
                    while l.is_null() {
                        l = self.lit_for(rng, col);
                    }
                    // Lance coerces an IN list element-wise, DataFusion unifies the list type first:
                    // keep one literal class per list (ints for int columns, floats for float columns)
                    if class == Class::Int {
                        if let Lit::Float(_) = l {
                            l = Lit::Int(rng.range(-3, 12) as i128);
                        }
                    }
                    if class == Class::Float {
                        if let Lit::Int(i) = l {
                            l = Lit::Float(i as f64);
                        }
                    }
                    lits.push(l);
                }
                Pred::In { col, lits, neg: rng.chance(1, 3) }
            }
            15 | 16 => Pred::IsNull { col, neg: rng.bool() },
            17 if self.cfg.allow_colcmp => {
                // column vs column of the same type
                let others: Vec<usize> =
                    self.cfg.cols.iter().copied().filter(|c| *c != col && self.m.cols[*c].ty == *ty).collect();
                if others.is_empty() {
                    Pred::IsNull { col, neg: rng.bool() }
                } else {
                    Pred::ColCmp {
                        a: col,
                        op: *rng.pick(&[CmpOp::Eq, CmpOp::Ne, CmpOp::Lt, CmpOp::Le, CmpOp::Gt, CmpOp::Ge]),
                        b: *rng.pick(&others),
                    }
                }
            }
            _ => Pred::Cmp {
                col,
                op: *rng.pick(&[CmpOp::Eq, CmpOp::Ne, CmpOp::Lt, CmpOp::Ge]),
                lit: self.lit_for(rng, col),
                lit_left: false,
            },
        }
    }

    pub fn gen(&self, rng: &mut Rng, depth: u32) -> Pred {
        if depth == 0 || rng.chance(2, 5) {
            return self.leaf(rng);
        }
        match rng.below(10) {
            0 | 1 => Pred::Not(Box::new(self.gen(rng, depth - 1))),
            2..=4 => Pred::And(Box::new(self.gen(rng, depth - 1)), Box::new(self.gen(rng, depth - 1))),
            5..=7 => Pred::Or(Box::new(self.gen(rng, depth - 1)), Box::new(self.gen(rng, depth - 1))),
            8 => Pred::Is(
                Box::new(self.gen(rng, depth - 1)),
                *rng.pick(&[IsKind::True, IsKind::False, IsKind::NotTrue, IsKind::NotFalse]),
            ),
            _ => self.leaf(rng),
        }
    }

    pub fn gen_top(&self, rng: &mut Rng) -> Pred {
        let d = rng.below(self.cfg.max_depth as u64 + 1) as u32;
        self.gen(rng, d)
    }
}

trait MapF {
    fn map_f(self, f: impl Fn(f64) -> f64) -> Self;
}
impl MapF for Lit {
    fn map_f(self, f: impl Fn(f64) -> f64) -> Self {
        match self {
            Lit::Float(v) => Lit::Float(f(v)),
            o => o,
        }
    }
}

fn order_lits(ty: &ColTy, a: Lit, b: Lit) -> (Lit, Lit) {
    let key = |l: &Lit| -> Option<Cell> {
        Some(match l {
            Lit::Int(i) => {
                if class_of(ty) == Class::Float {
                    Cell::Float(*i as f64)
                } else {
                    Cell::Int(*i)
                }
            }
            Lit::Float(f) => {
                if class_of(ty) == Class::Int {
                    return None;
                }
                Cell::Float(*f)
            }
            Lit::Str(s) => Cell::Str(s.clone()),
            Lit::Date(d) => Cell::Int(*d as i128),
            Lit::Ts(t) => Cell::Int(*t as i128),
            Lit::Bool(x) => Cell::Bool(*x),
            Lit::Null => return None,
        })
    };
    match (key(&a), key(&b)) {
        (Some(x), Some(y)) => {
            if cmp_cells(ty, &x, &y) == Some(Ordering::Greater) {
                (b, a)
            } else {
                (a, b)
            }
        }
        _ => (a, b),
    }
}

// ---------------------------------------------------------------------------------------------
// scanning with knobs
// ---------------------------------------------------------------------------------------------

#[derive(Clone, Debug, Default)]
pub struct Knobs {
    pub batch_size: Option<usize>,
    pub batch_readahead: Option<usize>,
    pub fragment_readahead: Option<usize>,
    pub io_buffer_size: Option<u64>,
    /// 0 heuristic (default), 1 all late, 2 all early, 3 all early except the filter columns
    pub materialization: u8,
    pub use_stats: Option<bool>,
    pub use_scalar_index: Option<bool>,
    pub prefilter: Option<bool>,
    pub scan_in_order: Option<bool>,
    pub strict_batch_size: Option<bool>,
    pub with_row_id: bool,
    pub with_row_addr: bool,
}

impl Knobs {
    pub fn random(rng: &mut Rng) -> Self {
        let opt = |rng: &mut Rng, p: u64| rng.chance(p, 4);
        Self {
            batch_size: if opt(rng, 3) { Some(*rng.pick(&[1usize, 2, 3, 7, 16, 100, 1024, 8192])) } else { None },
            batch_readahead: if opt(rng, 2) { Some(*rng.pick(&[1usize, 2, 4, 16])) } else { None },
            fragment_readahead: if opt(rng, 2) { Some(*rng.pick(&[1usize, 2, 4, 8])) } else { None },
            io_buffer_size: if opt(rng, 2) { Some(*rng.pick(&[1u64 << 20, 4 << 20, 64 << 20, 2 << 30])) } else { None },
            materialization: rng.below(4) as u8,
            use_stats: if opt(rng, 2) { Some(rng.bool()) } else { None },
            use_scalar_index: if opt(rng, 2) { Some(rng.bool()) } else { None },
            prefilter: if opt(rng, 2) { Some(rng.bool()) } else { None },
            scan_in_order: if opt(rng, 2) { Some(rng.bool()) } else { None },
            strict_batch_size: if opt(rng, 2) { Some(rng.bool()) } else { None },
            with_row_id: rng.chance(1, 3),
            with_row_addr: rng.chance(1, 3),
        }
    }
    pub fn describe(&self) -> String {
        let mut v = vec![];
        if let Some(x) = self.batch_size {
            v.push(format!("bs={x}"));
        }
        if let Some(x) = self.batch_readahead {
            v.push(format!("bra={x}"));
        }
        if let Some(x) = self.fragment_readahead {
            v.push(format!("fra={x}"));
        }
        if let Some(x) = self.io_buffer_size {
            v.push(format!("iob={x}"));
        }
        v.push(format!("mat={}", self.materialization));
        if let Some(x) = self.use_stats {
            v.push(format!("stats={x}"));
        }
        if let Some(x) = self.use_scalar_index {
            v.push(format!("sidx={x}"));
        }
        if let Some(x) = self.prefilter {
            v.push(format!("pre={x}"));
        }
        if let Some(x) = self.scan_in_order {
            v.push(format!("ord={x}"));
        }
        if let Some(x) = self.strict_batch_size {
            v.push(format!("strict={x}"));
        }
        if self.with_row_id {
            v.push("rowid".into());
        }
        if self.with_row_addr {
            v.push("rowaddr".into());
        }
        v.join(",")
    }
}

#[derive(Clone, Debug, Default)]
pub struct Query {
    pub filter: Option<String>,
    /// projected data columns (names); None = all
    pub projection: Option<Vec<String>>,
    pub limit: Option<i64>,
    pub offset: Option<i64>,
    /// (column, ascending, nulls_first)
    pub order: Option<Vec<(String, bool, bool)>>,
    /// columns of the filter (for AllEarlyExcept)
    pub filter_cols: Vec<String>,
}

#[derive(Debug)]
pub enum ScanErr {
    /// documented rejection (InvalidInput / NotSupported / Schema)
    Rejected(String),
    /// anything else: internal error, arrow error, IO, panic
    Failed(String),
    Timeout,
}

pub struct ScanOut {
    pub names: Vec<String>,
    pub rows: Vec<Row>,
    pub batch_sizes: Vec<usize>,
}

impl ScanOut {
    pub fn col(&self, name: &str) -> Option<usize> {
        self.names.iter().position(|n| n == name)
    }
    pub fn ids(&self) -> Vec<i64> {
        if self.rows.is_empty() {
            return vec![];
        }
        let k = self.col("id").expect("id projected");
        self.rows.iter().map(|r| r[k].as_i64().expect("id non-null")).collect()
    }
}

pub fn classify_err(e: &lance::Error) -> ScanErr {
    use lance::Error as E;
    match e {
        E::InvalidInput { .. } | E::NotSupported { .. } | E::Schema { .. } | E::SchemaMismatch { .. } => {
            ScanErr::Rejected(e.to_string())
        }
        _ => {
            let s = e.to_string();
            // DataFusion planning errors (type coercion, unsupported casts) surface wrapped
            if s.contains("Error during planning")
                || s.contains("type_coercion")
                || s.contains("Cannot infer common argument type")
                || s.contains("Invalid user input")
                || s.contains("No suitable object store")
            {
                ScanErr::Rejected(s)
            } else {
                ScanErr::Failed(s)
            }
        }
    }
}

/// Location of the most recent panic (set by the hook in main.rs); best effort, for witnesses.
pub static LAST_PANIC: std::sync::Mutex<Vec<(String, String)>> = std::sync::Mutex::new(Vec::new());

/// Remember where a panic with this message happened (called from the panic hook).
pub fn note_panic(msg: &str, loc: &str) {
    if let Ok(mut g) = LAST_PANIC.lock() {
        g.retain(|(m, _)| m != msg);
        g.push((msg.to_string(), loc.to_string()));
        if g.len() > 64 {
            g.remove(0);
        }
    }
}

pub fn panic_location(msg: &str) -> String {
    LAST_PANIC.lock().ok().and_then(|g| g.iter().rev().find(|(m, _)| m == msg).map(|(_, l)| l.clone())).unwrap_or_default()
}

pub const OP_TIMEOUT: Duration = Duration::from_secs(60);

/// Run a future with panic capture and a watchdog.
pub async fn guarded<T, F>(f: F) -> Result<T, ScanErr>
where
    F: std::future::Future<Output = lance::Result<T>>,
{
    let fut = std::panic::AssertUnwindSafe(f).catch_unwind();
    match tokio::time::timeout(OP_TIMEOUT, fut).await {
        Err(_) => Err(ScanErr::Timeout),
        Ok(Err(p)) => {
            let msg = if let Some(s) = p.downcast_ref::<String>() {
                s.clone()
            } else if let Some(s) = p.downcast_ref::<&str>() {
                s.to_string()
            } else {
                "panic".to_string()
            };
            let loc = panic_location(&msg);
            Err(ScanErr::Failed(format!("panic: {msg} [at {loc}]")))
        }
        Ok(Ok(Err(e))) => Err(classify_err(&e)),
        Ok(Ok(Ok(v))) => Ok(v),
    }
}

/// Run a maintenance / write operation with panic capture and watchdog; errors as strings.
pub async fn guarded_op<T, F>(what: &str, f: F) -> Result<T, String>
where
    F: std::future::Future<Output = lance::Result<T>>,
{
    match guarded(f).await {
        Ok(v) => Ok(v),
        Err(ScanErr::Rejected(e)) => Err(format!("{what}: rejected: {e}")),
        Err(ScanErr::Failed(e)) => Err(format!("{what}: failed: {e}")),
        Err(ScanErr::Timeout) => Err(format!("{what}: timeout")),
    }
}

pub fn configure(ds: &Dataset, q: &Query, k: &Knobs) -> lance::Result<lance::dataset::scanner::Scanner> {
    let mut s = ds.scan();
    if let Some(p) = &q.projection {
        s.project(p)?;
    }
    if let Some(f) = &q.filter {
        s.filter(f)?;
    }
    if q.limit.is_some() || q.offset.is_some() {
        s.limit(q.limit, q.offset)?;
    }
    if let Some(o) = &q.order {
        s.order_by(Some(
            o.iter()
                .map(|(c, asc, nf)| ColumnOrdering {
                    ascending: *asc,
                    nulls_first: *nf,
                    column_name: c.clone(),
                })
                .collect(),
        ))?;
    }
    if let Some(x) = k.batch_size {
        s.batch_size(x);
    }
    if let Some(x) = k.batch_readahead {
        s.batch_readahead(x);
    }
    if let Some(x) = k.fragment_readahead {
        s.fragment_readahead(x);
    }
    if let Some(x) = k.io_buffer_size {
        s.io_buffer_size(x);
    }
    match k.materialization {
        1 => {
            s.materialization_style(MaterializationStyle::AllLate);
        }
        2 => {
            s.materialization_style(MaterializationStyle::AllEarly);
        }
        3 => {
            if let Ok(m) = MaterializationStyle::all_early_except(&q.filter_cols, ds.schema()) {
                s.materialization_style(m);
            }
        }
        _ => {}
    }
    if let Some(x) = k.use_stats {
        s.use_stats(x);
    }
    if let Some(x) = k.use_scalar_index {
        s.use_scalar_index(x);
    }
    if let Some(x) = k.prefilter {
        s.prefilter(x);
    }
    if let Some(x) = k.scan_in_order {
        s.scan_in_order(x);
    }
    if let Some(x) = k.strict_batch_size {
        s.strict_batch_size(x);
    }
    if k.with_row_id {
        s.with_row_id();
    }
    if k.with_row_addr {
        s.with_row_address();
    }
    Ok(s)
}

pub async fn run_scan(ds: &Dataset, q: &Query, k: &Knobs) -> Result<ScanOut, ScanErr> {
    guarded(async {
        let s = configure(ds, q, k)?;
        let bs: Vec<RecordBatch> = s.try_into_stream().await?.try_collect().await?;
        let names: Vec<String> = match bs.first() {
            Some(b) => b.schema().fields().iter().map(|f| f.name().clone()).collect(),
            None => vec![],
        };
        let batch_sizes = bs.iter().map(|b| b.num_rows()).collect();
        let rows = bs.iter().flat_map(batch_to_rows).collect();
        Ok(ScanOut { names, rows, batch_sizes })
    })
    .await
}

pub async fn run_count(ds: &Dataset, q: &Query, k: &Knobs) -> Result<u64, ScanErr> {
    guarded(async {
        let mut q2 = q.clone();
        q2.projection = Some(vec![]);
        q2.order = None;
        q2.limit = None;
        q2.offset = None;
        let mut k2 = k.clone();
        k2.with_row_id = true;
        let s = configure(ds, &q2, &k2)?;
        s.count_rows().await
    })
    .await
}

pub async fn explain(ds: &Dataset, q: &Query, k: &Knobs) -> Result<String, ScanErr> {
    guarded(async {
        let s = configure(ds, q, k)?;
        s.explain_plan(true).await
    })
    .await
}

/// Compare returned rows against the model on the projected columns (bitwise for floats).
/// Returns a description of the first mismatch.
pub fn check_values(out: &ScanOut, m: &Model) -> Option<String> {
    let idk = out.col("id")?;
    let map: Vec<(usize, usize)> = out
        .names
        .iter()
        .enumerate()
        .filter_map(|(i, n)| m.col_index(n).map(|j| (i, j)))
        .collect();
    for r in &out.rows {
        let id = r[idk].as_i64()?;
        match m.rows.get(&id) {
            None => return Some(format!("row id={id} is not in the model")),
            Some(mr) => {
                for (i, j) in &map {
                    if r[*i] != mr[*j] {
                        return Some(format!(
                            "row id={id} column {}: scan {} model {}",
                            out.names[*i],
                            r[*i].render(),
                            mr[*j].render()
                        ));
                    }
                }
            }
        }
    }
    None
}

pub fn dup_id(ids: &[i64]) -> Option<i64> {
    let mut s = BTreeSet::new();
    for i in ids {
        if !s.insert(*i) {
            return Some(*i);
        }
    }
    None
}

pub fn set_diff(a: &BTreeSet<i64>, b: &BTreeSet<i64>) -> (Vec<i64>, Vec<i64>) {
    (a.difference(b).copied().collect(), b.difference(a).copied().collect())
}

pub fn trunc<T: Clone>(v: &[T], n: usize) -> Vec<T> {
    v.iter().take(n).cloned().collect()
}

/// A setup / history operation of the harness failed: a watchdog timeout is *inconclusive*
/// (three-valued verdicts), anything else a harness error.
pub fn op_failed(report: &vmon::report::Report, msg: &str) {
    if msg.contains("timeout") || msg.contains("Timeout") {
        report.inconclusive(msg);
    } else {
        report.harness_error(msg);
    }
}

/// Worker threads of a check: env `VERIF_THREADS` (default 16).
pub fn n_threads() -> usize {
    std::env::var("VERIF_THREADS").ok().and_then(|s| s.parse::<usize>().ok()).filter(|n| *n > 0).unwrap_or(16)
}

/// Run `work(thread_index)` on `n` OS threads, each with its own tokio runtime.
pub fn run_threads<F>(n: usize, work: F)
where
    F: Fn(usize, &tokio::runtime::Runtime) + Sync,
{
    std::thread::scope(|s| {
        for t in 0..n {
            let work = &work;
            s.spawn(move || {
                let rt = tokio::runtime::Builder::new_multi_thread()
                    .worker_threads(2)
                    .enable_all()
                    .build()
                    .expect("runtime");
                work(t, &rt);
            });
        }
    });
}
