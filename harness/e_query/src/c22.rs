//! C22 — vector search returns the true nearest neighbours when it claims exactness.
//!
//! Case = random vector table (FixedSizeList<f32, dim>, dims incl. non-multiples of SIMD widths,
//! duplicates, zero vectors, integer-valued vectors for ties), metric, optional IVF_FLAT / IVF_PQ
//! index, history (deletes, appends after indexing, optimize_indices, compaction) and queries
//! (k in {1, few, > rows}, optional pre-filter). Oracle = brute-force f64 distances over the model.

use crate::core::*;
use arrow_array::builder::{FixedSizeListBuilder, Float32Builder};
use arrow_array::{ArrayRef, Float32Array, Int32Array, Int64Array, RecordBatch};
use arrow_schema::{DataType, Field, Schema};
use futures::TryStreamExt;
use lance::dataset::optimize::{compact_files, CompactionOptions};
use lance::dataset::{WriteMode, WriteParams};
use lance::index::vector::VectorIndexParams;
use lance::Dataset;
use lance_encoding::version::LanceFileVersion;
use lance_index::optimize::OptimizeOptions;
use lance_index::vector::ivf::IvfBuildParams;
use lance_index::vector::pq::PQBuildParams;
use lance_index::{DatasetIndexExt, IndexType};
use lance_linalg::distance::MetricType;
use serde_json::json;
use std::collections::{BTreeMap, BTreeSet};
use std::sync::atomic::{AtomicU64, Ordering as AO};
use std::sync::Arc;
use vmon::prng::{fnv_str, Rng};
use vmon::report::{Args, Report};

#[derive(Clone)]
struct VRow {
    vec: Option<Vec<f32>>,
    y: Option<i32>,
}

fn true_distance(metric: MetricType, q: &[f32], v: &[f32]) -> f64 {
    match metric {
        MetricType::L2 => q.iter().zip(v).map(|(a, b)| (*a as f64 - *b as f64).powi(2)).sum(),
        MetricType::Dot => 1.0 - q.iter().zip(v).map(|(a, b)| *a as f64 * *b as f64).sum::<f64>(),
        MetricType::Cosine => {
            let dot: f64 = q.iter().zip(v).map(|(a, b)| *a as f64 * *b as f64).sum();
            let nq: f64 = q.iter().map(|a| (*a as f64).powi(2)).sum::<f64>().sqrt();
            let nv: f64 = v.iter().map(|a| (*a as f64).powi(2)).sum::<f64>().sqrt();
            1.0 - dot / (nq * nv)
        }
        _ => f64::NAN,
    }
}

/// tolerance for a distance computed in f32 (any summation order, FMA or not) vs the f64 value
fn tol(metric: MetricType, q: &[f32], v: &[f32]) -> f64 {
    let dim = q.len() as f64;
    let mag: f64 = q.iter().chain(v.iter()).map(|a| (*a as f64).powi(2)).sum::<f64>() + 1.0;
    match metric {
        MetricType::Cosine => 4e-6 * dim + 1e-5,
        _ => 4e-7 * dim * mag + 1e-6,
    }
}

fn gen_vec(rng: &mut Rng, dim: usize, style: u64, allow_zero: bool) -> Vec<f32> {
    match style {
        // integer-valued small coordinates: many exact ties
        0 => (0..dim).map(|_| rng.range(-2, 2) as f32).collect(),
        1 if allow_zero => vec![0.0; dim],
        _ => (0..dim).map(|_| (rng.f64() * 8.0 - 4.0) as f32).collect(),
    }
}

fn make_batch(schema: &Arc<Schema>, dim: usize, rows: &[(i64, VRow)]) -> RecordBatch {
    let mut vb = FixedSizeListBuilder::new(Float32Builder::new(), dim as i32);
    for (_, r) in rows {
        match &r.vec {
            Some(v) => {
                for x in v {
                    vb.values().append_value(*x);
                }
                vb.append(true);
            }
            None => {
                for _ in 0..dim {
                    vb.values().append_value(0.0);
                }
                vb.append(false);
            }
        }
    }
    let ids = Int64Array::from(rows.iter().map(|(i, _)| *i).collect::<Vec<_>>());
    let ys = Int32Array::from(rows.iter().map(|(_, r)| r.y).collect::<Vec<_>>());
    let vecs: ArrayRef = Arc::new(vb.finish());
    // the builder's item field is nullable "item": rebuild with the schema's field
    let vecs = arrow_cast::cast(&vecs, schema.field(1).data_type()).expect("fsl cast");
    RecordBatch::try_new(schema.clone(), vec![Arc::new(ids), vecs, Arc::new(ys)]).expect("vector batch")
}

pub fn run(args: &Args) -> i32 {
    let selftest = args.extra.contains_key("selftest");
    let report = Report::new(
        args,
        "exploration",
        "case = (dim, metric, vector table with duplicates / zero vectors / tie-heavy integer vectors / NULL vectors, search mode: flat, IVF_FLAT with nprobes = partitions, IVF_PQ with full refine; history: deletes, appends after indexing, optimize, compaction; query vector, k, optional pre-filter); \
         oracle = brute-force f64 distances. distinct = hash(dim, metric, mode, history kind, k class, filter); non-trivial = an exact-mode query with more candidates than k (or a selective pre-filter) — the top-k is a strict subset",
        (75, 900),
    )
    .with_min_nontrivial(20);
    let threads = n_threads();
    // quick: fixed case set per seed (deterministic; the time budget is only a safety net)
    let max_cases: u64 = args.tier.pick(500, 300_000);
    let queries_per_state = args.tier.pick(8, 20);
    let next = AtomicU64::new(0);
    let only_case: Option<u64> = args.extra.get("case").and_then(|s| s.parse().ok());
    let st_fired = AtomicU64::new(0);
    let st_total = AtomicU64::new(0);

    run_threads(threads, |_t, rt| loop {
        let mut case = next.fetch_add(1, AO::Relaxed);
        if let Some(c) = only_case {
            if case > 0 {
                break;
            }
            case = c;
        }
        if (only_case.is_none() && case >= max_cases) || !report.time_left() {
            break;
        }
        let mut rng = Rng::for_case(args.seed, case);
        rt.block_on(async {
            let dim = *rng.pick(&[1usize, 2, 3, 4, 7, 8, 16, 17, 33, 100]);
            let metric = *rng.pick(&[MetricType::L2, MetricType::L2, MetricType::Cosine, MetricType::Dot]);
            let mode = *rng.pick(&["flat", "flat", "ivf_flat", "ivf_flat", "ivf_pq"]);
            let n0 = if mode == "ivf_pq" { rng.urange(260, 420) } else { rng.urange(10, args.tier.pick(300, 1200)) };
            let allow_zero = metric != MetricType::Cosine;
            let nullable_vec = rng.chance(1, 3);
            let schema = Arc::new(Schema::new(vec![
                Field::new("id", DataType::Int64, false),
                Field::new("vec", DataType::FixedSizeList(Arc::new(Field::new("item", DataType::Float32, true)), dim as i32), nullable_vec),
                Field::new("y", DataType::Int32, true),
            ]));
            let mut next_id = 0i64;
            let mut model: BTreeMap<i64, VRow> = BTreeMap::new();
            let tie_heavy = rng.chance(1, 3);
            let mut gen_rows = |rng: &mut Rng, n: usize, model: &BTreeMap<i64, VRow>, next_id: &mut i64| -> Vec<(i64, VRow)> {
                let mut out: Vec<(i64, VRow)> = vec![];
                for _ in 0..n {
                    let style = if tie_heavy { rng.below(3) } else { 2 + rng.below(20).min(1) * 0 + if rng.chance(1, 20) { 0 } else { 0 } };
                    let vec = if nullable_vec && rng.chance(1, 12) {
                        None
                    } else if rng.chance(1, 8) && (!out.is_empty() || !model.is_empty()) {
                        // duplicate of an earlier vector
                        let src: Vec<&VRow> = out.iter().map(|(_, r)| r).chain(model.values()).filter(|r| r.vec.is_some()).collect();
                        if src.is_empty() { Some(gen_vec(rng, dim, 2, allow_zero)) } else { rng.pick(&src).vec.clone() }
                    } else if allow_zero && rng.chance(1, 25) {
                        Some(vec![0.0; dim])
                    } else {
                        Some(gen_vec(rng, dim, if tie_heavy { style } else { 2 }, allow_zero))
                    };
                    // cosine: no zero vectors (distance undefined, see NOTES)
                    let vec = match vec {
                        Some(v) if !allow_zero && v.iter().all(|x| *x == 0.0) => Some(vec![1.0; dim]),
                        v => v,
                    };
                    let y = if rng.chance(1, 6) { None } else { Some(rng.range(0, 9) as i32) };
                    out.push((*next_id, VRow { vec, y }));
                    *next_id += 1;
                }
                out
            };
            let version = *rng.pick(&[LanceFileVersion::V2_0, LanceFileVersion::V2_1]);
            let nfrag = rng.urange(1, 3);
            let mut ds: Option<Dataset> = None;
            for f in 0..nfrag {
                let rows = gen_rows(&mut rng, (n0 / nfrag).max(1), &model, &mut next_id);
                let b = make_batch(&schema, dim, &rows);
                let p = WriteParams { mode: if f == 0 { WriteMode::Create } else { WriteMode::Append }, data_storage_version: Some(version), ..Default::default() };
                let res = match ds.as_mut() {
                    None => Dataset::write(reader_of(vec![b]), &unique_uri("c22"), Some(p)).await.map(Some),
                    Some(d) => d.append(reader_of(vec![b]), Some(p)).await.map(|_| None),
                };
                match res {
                    Ok(Some(d)) => ds = Some(d),
                    Ok(None) => {}
                    Err(e) => {
                        op_failed(&report, &format!("case {case}: write: {e}"));
                        return;
                    }
                }
                for (i, r) in rows {
                    model.insert(i, r);
                }
            }
            let mut ds = ds.unwrap();
            // ---- index
            let mut nparts = 1usize;
            let mut indexed_ids: BTreeSet<i64> = BTreeSet::new();
            if mode != "flat" {
                nparts = *rng.pick(&[1usize, 2, 4]);
                let params = if mode == "ivf_flat" {
                    VectorIndexParams::ivf_flat(nparts, metric)
                } else {
                    let nsub = if dim % 4 == 0 { dim / 4 } else if dim % 2 == 0 { dim / 2 } else { dim };
                    VectorIndexParams::with_ivf_pq_params(metric, IvfBuildParams::new(nparts), PQBuildParams::new(nsub.max(1), 8))
                };
                match guarded(ds.create_index(&["vec"], IndexType::Vector, Some("vec_idx".into()), &params, true)).await {
                    Ok(()) => indexed_ids = model.keys().copied().collect(),
                    Err(e) => {
                        report.rejected();
                        report.count("index_creation_rejected", 1);
                        if report.counter("index_creation_rejected") <= 3 {
                            report.sample(json!({"index_rejected": format!("{mode} dim={dim} {metric:?} rows={}", model.len()), "error": format!("{e:?}").chars().take(200).collect::<String>()}));
                        }
                        return;
                    }
                }
            }
            report.count("tables", 1);
            report.count(&format!("mode_{mode}"), 1);
            let table_desc = format!("dim={dim} metric={metric:?} mode={mode} partitions={nparts} rows={} tie_heavy={tie_heavy} nullable_vec={nullable_vec} v={}", model.len(), storage_version_name(version));
            let mut history: Vec<String> = vec![];
            let nstates = rng.urange(1, 3);
            for state in 0..nstates {
                if !report.time_left() {
                    break;
                }
                if state > 0 {
                    match rng.below(4) {
                        0 => {
                            let all: Vec<i64> = model.keys().copied().collect();
                            if all.len() > 4 {
                                let k = rng.urange(1, all.len() / 3);
                                let victims: Vec<i64> = rng.sample_indices(all.len(), k).into_iter().map(|i| all[i]).collect();
                                let list = victims.iter().map(|v| v.to_string()).collect::<Vec<_>>().join(",");
                                let del = format!("id IN ({list})");
                                if let Err(e) = guarded_op("delete", ds.delete(&del)).await {
                                    op_failed(&report, &format!("case {case}: {e}"));
                                    return;
                                }
                                for v in victims {
                                    model.remove(&v);
                                }
                                history.push(format!("delete({k})"));
                            }
                        }
                        1 => {
                            let n = rng.urange(1, 40);
                            let rows = gen_rows(&mut rng, n, &model, &mut next_id);
                            let b = make_batch(&schema, dim, &rows);
                            let p = WriteParams { mode: WriteMode::Append, data_storage_version: Some(version), ..Default::default() };
                            if let Err(e) = guarded_op("append", ds.append(reader_of(vec![b]), Some(p))).await {
                                op_failed(&report, &format!("case {case}: {e}"));
                                return;
                            }
                            for (i, r) in rows {
                                model.insert(i, r);
                            }
                            history.push(format!("append({n})"));
                        }
                        2 if mode != "flat" => {
                            let o = if rng.bool() { OptimizeOptions::append() } else { OptimizeOptions::merge(10) };
                            if let Err(e) = guarded_op("optimize_indices", ds.optimize_indices(&o)).await {
                                op_failed(&report, &format!("case {case}: {e}; table {table_desc}; history {history:?}"));
                                return;
                            }
                            indexed_ids = model.keys().copied().collect();
                            history.push("optimize".into());
                        }
                        _ => {
                            let opts = CompactionOptions { target_rows_per_fragment: 100_000, materialize_deletions_threshold: 0.0, ..Default::default() };
                            match guarded(compact_files(&mut ds, opts, None)).await {
                                Ok(m) => history.push(format!("compact(-{}+{})", m.fragments_removed, m.fragments_added)),
                                Err(e) => {
                                    op_failed(&report, &format!("case {case}: compact: {e:?}"));
                                    return;
                                }
                            }
                        }
                    }
                }
                let state_kind = history.last().map(|s| s.split('(').next().unwrap().to_string()).unwrap_or_else(|| "fresh".into());
                let live_vectors = model.values().filter(|r| r.vec.is_some()).count();
                for qi in 0..queries_per_state {
                    if !report.time_left() {
                        break;
                    }
                    // query vector
                    let qv: Vec<f32> = match rng.below(4) {
                        0 => {
                            let src: Vec<&VRow> = model.values().filter(|r| r.vec.is_some()).collect();
                            if src.is_empty() { gen_vec(&mut rng, dim, 2, allow_zero) } else { rng.pick(&src).vec.clone().unwrap() }
                        }
                        1 if tie_heavy => gen_vec(&mut rng, dim, 0, allow_zero),
                        _ => gen_vec(&mut rng, dim, 2, allow_zero),
                    };
                    let qv = if !allow_zero && qv.iter().all(|x| *x == 0.0) { vec![1.0; dim] } else { qv };
                    let k = match rng.below(4) {
                        0 => 1usize,
                        1 => live_vectors + 5,
                        _ => rng.urange(2, 10),
                    };
                    let filter: Option<(String, Box<dyn Fn(&VRow) -> bool>)> = match rng.below(5) {
                        0 => {
                            let c = rng.range(1, 8) as i32;
                            Some((format!("y < {c}"), Box::new(move |r: &VRow| r.y.map(|y| y < c).unwrap_or(false))))
                        }
                        1 => Some(("y IS NOT NULL".to_string(), Box::new(|r: &VRow| r.y.is_some()))),
                        _ => None,
                    };
                    let fast = mode != "flat" && rng.chance(1, 6);
                    // exact modes: flat; ivf_flat with all partitions probed; ivf_pq with all partitions probed and a refine factor covering every row
                    let refine: Option<u32> = if mode == "ivf_pq" { Some(((model.len() + 50) / k.max(1) + 2) as u32) } else { None };
                    // candidates (fast_search ignores rows appended after indexing)
                    let cand: Vec<(i64, f64, f64)> = model
                        .iter()
                        .filter(|(id, r)| r.vec.is_some() && filter.as_ref().map(|(_, f)| f(r)).unwrap_or(true) && (!fast || indexed_ids.contains(id)))
                        .map(|(id, r)| {
                            let v = r.vec.as_ref().unwrap();
                            (*id, true_distance(metric, &qv, v), tol(metric, &qv, v))
                        })
                        .collect();
                    let expected_n = k.min(cand.len());
                    let mut sorted: Vec<f64> = cand.iter().map(|c| c.1).collect();
                    sorted.sort_by(|a, b| a.total_cmp(b));
                    let kth = if expected_n > 0 { sorted[expected_n - 1] } else { f64::NEG_INFINITY };
                    // ---- run
                    let qarr = Float32Array::from(qv.clone());
                    let res = guarded(async {
                        let mut s = ds.scan();
                        s.nearest("vec", &qarr, k)?;
                        s.distance_metric(metric);
                        if mode == "flat" {
                            s.use_index(false);
                        } else {
                            s.nprobes(nparts.max(1));
                            if let Some(r) = refine {
                                s.refine(r);
                            }
                            if fast {
                                s.fast_search();
                            }
                        }
                        if let Some((f, _)) = &filter {
                            s.filter(f)?;
                            s.prefilter(true);
                        }
                        s.project(&["id"])?;
                        let bs: Vec<RecordBatch> = s.try_into_stream().await?.try_collect().await?;
                        Ok(bs)
                    })
                    .await;
                    let witness = |detail: serde_json::Value| {
                        json!({"seed": args.seed, "case": case, "state": state, "query_index": qi, "table": table_desc, "history": history, "k": k,
                               "filter": filter.as_ref().map(|f| f.0.clone()), "fast_search": fast, "refine": refine, "query": trunc(&qv, 8), "detail": detail})
                    };
                    let bs = match res {
                        Ok(b) => b,
                        Err(ScanErr::Rejected(e)) => {
                            report.rejected();
                            if report.counter("rejected_samples") < 2 {
                                report.count("rejected_samples", 1);
                                report.sample(json!({"rejected_query": table_desc, "error": e.chars().take(200).collect::<String>()}));
                            }
                            report.case(None);
                            continue;
                        }
                        Err(ScanErr::Timeout) => {
                            report.inconclusive(&format!("case {case}: vector query timed out"));
                            continue;
                        }
                        Err(ScanErr::Failed(e)) => {
                            if !selftest {
                                report.violation("vector-search-failed", &e.chars().take(300).collect::<String>(), witness(json!({"error": e})));
                            }
                            report.case(None);
                            continue;
                        }
                    };
                    let mut got: Vec<(i64, f32)> = vec![];
                    for b in &bs {
                        let ids = b.column_by_name("id").and_then(|c| c.as_any().downcast_ref::<Int64Array>().cloned());
                        let ds_ = b.column_by_name("_distance").and_then(|c| c.as_any().downcast_ref::<Float32Array>().cloned());
                        if let (Some(ids), Some(dd)) = (ids, ds_) {
                            for i in 0..b.num_rows() {
                                got.push((ids.value(i), dd.value(i)));
                            }
                        }
                    }
                    report.count("queries", 1);
                    report.count("rows_compared", got.len() as u64);
                    let nontrivial = cand.len() > k || (filter.is_some() && cand.len() < live_vectors && !cand.is_empty());
                    if selftest {
                        if nontrivial && !got.is_empty() {
                            st_total.fetch_add(1, AO::Relaxed);
                            // corrupt: replace the last hit by the farthest candidate not returned
                            let returned: BTreeSet<i64> = got.iter().map(|g| g.0).collect();
                            let far = cand.iter().filter(|c| !returned.contains(&c.0)).max_by(|a, b| a.1.total_cmp(&b.1));
                            if let Some(far) = far {
                                let l = got.len() - 1;
                                got[l] = (far.0, far.1 as f32);
                                let bad = far.1 > kth + far.2;
                                if bad {
                                    st_fired.fetch_add(1, AO::Relaxed);
                                } else {
                                    st_total.fetch_sub(1, AO::Relaxed);
                                }
                            } else {
                                st_total.fetch_sub(1, AO::Relaxed);
                            }
                        }
                        report.case(None);
                        continue;
                    }
                    let cmap: BTreeMap<i64, (f64, f64)> = cand.iter().map(|c| (c.0, (c.1, c.2))).collect();
                    let mut problem: Option<(String, String)> = None;
                    let mut seen = BTreeSet::new();
                    for (id, d) in &got {
                        if !seen.insert(*id) {
                            problem = Some(("vector-search-duplicate-row".into(), format!("id {id} returned twice")));
                            break;
                        }
                        match model.get(id) {
                            None => {
                                problem = Some(("vector-search-returns-deleted-or-unknown-row".into(), format!("id {id} is not a live row")));
                                break;
                            }
                            Some(r) => {
                                if let Some((fs, f)) = &filter {
                                    if !f(r) {
                                        problem = Some(("vector-search-returns-row-failing-prefilter".into(), format!("id {id} does not satisfy `{fs}`")));
                                        break;
                                    }
                                }
                                if r.vec.is_none() {
                                    problem = Some(("vector-search-returns-null-vector-row".into(), format!("id {id} has a NULL vector")));
                                    break;
                                }
                            }
                        }
                        if let Some((td, t)) = cmap.get(id) {
                            if ((*d as f64) - td).abs() > *t {
                                problem = Some(("vector-search-reported-distance-differs-from-recomputation".into(), format!("id {id}: _distance {d} recomputed {td} (tolerance {t:.2e})")));
                                break;
                            }
                            if *td > kth + *t {
                                problem = Some(("vector-search-result-not-among-k-nearest".into(), format!("id {id} at true distance {td} but the k-th nearest candidate is at {kth}")));
                                break;
                            }
                        } else if fast {
                            // fast_search may skip unindexed rows but must not invent rows: id is live, just not a candidate of the indexed part
                            problem = Some(("vector-fast-search-returns-unindexed-row".into(), format!("id {id} was appended after indexing")));
                            break;
                        }
                    }
                    if problem.is_none() && got.len() != expected_n {
                        let sig = if !fast && got.len() < expected_n && cand.iter().any(|c| !indexed_ids.contains(&c.0)) && mode != "flat" {
                            "vector-search-misses-rows-appended-after-indexing-or-returns-too-few"
                        } else {
                            "vector-search-wrong-result-count"
                        };
                        problem = Some((sig.into(), format!("returned {} rows, expected min(k={k}, candidates={}) = {expected_n}", got.len(), cand.len())));
                    }
                    if problem.is_none() && got.windows(2).any(|w| w[0].1 > w[1].1) {
                        problem = Some(("vector-search-results-not-sorted-by-distance".into(), "distances are not ascending".into()));
                    }
                    if let Some((sig, what)) = problem {
                        report.violation(&sig, &what, witness(json!({"returned": trunc(&got, 12), "expected_count": expected_n, "kth_true_distance": kth})));
                    }
                    let kclass = if k == 1 { "1" } else if k > live_vectors { "gt_rows" } else { "few" };
                    let shape = format!("{dim}|{metric:?}|{mode}|{state_kind}|{kclass}|{}|{fast}", filter.as_ref().map(|f| f.0.split(' ').nth(1).unwrap_or("f")).unwrap_or("-"));
                    report.case(if nontrivial { Some(fnv_str(&shape)) } else { None });
                    let pick = rng.chance(1, 60);
                    if nontrivial && pick && report.want_sample() {
                        report.sample(json!({"table": table_desc, "history": history, "k": k, "filter": filter.as_ref().map(|f| f.0.clone()), "candidates": cand.len(), "returned": trunc(&got, 5), "kth_true_distance": kth}));
                    }
                }
            }
        });
    });
    if selftest {
        let (f, t) = (st_fired.load(AO::Relaxed), st_total.load(AO::Relaxed));
        println!("SELFTEST C22 oracle fired on {f} of {t} corrupted observations");
        return if t > 0 && f == t { 0 } else { 2 };
    }
    report.assume("cosine distance is undefined for zero vectors (0/0): tables and queries under the cosine metric contain no zero vector");
    report.assume("IVF_PQ is treated as exact only with nprobes = number of partitions and a refine factor that re-ranks every row");
    report.finish()
}
