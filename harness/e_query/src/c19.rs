//! C19 — exact scalar indices (btree, bitmap, label_list) answer filters exactly like a full scan.
//!
//! Case = random table with an indexed column (random type, nullable), a random index type and a
//! random history of index states (fresh, unindexed appends, deletes, updates, compaction with and
//! without deferred remap, optimize_indices append/merge). In every state random predicate trees
//! are run with use_scalar_index(true), (false) and judged against the references.

use crate::c16::{coercion_sig, judge, quirk_sig, reference, Expected, RefOutcome};
use crate::core::*;
use lance::dataset::optimize::{compact_files, CompactionOptions};
use lance::dataset::UpdateBuilder;
use lance_index::DatasetIndexExt;
use lance::Dataset;
use lance_encoding::version::LanceFileVersion;
use lance_index::optimize::OptimizeOptions;
use lance_index::scalar::{BuiltinIndexType, ScalarIndexParams};
use lance_index::IndexType;
use serde_json::json;
use std::collections::BTreeSet;
use std::sync::atomic::{AtomicU64, Ordering as AO};
use std::sync::Arc;
use vmon::prng::{fnv_str, Rng};
use vmon::report::{Args, Report};
use vmon::table::IdAlloc;

#[derive(Clone, Copy, Debug, PartialEq)]
pub enum Ix {
    BTree,
    Bitmap,
    LabelList,
}

impl Ix {
    pub fn name(&self) -> &'static str {
        match self {
            Ix::BTree => "btree",
            Ix::Bitmap => "bitmap",
            Ix::LabelList => "label_list",
        }
    }
    pub fn params(&self) -> (IndexType, ScalarIndexParams) {
        match self {
            Ix::BTree => (IndexType::BTree, ScalarIndexParams::for_builtin(BuiltinIndexType::BTree)),
            Ix::Bitmap => (IndexType::Bitmap, ScalarIndexParams::for_builtin(BuiltinIndexType::Bitmap)),
            Ix::LabelList => (IndexType::LabelList, ScalarIndexParams::for_builtin(BuiltinIndexType::LabelList)),
        }
    }
}

pub fn lit_to_cell(ty: &ColTy, l: &Lit) -> Cell {
    match (class_of(ty), l) {
        (_, Lit::Null) => Cell::Null,
        (Class::Int, Lit::Int(i)) => Cell::Int(*i),
        (Class::Float, Lit::Int(i)) => Cell::Float(if *ty == ColTy::F32 { *i as f32 as f64 } else { *i as f64 }),
        (Class::Float, Lit::Float(f)) => Cell::Float(if *ty == ColTy::F32 { *f as f32 as f64 } else { *f }),
        (Class::Str, Lit::Str(s)) => Cell::Str(s.clone()),
        (Class::Bool, Lit::Bool(b)) => Cell::Bool(*b),
        (Class::Date, Lit::Date(d)) => Cell::Int(*d as i128),
        (Class::Ts, Lit::Ts(t)) => Cell::Int(*t as i128),
        _ => panic!("lit_to_cell {ty:?} {l:?}"),
    }
}

/// In-range literal usable as an UPDATE value for the column.
pub fn value_lit(rng: &mut Rng, gen: &PredGen, col: usize) -> Lit {
    let ty = &gen.m.cols[col].ty;
    for _ in 0..20 {
        let l = gen.lit_for(rng, col);
        let ok = match (&l, class_of(ty)) {
            (Lit::Null, _) => gen.m.cols[col].nullable,
            (Lit::Int(i), Class::Int) => {
                let (lo, hi) = int_bounds(ty);
                *i >= lo && *i <= hi
            }
            (Lit::Float(_), Class::Int) => false,
            _ => true,
        };
        if ok {
            return l;
        }
    }
    match class_of(ty) {
        Class::Int => Lit::Int(1),
        Class::Float => Lit::Float(1.0),
        Class::Str => Lit::Str("u".into()),
        Class::Bool => Lit::Bool(true),
        Class::Date => Lit::Date(1),
        Class::Ts => Lit::Ts(1),
        Class::Other => Lit::Null,
    }
}

pub struct IdxTable {
    pub ds: Dataset,
    pub model: Model,
    pub spec: TableSpec,
    pub ids: IdAlloc,
    pub version: LanceFileVersion,
    pub history: Vec<String>,
    pub stable_row_ids: bool,
    /// ids whose indexed column was rewritten by an UPDATE of the history
    pub updated_ids: BTreeSet<i64>,
    /// previous versions of rows rewritten by UPDATEs
    pub old_versions: Vec<(i64, Row)>,
}

impl IdxTable {
    pub async fn append(&mut self, rng: &mut Rng, n: usize) -> Result<(), String> {
        let b = widen_lists(&self.spec.batch(rng, &self.ids.take(n)));
        self.model.insert_batch(&b);
        let p = lance::dataset::WriteParams {
            mode: lance::dataset::WriteMode::Append,
            data_storage_version: Some(self.version),
            ..Default::default()
        };
        guarded_op("append", self.ds.append(reader_of(vec![b]), Some(p))).await?;
        self.history.push(format!("append({n})"));
        Ok(())
    }
    pub async fn delete_some(&mut self, rng: &mut Rng) -> Result<(), String> {
        let all: Vec<i64> = self.model.rows.keys().copied().collect();
        if all.len() < 4 {
            return Ok(());
        }
        let k = rng.urange(1, (all.len() / 3).max(1));
        let victims: Vec<i64> = rng.sample_indices(all.len(), k).into_iter().map(|i| all[i]).collect();
        let list = victims.iter().map(|v| v.to_string()).collect::<Vec<_>>().join(",");
        let del = format!("id IN ({list})");
        guarded_op("delete", self.ds.delete(&del)).await?;
        for v in &victims {
            self.model.rows.remove(v);
        }
        self.history.push(format!("delete({k})"));
        Ok(())
    }
    pub async fn update_some(&mut self, rng: &mut Rng, col: usize) -> Result<(), String> {
        let all: Vec<i64> = self.model.rows.keys().copied().collect();
        if all.len() < 4 || class_of(&self.model.cols[col].ty) == Class::Other {
            return Ok(());
        }
        let k = rng.urange(1, (all.len() / 3).max(1));
        let victims: Vec<i64> = rng.sample_indices(all.len(), k).into_iter().map(|i| all[i]).collect();
        let list = victims.iter().map(|v| v.to_string()).collect::<Vec<_>>().join(",");
        let lit = {
            let gen = PredGen::new(
                &self.model,
                GenCfg { cols: vec![col], focus: vec![], max_depth: 0, hostile_literals: true, allow_colcmp: false, contains_cols: vec![] },
            );
            value_lit(rng, &gen, col)
        };
        let name = self.model.cols[col].name.clone();
        let res = UpdateBuilder::new(Arc::new(self.ds.clone()))
            .update_where(&format!("id IN ({list})"))
            .and_then(|b| b.set(&name, &lit.sql()))
            .and_then(|b| b.build());
        let job = res.map_err(|e| format!("update build ({name} = {}): {e}", lit.sql()))?;
        let r = guarded_op("update", job.execute()).await?;
        if r.rows_updated as usize != victims.len() {
            return Err(format!("update reported {} rows, expected {}", r.rows_updated, victims.len()));
        }
        self.ds = r.new_dataset.as_ref().clone();
        let cell = lit_to_cell(&self.model.cols[col].ty, &lit);
        for v in &victims {
            self.old_versions.push((*v, self.model.rows[v].clone()));
            self.model.rows.get_mut(v).unwrap()[col] = cell.clone();
            self.updated_ids.insert(*v);
        }
        self.history.push(format!("update({k},{}={})", name, lit.sql()));
        Ok(())
    }
    pub async fn compact(&mut self, rng: &mut Rng) -> Result<(), String> {
        let defer = rng.chance(1, 3);
        let opts = CompactionOptions {
            target_rows_per_fragment: *rng.pick(&[50usize, 200, 100_000]),
            materialize_deletions_threshold: *rng.pick(&[0.0f32, 0.1]),
            defer_index_remap: defer,
            ..Default::default()
        };
        match guarded(compact_files(&mut self.ds, opts, None)).await {
            Ok(m) => {
                self.history.push(format!("compact(defer={defer},-{}+{})", m.fragments_removed, m.fragments_added));
                Ok(())
            }
            Err(ScanErr::Rejected(_)) => {
                self.history.push(format!("compact(defer={defer}) rejected"));
                Ok(())
            }
            Err(e) => Err(format!("compact(defer={defer}): {e:?}")),
        }
    }
    pub async fn optimize(&mut self, rng: &mut Rng) -> Result<(), String> {
        let (o, d) = match rng.below(3) {
            0 => (OptimizeOptions::append(), "append"),
            1 => (OptimizeOptions::merge(*rng.pick(&[1usize, 2, 10])), "merge"),
            _ => (OptimizeOptions::new(), "default"),
        };
        guarded_op(&format!("optimize_indices({d})"), self.ds.optimize_indices(&o)).await?;
        self.history.push(format!("optimize({d})"));
        Ok(())
    }
}

pub struct IdxCtx<'a> {
    pub indexed: &'a [(usize, Ix)],
    pub stable_row_ids: bool,
    pub updated_ids: &'a BTreeSet<i64>,
    /// history contains an executed compact_files(defer_index_remap = true)
    pub deferred_compaction: bool,
    /// ... followed later by an executed ordinary compaction
    pub normal_after_deferred: bool,
    /// history contains a delete (or update) followed later by an executed ordinary compaction
    pub compact_after_delete: bool,
    /// the plan of the indexed scan contains a negated index query (`NOT([..]@idx)`)
    pub plan_has_not: bool,
}

/// Narrow classification of an index-vs-reference deviation (see DESIGN §2.7 / §6). A deviation
/// can be a superposition of two defects (extra rows of one class, missing rows of another), so
/// one signature per part is returned.
pub fn classify_index_deviation(base_sig: &str, got: &BTreeSet<i64>, exp: &BTreeSet<i64>, pred: &Pred, m: &Model, cx: &IdxCtx) -> Vec<String> {
    let (extra, missing) = set_diff(got, exp);
    let indexed = cx.indexed;
    let mut range_swap_shape = false;
    // (2) `x < a AND x >= b` / `x <= a AND x > b` (upper bound first): maybe_range swaps the
    //     inclusiveness of the two bounds; every deviating row sits exactly on one of the bounds.
    {
        let mut rs = vec![];
        pred.nnf(true).upper_first_mixed_ranges(&mut rs);
        let rs: Vec<_> = rs.into_iter().filter(|(c, _, _)| indexed.iter().any(|(ic, ix)| ic == c && *ix != Ix::LabelList)).collect();
        if !rs.is_empty() {
            let on_bound = |id: &i64| {
                let r = &m.rows[id];
                rs.iter().any(|(c, a, b)| {
                    let ty = &m.cols[*c].ty;
                    cmp_cell_lit(ty, &r[*c], a) == Some(std::cmp::Ordering::Equal)
                        || cmp_cell_lit(ty, &r[*c], b) == Some(std::cmp::Ordering::Equal)
                })
            };
            // (fixed in /repo batch 3; only a label for an otherwise unclassified deviation — see the end)
            range_swap_shape = extra.iter().chain(missing.iter()).all(on_bound);
        }
    }
    // (fixed in /repo batch 3: deferred remap is ignored on tables with stable row ids; a deviation
    //  after such a history is classified like any other)
    let _ = cx.deferred_compaction;
    let mut sigs = vec![];
    let mut extra_done = extra.is_empty();
    let mut missing_done = missing.is_empty();
    // (1) NOT over an exact index result ignores NULLs: extra rows, each NULL in an indexed column
    //     that occurs under a negated equality / IN / boolean-column / array_has leaf (the leaf
    //     kinds that survive DataFusion's simplifier as NOT(index query)); any comparison of a
    //     boolean column counts (`b = false` is simplified to `NOT b`).
    if !extra.is_empty() {
        let mut neg = vec![];
        pred.negated_leaves(true, &mut neg);
        let mut cands: BTreeSet<(&str, usize)> = neg
            .iter()
            .filter(|(k, c)| matches!(*k, "eq" | "in" | "bool" | "array_has") && indexed.iter().any(|(ic, _)| ic == c))
            .map(|(k, c)| (*k, *c))
            .collect();
        let mut cols = BTreeSet::new();
        pred.columns(&mut cols);
        for c in cols {
            // the plan shows a negated index query although the predicate has no syntactic negation on
            // the column (`b = false` is simplified to `NOT b`, `x >= 6 AND 6 >= x` to `x = 6`)
            if cx.plan_has_not && indexed.iter().any(|(ic, _)| *ic == c) {
                cands.insert((if m.cols[c].ty == ColTy::ListI32 { "array_has" } else { "eq" }, c));
            }
        }
        // extra rows that are NULL in a candidate column belong to this class; the remaining extra rows
        // (if any) must be explained by the stale-entry class, otherwise nothing is classified here
        let is_null_in_cand = |id: &i64| cands.iter().any(|(_, c)| m.rows[id][*c].is_null());
        let null_extras: Vec<i64> = extra.iter().copied().filter(|id| is_null_in_cand(id)).collect();
        let rest: Vec<i64> = extra.iter().copied().filter(|id| !is_null_in_cand(id)).collect();
        let rest_is_stale = !rest.is_empty() && cx.stable_row_ids && rest.iter().all(|id| cx.updated_ids.contains(id));
        if !cands.is_empty() && !null_extras.is_empty() && (rest.is_empty() || rest_is_stale) {
            let used: BTreeSet<&str> =
                cands.iter().filter(|(_, c)| null_extras.iter().any(|id| m.rows[id][*c].is_null())).map(|(k, _)| *k).collect();
            // `NOT b` on a boolean column is NOT([b = true]): same class as a negated equality
            let kind = if used.contains("eq") || used.contains("in") || used.contains("bool") { "eq-or-in" } else { "array-has" };
            sigs.push(format!("index-extra-rows-all-null-in-indexed-col-under-negated-{kind}"));
            if rest_is_stale {
                sigs.push("index-stale-entry-after-update-with-stable-row-ids-extra".into());
            }
            extra_done = true;
        }
    }
    // (3) stable row ids: an UPDATE keeps the row id, the old index entry stays and contradicts the
    //     new value; every deviating row was updated by the history.
    if cx.stable_row_ids && !cx.updated_ids.is_empty() {
        if !extra_done && extra.iter().all(|id| cx.updated_ids.contains(id)) {
            sigs.push("index-stale-entry-after-update-with-stable-row-ids-extra".into());
            extra_done = true;
        }
        if !missing_done && missing.iter().all(|id| cx.updated_ids.contains(id)) {
            sigs.push("index-stale-entry-after-update-with-stable-row-ids-missing".into());
            missing_done = true;
        }
    }
    // (4) BTreeIndex::remap ignores a pending fragment-reuse (deferred) mapping: an ordinary
    //     compaction after a deferred one drops the entries => missing rows only.
    //     Under NOT(index query) the lost entries show up as extra rows instead.
    if !cx.stable_row_ids && cx.normal_after_deferred && indexed.iter().any(|(_, ix)| *ix == Ix::BTree) && (!missing_done || (!extra_done && cx.plan_has_not)) {
        if !sigs.iter().any(|s| s.starts_with("btree-remap")) {
            sigs.push("btree-remap-after-deferred-remap-compaction-loses-rows".into());
        }
        missing_done = true;
        if cx.plan_has_not {
            extra_done = true;
        }
    }
    // (5) stable row ids: mask_to_offset_ranges miscounts offsets of RangeWithBitmap segments
    //     (silent variant of ROWIDS_PANIC_SIG): as many wrong rows as missing ones.
    if (!extra_done || base_sig.contains("duplicate-row")) && !missing_done && cx.stable_row_ids && cx.compact_after_delete {
        sigs.push("stable-row-ids-index-hits-read-at-wrong-offsets-after-delete-and-compaction".into());
        extra_done = true;
        missing_done = true;
    }
    if !extra_done || !missing_done {
        sigs.push(if range_swap_shape { "index-range-upper-bound-first-inclusiveness-swapped".to_string() } else { format!("index-{base_sig}") });
    }
    sigs
}

/// stable row ids + compact_files(defer_index_remap = true): fragment ids are not reserved before
/// the index bitmaps / fragment-reuse index are built => corrupt coverage, load_indices panics.
pub const DEFER_REMAP_SIG: &str = "stable-row-ids-deferred-remap-compaction-index-returns-wrong-rows";
pub fn is_defer_remap_panic(e: &str) -> bool {
    e.contains("split of indexed and non-indexed data")
}
pub const ROWIDS_PANIC_SIG: &str = "stable-row-ids-mask-to-offset-ranges-range-with-bitmap-panics";
pub fn is_rowids_panic(e: &str) -> bool {
    // both are consequences of the mis-indexed RangeWithBitmap branch of mask_to_offset_ranges:
    // the bitmap iterator runs out (unwrap on None) or the offsets go backwards ("not sorted")
    e.contains("lance-table/src/rowids.rs") && (e.contains("Option::unwrap()") || e.contains("Selection is not sorted"))
}

pub fn index_types_for(ty: &ColTy) -> Vec<Ix> {
    match ty {
        ColTy::ListI32 => vec![Ix::LabelList],
        _ => vec![Ix::BTree, Ix::BTree, Ix::Bitmap],
    }
}

pub fn run(args: &Args) -> i32 {
    let selftest = args.extra.contains_key("selftest");
    let report = Report::new(
        args,
        "exploration",
        "case = (indexed column type, index type, history of index states, predicate tree); each predicate is run with and without the scalar index and judged against the references; \
         distinct = hash(index type, column type, state kind, predicate shape); non-trivial = explain_plan shows a scalar index node (ScalarIndexQuery/MaterializeIndex) and the predicate selects neither 0 nor all rows",
        (75, 900),
    )
    .with_min_nontrivial(20);
    let threads = n_threads();
    // quick: fixed case set per seed (deterministic; the time budget is only a safety net)
    let max_cases: u64 = args.tier.pick(1000, 300_000);
    let preds_per_state = args.tier.pick(10, 24);
    let max_rows = args.tier.pick(250, 1200);
    let next = AtomicU64::new(0);
    let only_case: Option<u64> = args.extra.get("case").and_then(|s| s.parse().ok());
    let st_fired = AtomicU64::new(0);
    let st_total = AtomicU64::new(0);

    run_threads(threads, |_t, rt| loop {
        let mut case = next.fetch_add(1, AO::Relaxed);
        if let Some(c) = only_case {
            if case > 0 {
                break;
            }
            case = c;
        }
        if (only_case.is_none() && case >= max_cases) || !report.time_left() {
            break;
        }
        let mut rng = Rng::for_case(args.seed, case);
        rt.block_on(async {
            // ---- table
            let mut pool = query_pool();
            pool.push(ColTy::ListI32);
            pool.push(ColTy::ListI32);
            let xty = rng.pick(&pool).clone();
            let ix = *rng.pick(&index_types_for(&xty));
            let yty = rng.pick(&query_pool()).clone();
            let spec = TableSpec {
                cols: vec![
                    ColSpec { name: "x".into(), ty: xty.clone(), nullable: rng.chance(3, 4), null_eighths: *rng.pick(&[0u8, 1, 2, 4]), small_domain: rng.chance(3, 4) },
                    ColSpec { name: "y".into(), ty: yty.clone(), nullable: rng.chance(1, 2), null_eighths: *rng.pick(&[0u8, 1, 4]), small_domain: true },
                ],
            };
            let mut version = *rng.pick(&[LanceFileVersion::V2_0, LanceFileVersion::V2_1]);
            let _ = &mut version;
            let nfrag = rng.urange(1, 3);
            let total = rng.urange(20, max_rows);
            let mut ids = IdAlloc::new(0);
            let mut model = Model::new(&spec);
            let mut frags = vec![];
            for _ in 0..nfrag {
                let b = widen_lists(&spec.batch(&mut rng, &ids.take((total / nfrag).max(1))));
                model.schema = b.schema();
                model.insert_batch(&b);
                frags.push(b);
            }
            let stable = rng.chance(1, 3);
            if let (Some(_), Ok(path)) = (only_case, std::env::var("VERIF_DUMP")) {
                // debugging aid: dump the generated fragments as an Arrow IPC file
                let f = std::fs::File::create(&path).expect("dump file");
                let mut w = arrow::ipc::writer::FileWriter::try_new(f, &frags[0].schema()).expect("ipc");
                for b in &frags {
                    w.write(b).expect("ipc write");
                }
                w.finish().expect("ipc finish");
                eprintln!("dumped {} fragments to {path}", frags.len());
            }
            let ds = match write_table(&unique_uri("c19"), &frags, version, None, None, stable).await {
                Ok(d) => d,
                Err(e) => {
                    op_failed(&report, &format!("case {case}: write: {e}"));
                    return;
                }
            };
            let mut t = IdxTable { ds, model, spec: spec.clone(), ids, version, history: vec![], stable_row_ids: stable, updated_ids: BTreeSet::new(), old_versions: vec![] };
            // ---- indices
            let mut indexed: Vec<(usize, Ix)> = vec![];
            let (it, ip) = ix.params();
            match t.ds.create_index(&["x"], it, Some("x_idx".into()), &ip, true).await {
                Ok(()) => indexed.push((1, ix)),
                Err(e) => {
                    report.rejected();
                    report.count("index_creation_rejected", 1);
                    if report.counter("index_creation_rejected") <= 3 {
                        report.sample(json!({"index_rejected": format!("{} on {:?}", ix.name(), xty), "error": e.to_string().chars().take(160).collect::<String>()}));
                    }
                    return;
                }
            }
            if rng.chance(1, 3) {
                let iy = *rng.pick(&[Ix::BTree, Ix::Bitmap]);
                let (it, ip) = iy.params();
                if t.ds.create_index(&["y"], it, Some("y_idx".into()), &ip, true).await.is_ok() {
                    indexed.push((2, iy));
                }
            }
            report.count("tables", 1);
            let table_desc = format!(
                "x:{:?}{} [{}] y:{:?} [{}] v={} stable_row_ids={}",
                xty,
                if spec.cols[0].nullable { "?" } else { "" },
                ix.name(),
                yty,
                indexed.iter().find(|(c, _)| *c == 2).map(|(_, i)| i.name()).unwrap_or("-"),
                storage_version_name(version),
                stable
            );
            // ---- states
            let nstates = rng.urange(1, 4);
            for state in 0..nstates {
                if !report.time_left() {
                    break;
                }
                if state > 0 {
                    let op = rng.below(6);
                    let n_app = rng.urange(3, 60);
                    let r = match op {
                        0 => t.append(&mut rng, n_app).await,
                        1 => t.delete_some(&mut rng).await,
                        2 => t.update_some(&mut rng, 1).await,
                        3 => t.compact(&mut rng).await,
                        4 => t.optimize(&mut rng).await,
                        _ => {
                            // append then optimize: the classic delta-index path
                            let a = t.append(&mut rng, 20).await;
                            if a.is_ok() {
                                t.optimize(&mut rng).await
                            } else {
                                a
                            }
                        }
                    };
                    if let Err(e) = r {
                        if is_defer_remap_panic(&e) && t.stable_row_ids {
                            report.violation(
                                DEFER_REMAP_SIG,
                                &format!("operation after/with deferred-remap compaction panics: {}", e.chars().take(200).collect::<String>()),
                                json!({"seed": args.seed, "case": case, "table": table_desc, "history": t.history, "error": e}),
                            );
                            return;
                        }
                        // a failing maintenance operation on a valid table is not this property's
                        // subject, but it must not pass silently
                        report.count("history_op_failed", 1);
                        op_failed(&report, &format!("case {case}: history op failed: {e}; table {table_desc}; history {:?}", t.history));
                        return;
                    }
                }
                let state_kind = t.history.last().map(|s| s.split('(').next().unwrap().to_string()).unwrap_or_else(|| "fresh".into());
                report.count(&format!("state_{state_kind}"), 1);
                let m = &t.model;
                let df = match DfRef::new(m.to_batch()) {
                    Ok(d) => d,
                    Err(e) => {
                        op_failed(&report, &format!("case {case}: datafusion reference: {e}"));
                        return;
                    }
                };
                // sanity: the unfiltered scan must equal the model, otherwise index deviations would be misattributed
                match run_scan(&t.ds, &Query::default(), &Knobs::default()).await {
                    Ok(out) => {
                        let exp = Expected { set: m.rows.keys().copied().collect(), seq: None, limit: None, offset: None };
                        if let Some(v) = judge(&out, &exp, m) {
                            if !selftest {
                                report.violation(
                                    &format!("table-full-{}", v.sig),
                                    &format!("unfiltered scan differs from the model: {}", v.what),
                                    json!({"seed": args.seed, "case": case, "state": state, "table": table_desc, "history": t.history, "detail": v.detail}),
                                );
                            }
                            return;
                        }
                    }
                    Err(e) => {
                        let es = format!("{e:?}");
                        if !selftest {
                            if is_defer_remap_panic(&es) && t.stable_row_ids {
                                report.violation(DEFER_REMAP_SIG, &es.chars().take(200).collect::<String>(), json!({"seed": args.seed, "case": case, "table": table_desc, "history": t.history, "error": es}));
                            } else {
                                // the table itself is unreadable (not an index matter, e.g. the v2.1 nullable-list
                                // decode panic reported to the lead): counted and skipped
                                report.count("table_unreadable_skipped", 1);
                                if report.counter("table_unreadable_skipped") <= 2 {
                                    report.sample(json!({"table_unreadable": table_desc, "history": t.history, "error": es.chars().take(200).collect::<String>()}));
                                }
                            }
                        }
                        return;
                    }
                }
                let gen = PredGen::new(
                    m,
                    GenCfg { cols: vec![0, 1, 2], focus: vec![1], max_depth: 3, hostile_literals: true, allow_colcmp: false, contains_cols: vec![] },
                );
                for pi in 0..preds_per_state {
                    if !report.time_left() {
                        break;
                    }
                    let pred = gen.gen_top(&mut rng);
                    let sql = pred.sql(&m.cols);
                    let ids_exp = match reference(&pred, &sql, m, &df).await {
                        RefOutcome::Ok { ids, float_disagree, df_rejected } => {
                            if float_disagree {
                                report.count("float_special_decided_by_datafusion", 1);
                            }
                            if df_rejected {
                                report.count("datafusion_ref_rejected", 1);
                            }
                            ids
                        }
                        RefOutcome::HarnessError(e) => {
                            op_failed(&report, &format!("case {case} state {state} p{pi}: {e}; table {table_desc}"));
                            continue;
                        }
                    };
                    let exp = Expected { set: ids_exp.clone(), seq: None, limit: None, offset: None };
                    let q = Query { filter: Some(sql.clone()), ..Default::default() };
                    let k_idx = Knobs { use_scalar_index: Some(true), ..Default::default() };
                    let k_no = Knobs { use_scalar_index: Some(false), ..Default::default() };
                    let witness = |what: &str, detail: serde_json::Value| {
                        json!({"seed": args.seed, "case": case, "state": state, "pred_index": pi, "table": table_desc,
                               "history": t.history, "filter": sql, "run": what, "rows": m.len(), "detail": detail})
                    };
                    // plan inspection
                    let plan = explain(&t.ds, &q, &k_idx).await;
                    let uses_index = match &plan {
                        Ok(p) => p.contains("ScalarIndexQuery") || p.contains("MaterializeIndex"),
                        Err(_) => false,
                    };
                    let mut executed = false;
                    // (signature, result size) of a deviation of the plain indexed scan, to classify count_rows alike
                    let mut last_index_sig: Option<(String, usize)> = None;
                    // indexed run (+ one random knob combination on top)
                    let mut k_rand = Knobs::random(&mut rng);
                    k_rand.use_scalar_index = Some(true);
                    for (label, knobs) in [("index", &k_idx), ("noindex", &k_no), ("index+knobs", &k_rand)] {
                        match run_scan(&t.ds, &q, knobs).await {
                            Ok(mut out) => {
                                executed = true;
                                report.count("scans", 1);
                                report.count("rows_compared", out.rows.len() as u64);
                                if selftest {
                                    if label == "index" && uses_index && out.rows.pop().is_some() {
                                        st_total.fetch_add(1, AO::Relaxed);
                                        if judge(&out, &exp, m).is_some() {
                                            st_fired.fetch_add(1, AO::Relaxed);
                                        }
                                    }
                                    continue;
                                }
                                if let Some(v) = judge(&out, &exp, m) {
                                    let got: BTreeSet<i64> = out.ids().into_iter().collect();
                                    let sig = if let Some(qs) = quirk_sig(&got, &ids_exp, &pred, &sql, m, &df).await {
                                        // not an index matter: the same (DataFusion) rewrite hits every path
                                        qs.to_string()
                                    } else if let Some(cs) = coercion_sig(&got, &ids_exp, &pred, &sql, m, &df).await {
                                        cs.to_string()
                                    } else if label == "noindex" {
                                        format!("noindex-{}", v.sig)
                                    } else {
                                        let cx = IdxCtx {
                                            indexed: &indexed,
                                            stable_row_ids: t.stable_row_ids,
                                            updated_ids: &t.updated_ids,
                                            deferred_compaction: t.history.iter().any(|h| h.starts_with("compact(defer=true") && !h.contains("rejected")),
                                            normal_after_deferred: {
                                                let d = t.history.iter().position(|h| h.starts_with("compact(defer=true") && !h.contains("rejected"));
                                                d.map(|d| t.history[d + 1..].iter().any(|h| h.starts_with("compact(defer=false") && !h.contains("rejected") && !h.contains("-0+0"))).unwrap_or(false)
                                            },
                                            compact_after_delete: {
                                                let d = t.history.iter().position(|h| h.starts_with("delete(") || h.starts_with("update("));
                                                d.map(|d| t.history[d + 1..].iter().any(|h| h.starts_with("compact(") && !h.contains("rejected") && !h.contains("-0+0"))).unwrap_or(false)
                                            },
                                            plan_has_not: plan.as_ref().map(|p| p.contains("NOT([")).unwrap_or(false),
                                        };
                                        classify_index_deviation(&v.sig, &got, &ids_exp, &pred, m, &cx).join("+")
                                    };
                                    if label == "index" {
                                        last_index_sig = Some((sig.clone(), got.len()));
                                    }
                                    let (extra, missing) = set_diff(&got, &ids_exp);
                                    let show = |ids: &[i64]| -> Vec<String> {
                                        ids.iter().take(5).map(|i| m.rows.get(i).map(|r| vmon::table::render_row(r)).unwrap_or_default()).collect()
                                    };
                                    for (si, one) in sig.split('+').enumerate() {
                                      if si > 0 { report.count("superposed_deviation_parts", 1); }
                                    report.violation(
                                        one,
                                        &format!("{label}: {} (plan uses index: {uses_index})", v.what),
                                        witness(label, json!({"knobs": knobs.describe(), "detail": v.detail, "extra_rows": show(&extra), "missing_rows": show(&missing),
                                            "plan": plan.as_ref().map(|p| p.chars().take(600).collect::<String>()).unwrap_or_default()})),
                                    );
                                    }
                                }
                            }
                            Err(ScanErr::Rejected(e)) => {
                                if label == "index" {
                                    report.rejected();
                                    if report.counter("rejected_samples") < 2 {
                                        report.count("rejected_samples", 1);
                                        report.sample(json!({"rejected_filter": sql, "error": e.chars().take(160).collect::<String>()}));
                                    }
                                }
                            }
                            Err(ScanErr::Failed(e)) => {
                                if !selftest {
                                    let sig = if (e.contains("range start is greater than range end") || e.contains("range start and end are equal and excluded")) && label != "noindex" && indexed.iter().any(|(_, ix)| *ix == Ix::Bitmap) {
                                        "bitmap-index-inverted-range-panics".to_string()
                                    } else if is_defer_remap_panic(&e) && t.stable_row_ids && t.history.iter().any(|h| h.starts_with("compact(defer=true")) {
                                        DEFER_REMAP_SIG.to_string()
                                    } else if is_rowids_panic(&e) && t.stable_row_ids && label != "noindex" {
                                        ROWIDS_PANIC_SIG.to_string()
                                    } else {
                                        format!("{}-scan-failed", if label == "noindex" { "noindex" } else { "index" })
                                    };
                                    report.violation(
                                        &sig,
                                        &format!("{label}: {}", e.chars().take(300).collect::<String>()),
                                        witness(label, json!({"error": e, "knobs": knobs.describe()})),
                                    );
                                }
                            }
                            Err(ScanErr::Timeout) => report.inconclusive(&format!("case {case}: scan timed out")),
                        }
                    }
                    if executed && !selftest {
                        match run_count(&t.ds, &q, &k_idx).await {
                            Ok(n) => {
                                if n as usize != ids_exp.len() {
                                    // classify like the scan: the count must equal the size of the indexed scan's result
                                    // stale entries can explain the count if enough updated rows changed their truth value
                                    let stale_u = t.old_versions.iter().filter(|(id, old)| {
                                        m.rows.get(id).map(|cur| eval(&pred, &m.cols, old) != eval(&pred, &m.cols, cur)).unwrap_or(false)
                                    }).count();
                                    let diff = (n as i64 - ids_exp.len() as i64).unsigned_abs() as usize;
                                    if only_case.is_some() {
                                        eprintln!("DEBUG count: n={n} exp={} stale_u={stale_u} old_versions={} stable={} last={:?}", ids_exp.len(), t.old_versions.len(), t.stable_row_ids, last_index_sig);
                                    }
                                    let sig = if last_index_sig.as_ref().map(|(_, len)| *len == n as usize).unwrap_or(false) {
                                        last_index_sig.as_ref().unwrap().0.clone()
                                    } else if t.stable_row_ids && !t.updated_ids.is_empty() && (diff <= stale_u || diff <= t.updated_ids.len()) && t.history.iter().any(|h| h.starts_with("optimize(")) {
                                        if n as usize > ids_exp.len() { "index-stale-entry-after-update-with-stable-row-ids-extra".to_string() } else { "index-stale-entry-after-update-with-stable-row-ids-missing".to_string() }
                                    } else {
                                        "index-count-rows-differs".to_string()
                                    };
                                    for one in sig.split('+') {
                                        report.violation(
                                            one,
                                            &format!("count_rows with index = {n}, reference = {}", ids_exp.len()),
                                            witness("count", json!({"count": n, "expected": ids_exp.len()})),
                                        );
                                    }
                                }
                            }
                            Err(ScanErr::Failed(e)) => {
                                let sig = if (e.contains("range start is greater than range end") || e.contains("range start and end are equal and excluded")) && indexed.iter().any(|(_, ix)| *ix == Ix::Bitmap) {
                                    "bitmap-index-inverted-range-panics"
                                } else if is_defer_remap_panic(&e) && t.stable_row_ids && t.history.iter().any(|h| h.starts_with("compact(defer=true")) {
                                    DEFER_REMAP_SIG
                                } else if is_rowids_panic(&e) && t.stable_row_ids {
                                    ROWIDS_PANIC_SIG
                                } else {
                                    "index-count-rows-failed"
                                };
                                report.violation(sig, &e.chars().take(300).collect::<String>(), witness("count", json!({"error": e})));
                            }
                            _ => {}
                        }
                    }
                    let selective = !ids_exp.is_empty() && ids_exp.len() < m.len();
                    let nontrivial = executed && uses_index && selective;
                    if executed {
                        if uses_index {
                            report.count("plans_using_index", 1);
                        } else {
                            report.count("plans_without_index", 1);
                        }
                        if selective {
                            report.count("selective_predicates", 1);
                        }
                    }
                    let shape = format!("{}|{:?}|{}|{}", ix.name(), xty, state_kind, pred.shape(&m.cols));
                    report.case(if nontrivial { Some(fnv_str(&shape)) } else { None });
                    let pick_sample = rng.chance(1, 60); // drawn unconditionally: replay determinism
                    if nontrivial && pick_sample && report.want_sample() {
                        report.sample(json!({"table": table_desc, "history": t.history, "filter": sql, "matching": ids_exp.len(), "rows": m.len(),
                            "plan": plan.as_ref().map(|p| p.lines().take(4).collect::<Vec<_>>().join(" / ")).unwrap_or_default()}));
                    }
                }
            }
        });
    });
    if selftest {
        let (f, tt) = (st_fired.load(AO::Relaxed), st_total.load(AO::Relaxed));
        println!("SELFTEST C19 oracle fired on {f} of {tt} corrupted observations");
        // (a dropped row can be an extra row of a known deviation: allow 1 %)
        return if tt > 0 && f * 100 >= tt * 99 { 0 } else { 2 };
    }
    report.finish()
}
