//! C12 — delete / update / merge_insert follow SQL semantics on the model table.
//!
//! Case = random table (unique `id`, a nullable key column `k` whose non-NULL values are unique,
//! value columns) with an optional btree / bitmap index on the merge key, and a random history of
//! DELETE WHERE p, UPDATE SET .. WHERE p, APPEND and MERGE (all when-clauses; source batches with
//! duplicate keys, NULL keys, partial schemas). After every operation the unfiltered scan must
//! equal the model; count_rows(filter) and count_deleted_rows must be consistent.

use crate::c16::{judge, reference, Expected, RefOutcome};
use crate::c19::{lit_to_cell, value_lit, Ix};
use crate::core::*;
use arrow_array::RecordBatch;
use arrow_schema::{Field, Schema};
use lance::dataset::{MergeInsertBuilder, UpdateBuilder, WhenMatched, WhenNotMatched, WhenNotMatchedBySource, WriteMode, WriteParams};
use lance::Dataset;
use lance_encoding::version::LanceFileVersion;
use lance_index::DatasetIndexExt;
use serde_json::json;
use std::collections::{BTreeMap, BTreeSet};
use std::sync::atomic::{AtomicU64, Ordering as AO};
use std::sync::Arc;
use vmon::prng::{fnv_str, Rng};
use vmon::report::{Args, Report};
use vmon::table::IdAlloc;

#[derive(Clone, Debug)]
enum SetExpr {
    Lit(Lit),
    /// `col + n`
    Add(usize, i128),
    /// `col * n`
    Mul(usize, i128),
    /// copy of another column of the same type
    Col(usize),
}

impl SetExpr {
    fn sql(&self, cols: &[ColInfo]) -> String {
        match self {
            SetExpr::Lit(l) => l.sql(),
            SetExpr::Add(c, n) => format!("{} + {}", cols[*c].name, n),
            SetExpr::Mul(c, n) => format!("{} * {}", cols[*c].name, n),
            SetExpr::Col(c) => cols[*c].name.clone(),
        }
    }
    fn eval(&self, ty: &ColTy, row: &Row) -> Cell {
        match self {
            SetExpr::Lit(l) => lit_to_cell(ty, l),
            SetExpr::Add(c, n) => match &row[*c] {
                Cell::Int(v) => Cell::Int(v + n),
                _ => Cell::Null,
            },
            SetExpr::Mul(c, n) => match &row[*c] {
                Cell::Int(v) => Cell::Int(v * n),
                _ => Cell::Null,
            },
            SetExpr::Col(c) => row[*c].clone(),
        }
    }
}

/// C19's defect seen through a write: NOT over an exact index result selects NULL-key rows
pub const NOT_NULL_SIG: &str = "index-extra-rows-all-null-in-indexed-col-under-negated-eq-or-in";
pub const MERGE_NULL_SIG: &str = "merge-on-indexed-key-matches-null-source-keys-with-null-target-keys";

struct Tbl {
    ds: Dataset,
    m: Model,
    ids: IdAlloc,
    next_k: i64,
    version: LanceFileVersion,
    history: Vec<String>,
    key_ty: ColTy,
    spec: TableSpec,
}

fn key_cell(ty: &ColTy, n: i64) -> Cell {
    match ty {
        ColTy::Utf8 => Cell::Str(format!("k{n}")),
        _ => Cell::Int(n as i128),
    }
}

impl Tbl {
    /// n fresh rows: unique id, unique non-NULL k (NULL with probability 1/8 when nullable), random a, b
    fn fresh_rows(&mut self, rng: &mut Rng, n: usize) -> Vec<Row> {
        let ids = self.ids.take(n);
        let b = self.spec.batch(rng, &ids);
        let mut rows = batch_to_rows(&b);
        for r in rows.iter_mut() {
            let null = self.m.cols[1].nullable && rng.chance(1, 8);
            r[1] = if null {
                Cell::Null
            } else {
                self.next_k += 1;
                key_cell(&self.key_ty, self.next_k * 3 + 1)
            };
        }
        rows
    }
    fn batch_of(&self, rows: &[Row], col_idx: &[usize]) -> RecordBatch {
        let cols: Vec<ColInfo> = col_idx.iter().map(|c| self.m.cols[*c].clone()).collect();
        let fields: Vec<Field> = col_idx.iter().map(|c| self.m.schema.field(*c).clone()).collect();
        let schema = Arc::new(Schema::new(fields));
        let proj: Vec<Row> = rows.iter().map(|r| col_idx.iter().map(|c| r[*c].clone()).collect()).collect();
        let refs: Vec<&Row> = proj.iter().collect();
        rows_to_batch(&cols, schema, &refs)
    }
}

pub fn run(args: &Args) -> i32 {
    let selftest = args.extra.contains_key("selftest");
    let report = Report::new(
        args,
        "exploration",
        "case = random table (unique id, nullable unique key k, value columns, optional btree/bitmap index on the merge key) and a random history of DELETE / UPDATE / APPEND / MERGE; \
         the model applies SQL semantics (3VL predicates, NULL keys never match, >1 source row per updated target row => error without effect); after each operation scan == model, counts consistent. \
         distinct = hash(operation kind and configuration, predicate / source-batch shape); non-trivial = the operation was accepted and changed (or, for expected errors, must not change) a table where it affects neither 0 nor all rows",
        (75, 900),
    )
    .with_min_nontrivial(20);
    let threads = n_threads();
    // quick: fixed case set per seed (deterministic; the time budget is only a safety net)
    let max_cases: u64 = args.tier.pick(2000, 300_000);
    let ops_per_case = args.tier.pick(5, 10);
    let max_rows = args.tier.pick(160, 800);
    let next = AtomicU64::new(0);
    let only_case: Option<u64> = args.extra.get("case").and_then(|s| s.parse().ok());
    let st_fired = AtomicU64::new(0);
    let st_total = AtomicU64::new(0);

    run_threads(threads, |_t, rt| loop {
        let mut case = next.fetch_add(1, AO::Relaxed);
        if let Some(c) = only_case {
            if case > 0 {
                break;
            }
            case = c;
        }
        if (only_case.is_none() && case >= max_cases) || !report.time_left() {
            break;
        }
        let mut rng = Rng::for_case(args.seed, case);
        rt.block_on(async {
            // ---- table
            let key_ty = rng.pick(&[ColTy::I32, ColTy::I64, ColTy::Utf8]).clone();
            let vpool = vec![ColTy::I8, ColTy::I16, ColTy::I32, ColTy::I64, ColTy::U8, ColTy::U32, ColTy::F64, ColTy::Utf8, ColTy::Bool, ColTy::Date32];
            let spec = TableSpec {
                cols: vec![
                    ColSpec { name: "k".into(), ty: key_ty.clone(), nullable: rng.chance(3, 4), null_eighths: 0, small_domain: true },
                    ColSpec { name: "a".into(), ty: rng.pick(&vpool).clone(), nullable: rng.chance(3, 4), null_eighths: *rng.pick(&[0u8, 1, 2, 4]), small_domain: true },
                    ColSpec { name: "b".into(), ty: rng.pick(&vpool).clone(), nullable: rng.chance(3, 4), null_eighths: *rng.pick(&[0u8, 1, 4]), small_domain: true },
                ],
            };
            let version = *rng.pick(&[LanceFileVersion::V2_0, LanceFileVersion::V2_1]);
            let model = Model::new(&spec);
            let mut t = Tbl {
                ds: match Dataset::write(reader_of(vec![RecordBatch::new_empty(spec.schema())]), &unique_uri("c12"), Some(WriteParams { data_storage_version: Some(version), enable_stable_row_ids: rng.chance(1, 4), ..Default::default() })).await {
                    Ok(d) => d,
                    Err(e) => {
                        op_failed(&report, &format!("case {case}: create: {e}"));
                        return;
                    }
                },
                m: model,
                ids: IdAlloc::new(0),
                next_k: 0,
                version,
                history: vec![],
                key_ty: key_ty.clone(),
                spec: spec.clone(),
            };
            let all_cols: Vec<usize> = (0..4).collect();
            let nfrag = rng.urange(1, 3);
            let total = rng.urange(12, max_rows);
            for _ in 0..nfrag {
                let rows = t.fresh_rows(&mut rng, (total / nfrag).max(2));
                let b = t.batch_of(&rows, &all_cols);
                let p = WriteParams { mode: WriteMode::Append, data_storage_version: Some(version), ..Default::default() };
                if let Err(e) = guarded_op("append", t.ds.append(reader_of(vec![b]), Some(p))).await {
                    op_failed(&report, &format!("case {case}: initial append: {e}"));
                    return;
                }
                for r in rows {
                    t.m.rows.insert(r[0].as_i64().unwrap(), r);
                }
            }
            // merge key of this case and optional index on it
            let on_col: usize = if rng.chance(1, 2) { 0 } else { 1 };
            let on_name = t.m.cols[on_col].name.clone();
            let ix = *rng.pick(&[None, None, Some(Ix::BTree), Some(Ix::Bitmap)]);
            if let Some(ix) = ix {
                let (it, ip) = ix.params();
                if let Err(e) = guarded(t.ds.create_index(&[on_name.as_str()], it, Some("key_idx".into()), &ip, true)).await {
                    op_failed(&report, &format!("case {case}: create_index: {e:?}"));
                    return;
                }
            }
            let table_desc = format!(
                "[{}] on={} index={} v={} stable_row_ids={}",
                spec.describe(),
                on_name,
                ix.map(|i| i.name()).unwrap_or("-"),
                storage_version_name(version),
                t.ds.manifest().uses_stable_row_ids()
            );
            report.count("tables", 1);

            for opi in 0..ops_per_case {
                if !report.time_left() {
                    break;
                }
                let m_before = t.m.rows.clone();
                let gen_cfg = GenCfg { cols: all_cols.clone(), focus: vec![], max_depth: 2, hostile_literals: true, allow_colcmp: false, contains_cols: vec![] };
                let witness = |t: &Tbl, op: &str, detail: serde_json::Value| json!({"seed": args.seed, "case": case, "op_index": opi, "table": table_desc, "history": t.history, "op": op, "rows_before": m_before.len(), "detail": detail});
                // every operation yields: description, signature shape, "accepted" flag, expected model (already applied to t.m when accepted)
                let kind = rng.below(10);
                let mut op_desc;
                let mut shape;
                let mut nontrivial = false;
                // context for the narrow classification of deviations
                let mut cur_pred: Option<Pred> = None;
                let mut merge_null_src = false;
                // set when this operation leaves duplicate keys in the target (two not-matched source
                // rows with the same key are both inserted, as in SQL): the history ends after the check
                let mut last_op_of_case = false;
                let mut legacy_merge_path = false;
                let mut cross_ref_update = false;
                // shared filter-rewrite classes observed through a write (DELETE / UPDATE plan the filter like a scan)
                let mut inlist_null_rows: BTreeSet<i64> = BTreeSet::new();
                let mut coerce_possible = false;
                let target_has_null_key = t.m.rows.values().any(|r| r[on_col].is_null());
                match kind {
                    // ---------------------------------------------------------------- DELETE
                    0..=2 => {
                        let df = match DfRef::new(t.m.to_batch()) {
                            Ok(d) => d,
                            Err(e) => {
                                op_failed(&report, &format!("case {case}: datafusion reference: {e}"));
                                return;
                            }
                        };
                        let gen = PredGen::new(&t.m, gen_cfg.clone());
                        let pred = gen.gen_top(&mut rng);
                        let sql = pred.sql(&t.m.cols);
                        op_desc = format!("DELETE WHERE {sql}");
                        cur_pred = Some(pred.clone());
                        shape = format!("delete|{}", pred.shape(&t.m.cols));
                        let victims = match reference(&pred, &sql, &t.m, &df).await {
                            RefOutcome::Ok { ids, .. } => ids,
                            RefOutcome::HarnessError(e) => {
                                op_failed(&report, &format!("case {case} op{opi}: {e}"));
                                continue;
                            }
                        };
                        inlist_null_rows = crate::c16::null_rows_of_merged_inlists(&pred, &t.m);
                        coerce_possible = !pred.mergeable_inlist_columns(false).is_empty() && df.ids_where_full_sql(&sql).await.map(|b| b == victims).unwrap_or(false);
                        match guarded(t.ds.delete(&sql)).await {
                            Ok(()) => {
                                for v in &victims {
                                    t.m.rows.remove(v);
                                }
                                nontrivial = !victims.is_empty() && victims.len() < m_before.len();
                                report.count("deletes", 1);
                            }
                            Err(ScanErr::Rejected(_)) => {
                                report.rejected();
                                op_desc.push_str(" [rejected]");
                            }
                            Err(e) => {
                                if !selftest {
                                    let es = format!("{e:?}");
                                    let sig = if crate::c19::is_rowids_panic(&es) && t.ds.manifest().uses_stable_row_ids() { crate::c19::ROWIDS_PANIC_SIG } else { "delete-failed" };
                                    report.violation(sig, &es.chars().take(300).collect::<String>(), witness(&t, &op_desc, json!({"error": es})));
                                }
                                return;
                            }
                        }
                    }
                    // ---------------------------------------------------------------- UPDATE
                    3..=5 => {
                        let df = match DfRef::new(t.m.to_batch()) {
                            Ok(d) => d,
                            Err(e) => {
                                op_failed(&report, &format!("case {case}: datafusion reference: {e}"));
                                return;
                            }
                        };
                        let gen = PredGen::new(&t.m, gen_cfg.clone());
                        let pred = gen.gen_top(&mut rng);
                        let sql = pred.sql(&t.m.cols);
                        // 1-2 assignments on distinct columns among k (NULL only), a, b
                        let mut targets = vec![2usize, 3];
                        if t.m.cols[1].nullable {
                            targets.push(1);
                        }
                        rng.shuffle(&mut targets);
                        targets.truncate(rng.urange(1, 2));
                        let mut sets: Vec<(usize, SetExpr)> = vec![];
                        for c in targets {
                            let ty = t.m.cols[c].ty.clone();
                            let e = if c == 1 {
                                SetExpr::Lit(Lit::Null)
                            } else {
                                let wide_int = matches!(ty, ColTy::I16 | ColTy::I32 | ColTy::I64 | ColTy::U32);
                                let other = if c == 2 { 3 } else { 2 };
                                match rng.below(6) {
                                    0 if wide_int => SetExpr::Add(c, rng.range(1, 3) as i128),
                                    1 if wide_int => SetExpr::Mul(c, 2),
                                    2 if t.m.cols[other].ty == ty && (t.m.cols[c].nullable || !t.m.cols[other].nullable) => SetExpr::Col(other),
                                    3 if t.m.cols[c].nullable => SetExpr::Lit(Lit::Null),
                                    _ => SetExpr::Lit({
                                        let mut l = value_lit(&mut rng, &gen, c);
                                        if l.is_null() && !t.m.cols[c].nullable {
                                            l = value_lit(&mut rng, &gen, c);
                                        }
                                        // arithmetic in the model must stay far away from overflow
                                        if let Lit::Int(v) = &l {
                                            if v.abs() > 1000 {
                                                l = Lit::Int(7);
                                            }
                                        }
                                        l
                                    }),
                                }
                            };
                            if let SetExpr::Lit(Lit::Null) = &e {
                                if !t.m.cols[c].nullable {
                                    continue;
                                }
                            }
                            sets.push((c, e));
                        }
                        if sets.is_empty() {
                            continue;
                        }
                        cross_ref_update = sets.iter().any(|(c, e)| {
                            let refd = match e {
                                SetExpr::Col(o) | SetExpr::Add(o, _) | SetExpr::Mul(o, _) => Some(*o),
                                _ => None,
                            };
                            refd.map(|o| o != *c && sets.iter().any(|(c2, _)| *c2 == o)).unwrap_or(false)
                        });
                        let set_sql: Vec<String> = sets.iter().map(|(c, e)| format!("{} = {}", t.m.cols[*c].name, e.sql(&t.m.cols))).collect();
                        op_desc = format!("UPDATE SET {} WHERE {sql}", set_sql.join(", "));
                        cur_pred = Some(pred.clone());
                        shape = format!("update|{}|{}", sets.iter().map(|(c, e)| format!("{:?}:{}", t.m.cols[*c].ty, match e { SetExpr::Lit(Lit::Null) => "null", SetExpr::Lit(_) => "lit", SetExpr::Add(..) => "add", SetExpr::Mul(..) => "mul", SetExpr::Col(_) => "col" })).collect::<Vec<_>>().join(","), pred.shape(&t.m.cols));
                        let hit = match reference(&pred, &sql, &t.m, &df).await {
                            RefOutcome::Ok { ids, .. } => ids,
                            RefOutcome::HarnessError(e) => {
                                op_failed(&report, &format!("case {case} op{opi}: {e}"));
                                continue;
                            }
                        };
                        inlist_null_rows = crate::c16::null_rows_of_merged_inlists(&pred, &t.m);
                        coerce_possible = !pred.mergeable_inlist_columns(false).is_empty() && df.ids_where_full_sql(&sql).await.map(|b| b == hit).unwrap_or(false);
                        let built = (|| -> lance::Result<lance::dataset::UpdateJob> {
                            let mut b = UpdateBuilder::new(Arc::new(t.ds.clone())).update_where(&sql)?;
                            for (c, e) in &sets {
                                b = b.set(&t.m.cols[*c].name, &e.sql(&t.m.cols))?;
                            }
                            b.build()
                        })();
                        let job = match built {
                            Ok(j) => j,
                            Err(_) => {
                                report.rejected();
                                t.history.push(format!("{op_desc} [rejected]"));
                                continue;
                            }
                        };
                        match guarded(job.execute()).await {
                            Ok(r) => {
                                t.ds = r.new_dataset.as_ref().clone();
                                for id in &hit {
                                    let old = t.m.rows[id].clone();
                                    let row = t.m.rows.get_mut(id).unwrap();
                                    for (c, e) in &sets {
                                        row[*c] = e.eval(&t.m.cols[*c].ty, &old);
                                    }
                                }
                                if r.rows_updated as usize != hit.len() && !selftest {
                                    let nulls_under_not = {
                                        let mut neg = vec![];
                                        pred.negated_leaves(true, &mut neg);
                                        ix.is_some() && (r.rows_updated as usize) > hit.len() && neg.iter().any(|(k, c)| *c == on_col && matches!(*k, "eq" | "in"))
                                    };
                                    let n_upd = r.rows_updated as usize;
                                    let inlist_null = !inlist_null_rows.is_empty() && n_upd > hit.len() && n_upd <= hit.len() + inlist_null_rows.len();
                                    report.violation(
                                        if nulls_under_not { NOT_NULL_SIG } else if inlist_null { crate::c16::DF_NOT_IN_SIG } else if coerce_possible { crate::c16::COERCE_SIG } else { "update-reports-wrong-row-count" },
                                        &format!("rows_updated = {}, model updates {}", r.rows_updated, hit.len()),
                                        witness(&t, &op_desc, json!({"reported": r.rows_updated, "expected": hit.len()})),
                                    );
                                }
                                nontrivial = !hit.is_empty() && hit.len() < m_before.len();
                                report.count("updates", 1);
                            }
                            Err(ScanErr::Rejected(_)) => {
                                report.rejected();
                                op_desc.push_str(" [rejected]");
                            }
                            Err(e) => {
                                if !selftest {
                                    let es = format!("{e:?}");
                                    let sig = if crate::c19::is_rowids_panic(&es) && t.ds.manifest().uses_stable_row_ids() { crate::c19::ROWIDS_PANIC_SIG } else { "update-failed" };
                                    report.violation(sig, &es.chars().take(300).collect::<String>(), witness(&t, &op_desc, json!({"error": es})));
                                }
                                return;
                            }
                        }
                    }
                    // ---------------------------------------------------------------- APPEND
                    6 => {
                        let n = rng.urange(1, 40);
                        let rows = t.fresh_rows(&mut rng, n);
                        let b = t.batch_of(&rows, &all_cols);
                        op_desc = format!("APPEND {n} rows");
                        shape = "append".to_string();
                        let p = WriteParams { mode: WriteMode::Append, data_storage_version: Some(t.version), ..Default::default() };
                        match guarded_op("append", t.ds.append(reader_of(vec![b]), Some(p))).await {
                            Ok(()) => {
                                for r in rows {
                                    t.m.rows.insert(r[0].as_i64().unwrap(), r);
                                }
                            }
                            Err(e) => {
                                op_failed(&report, &format!("case {case}: append: {e}"));
                                return;
                            }
                        }
                    }
                    // ---------------------------------------------------------------- MERGE
                    _ => {
                        let wm = rng.below(10);
                        let mut when_matched = match wm {
                            0..=4 => "update_all",
                            5..=7 => "do_nothing",
                            8 => "fail",
                            _ => "update_if",
                        };
                        let insert = rng.chance(2, 3);
                        let by_source = match rng.below(6) {
                            0 => "delete",
                            1 => "delete_if",
                            _ => "keep",
                        };
                        // partial schema: key + one value column
                        let partial = rng.chance(1, 4);
                        if partial && when_matched == "update_if" {
                            // the condition language over partial sources is not modelled
                            when_matched = "update_all";
                        }
                        let src_cols: Vec<usize> = if partial {
                            let v = *rng.pick(&[2usize, 3]);
                            if on_col == 0 { vec![0, v] } else { vec![1, v] }
                        } else {
                            all_cols.clone()
                        };
                        // ---- source rows
                        let live: Vec<i64> = t.m.rows.keys().copied().collect();
                        let n_match = if live.is_empty() { 0 } else { rng.urange(0, live.len().min(20)) };
                        let n_new = rng.urange(0, 12);
                        let n_nullkey = if on_col == 1 && t.m.cols[1].nullable && rng.chance(1, 2) { rng.urange(1, 3) } else { 0 };
                        let dup_matched = n_match > 0 && rng.chance(1, 4);
                        let dup_new = on_col == 1 && n_new > 0 && rng.chance(1, 5);
                        let mut src: Vec<Row> = vec![];
                        let matched_ids: Vec<i64> = rng.sample_indices(live.len(), n_match).into_iter().map(|i| live[i]).collect();
                        // matched rows whose key is NULL in the target cannot be matched on k: skip those
                        let mut fresh = t.fresh_rows(&mut rng, n_match + n_new + n_nullkey + 2);
                        let mut expect_matched: Vec<(i64, usize)> = vec![]; // (target id, source row index)
                        for tid in &matched_ids {
                            let trow = t.m.rows[tid].clone();
                            if trow[on_col].is_null() {
                                continue;
                            }
                            let mut s = fresh.pop().unwrap();
                            if on_col == 0 {
                                s[0] = trow[0].clone(); // same id, fresh k (unique) and values
                            } else {
                                s[1] = trow[1].clone(); // same k, fresh id and values
                            }
                            expect_matched.push((*tid, src.len()));
                            src.push(s);
                        }
                        if dup_matched && !expect_matched.is_empty() {
                            let (tid, si) = expect_matched[rng.usize_below(expect_matched.len())];
                            let mut s = fresh.pop().unwrap();
                            s[on_col] = src[si][on_col].clone();
                            if on_col == 0 {
                                // a second source row with the same id: only meaningful as a duplicate match
                            }
                            expect_matched.push((tid, src.len()));
                            src.push(s);
                        }
                        let mut new_rows_idx = vec![];
                        for _ in 0..n_new {
                            let mut s = fresh.pop().unwrap();
                            if s[1].is_null() && on_col == 1 {
                                t.next_k += 1;
                                s[1] = key_cell(&t.key_ty, t.next_k * 3 + 1);
                            }
                            new_rows_idx.push(src.len());
                            src.push(s);
                        }
                        if dup_new && !new_rows_idx.is_empty() {
                            let si = new_rows_idx[0];
                            let mut s = fresh.pop().unwrap();
                            s[1] = src[si][1].clone();
                            new_rows_idx.push(src.len());
                            src.push(s);
                        }
                        let mut nullkey_idx = vec![];
                        for _ in 0..n_nullkey {
                            if let Some(mut s) = fresh.pop() {
                                s[1] = Cell::Null;
                                nullkey_idx.push(src.len());
                                src.push(s);
                            }
                        }
                        if src.is_empty() {
                            continue;
                        }
                        // shuffle source order
                        let mut order: Vec<usize> = (0..src.len()).collect();
                        rng.shuffle(&mut order);
                        let src_rows: Vec<Row> = order.iter().map(|i| src[*i].clone()).collect();
                        let batch = t.batch_of(&src_rows, &src_cols);
                        // ---- conditions
                        let cond_gen = PredGen::new(&t.m, GenCfg { cols: vec![2, 3], focus: vec![], max_depth: 1, hostile_literals: false, allow_colcmp: false, contains_cols: vec![] });
                        let update_if: Option<Pred> = if when_matched == "update_if" && !partial { Some(cond_gen.leaf(&mut rng)) } else { None };
                        let delete_if: Option<Pred> = if by_source == "delete_if" { Some(cond_gen.leaf(&mut rng)) } else { None };
                        let src_named: Vec<ColInfo> = t.m.cols.iter().map(|c| ColInfo { name: format!("source.{}", c.name), ty: c.ty.clone(), nullable: c.nullable }).collect();
                        op_desc = format!(
                            "MERGE on={on_name} matched={when_matched}{} not_matched={} by_source={by_source}{} source: {} rows ({} matching{}, {} new{}, {} NULL-key) cols={:?}",
                            update_if.as_ref().map(|p| format!("({})", p.sql(&src_named))).unwrap_or_default(),
                            if insert { "insert" } else { "nothing" },
                            delete_if.as_ref().map(|p| format!("({})", p.sql(&t.m.cols))).unwrap_or_default(),
                            src.len(),
                            expect_matched.len(),
                            if dup_matched { " incl. duplicate" } else { "" },
                            new_rows_idx.len(),
                            if dup_new { " incl. duplicate" } else { "" },
                            nullkey_idx.len(),
                            src_cols.iter().map(|c| t.m.cols[*c].name.clone()).collect::<Vec<_>>()
                        );
                        shape = format!(
                            "merge|{on_name}|{when_matched}|{insert}|{by_source}|partial={partial}|dupm={dup_matched}|dupn={dup_new}|nullkey={}|idx={}|m{}n{}",
                            !nullkey_idx.is_empty(),
                            ix.map(|i| i.name()).unwrap_or("-"),
                            expect_matched.len().min(3),
                            new_rows_idx.len().min(3)
                        );
                        // ---- model of SQL MERGE
                        let mut per_target: BTreeMap<i64, Vec<usize>> = BTreeMap::new();
                        for (tid, si) in &expect_matched {
                            per_target.entry(*tid).or_default().push(*si);
                        }
                        // source rows that would update (UpdateIf: only those satisfying the condition)
                        let updating = |si: usize| -> bool {
                            match (&when_matched, &update_if) {
                                (&"update_all", _) => true,
                                (&"update_if", Some(p)) => eval(p, &t.m.cols, &src[si]) == Some(true),
                                _ => false,
                            }
                        };
                        let ambiguous = per_target.values().any(|v| v.iter().filter(|si| updating(**si)).count() > 1);
                        let expect_fail = when_matched == "fail" && !expect_matched.is_empty();
                        let mut after = t.m.rows.clone();
                        if !ambiguous && !expect_fail {
                            for (tid, sis) in &per_target {
                                for si in sis {
                                    if updating(*si) {
                                        let old = after.remove(tid).unwrap();
                                        let mut new = if partial { old.clone() } else { src[*si].clone() };
                                        if partial {
                                            for c in &src_cols {
                                                new[*c] = src[*si][*c].clone();
                                            }
                                        }
                                        after.insert(new[0].as_i64().unwrap(), new);
                                    }
                                }
                            }
                            if insert {
                                for si in new_rows_idx.iter().chain(nullkey_idx.iter()) {
                                    let mut new: Row = if partial { vec![Cell::Null; 4] } else { src[*si].clone() };
                                    if partial {
                                        for c in &src_cols {
                                            new[*c] = src[*si][*c].clone();
                                        }
                                    }
                                    if let Some(id) = new[0].as_i64() {
                                        after.insert(id, new);
                                    } else {
                                        // partial schema without id: cannot be modelled / must be rejected (id is NOT NULL)
                                        after.insert(i64::MIN + *si as i64, new);
                                    }
                                }
                            }
                            if by_source != "keep" {
                                let matched_t: BTreeSet<i64> = per_target.keys().copied().collect();
                                let dels: Vec<i64> = t
                                    .m
                                    .rows
                                    .iter()
                                    .filter(|(id, r)| !matched_t.contains(id) && delete_if.as_ref().map(|p| eval(p, &t.m.cols, r) == Some(true)).unwrap_or(true))
                                    .map(|(id, _)| *id)
                                    .collect();
                                for d in dels {
                                    after.remove(&d);
                                }
                            }
                        }
                        // ---- run
                        let mut builder = match MergeInsertBuilder::try_new(Arc::new(t.ds.clone()), vec![on_name.clone()]) {
                            Ok(b) => b,
                            Err(e) => {
                                op_failed(&report, &format!("case {case}: merge builder: {e}"));
                                return;
                            }
                        };
                        builder.when_matched(match when_matched {
                            "update_all" => WhenMatched::UpdateAll,
                            "do_nothing" => WhenMatched::DoNothing,
                            "fail" => WhenMatched::Fail,
                            _ => match &update_if {
                                Some(p) => WhenMatched::UpdateIf(p.sql(&src_named)),
                                None => WhenMatched::UpdateAll,
                            },
                        });
                        builder.when_not_matched(if insert { WhenNotMatched::InsertAll } else { WhenNotMatched::DoNothing });
                        let bs = match (&by_source, &delete_if) {
                            (&"delete", _) => Ok(WhenNotMatchedBySource::Delete),
                            (&"delete_if", Some(p)) => WhenNotMatchedBySource::delete_if(&t.ds, &p.sql(&t.m.cols)),
                            _ => Ok(WhenNotMatchedBySource::Keep),
                        };
                        let bs = match bs {
                            Ok(b) => b,
                            Err(_) => {
                                report.rejected();
                                continue;
                            }
                        };
                        builder.when_not_matched_by_source(bs);
                        builder.use_index(rng.chance(3, 4));
                        merge_null_src = !nullkey_idx.is_empty();
                        last_op_of_case = dup_new && insert;
                        // MergeInsertJob::can_use_create_plan: everything else goes through the older Merger
                        legacy_merge_path = ix.is_some() || by_source != "keep" || partial;
                        let job = match builder.try_build() {
                            Ok(j) => j,
                            Err(_) => {
                                report.rejected();
                                t.history.push(format!("{op_desc} [rejected: no-op configuration]"));
                                continue;
                            }
                        };
                        let reader: Box<dyn arrow_array::RecordBatchReader + Send> = Box::new(reader_of(vec![batch]));
                        let res = guarded(job.execute_reader(reader)).await;
                        report.count("merges", 1);
                        // when_matched=update_if with partial schema was downgraded to update_all above
                        let effective_update = when_matched == "update_all" || (when_matched == "update_if");
                        match res {
                            Ok((ds, stats)) => {
                                t.ds = ds.as_ref().clone();
                                if (ambiguous && effective_update) || expect_fail {
                                    if !selftest {
                                        report.violation(
                                            if expect_fail && legacy_merge_path { "merge-when-matched-fail-treated-as-update-on-legacy-merge-path" } else if expect_fail { "merge-when-matched-fail-did-not-fail" } else { "merge-ambiguous-source-match-not-rejected" },
                                            &format!("merge succeeded although {}", if expect_fail { "WhenMatched::Fail had matches" } else { "two source rows update the same target row" }),
                                            witness(&t, &op_desc, json!({"stats": format!("{stats:?}")})),
                                        );
                                    }
                                    return;
                                }
                                t.m.rows = after;
                                nontrivial = true;
                                report.count("merges_accepted", 1);
                                if !nullkey_idx.is_empty() && insert {
                                    report.count("merges_with_null_key_source_rows", 1);
                                }
                            }
                            Err(ScanErr::Rejected(e)) | Err(ScanErr::Failed(e)) if (ambiguous && effective_update) || expect_fail => {
                                // expected error; the state check below verifies "no effect"
                                let _ = t.ds.checkout_latest().await;
                                nontrivial = true;
                                report.count("merges_expected_error", 1);
                                op_desc.push_str(&format!(" [expected error: {}]", e.chars().take(80).collect::<String>()));
                            }
                            Err(ScanErr::Rejected(e)) => {
                                let _ = t.ds.checkout_latest().await;
                                report.rejected();
                                report.count("merges_rejected", 1);
                                if report.counter("merge_rejected_samples") < 3 {
                                    report.count("merge_rejected_samples", 1);
                                    report.sample(json!({"merge_rejected": op_desc, "error": e.chars().take(200).collect::<String>()}));
                                }
                                op_desc.push_str(" [rejected]");
                            }
                            Err(e) => {
                                if !selftest {
                                    let es = format!("{e:?}");
                                    let sig = if ix.is_some() && on_col == 1 && merge_null_src && target_has_null_key && es.contains("Ambiguous merge insert") {
                                        MERGE_NULL_SIG
                                    } else if crate::c19::is_rowids_panic(&es) && t.ds.manifest().uses_stable_row_ids() {
                                        crate::c19::ROWIDS_PANIC_SIG
                                    } else if es.contains("Ambiguous merge insert") && ix.is_some() && !t.ds.manifest().uses_stable_row_ids() && t.history.iter().any(|h| h.starts_with("MERGE") && !h.contains("[rejected") && !h.contains("[expected error") && !h.contains("cols=[\"id\", \"k\", \"a\", \"b\"]")) {
                                        // an earlier partial-schema MERGE rewrote a column of fragments in place; the key index is
                                        // no longer credited with those fragments but still answers for them, and the scan of
                                        // "unindexed" fragments returns the same rows again
                                        "merge-after-partial-schema-merge-finds-target-rows-twice-through-key-index"
                                    } else if (es.contains("Attempt to merge two RecordBatch with different sizes") || (es.contains("rowid not found in index") && t.history.iter().any(|h| h.starts_with("DELETE") && !h.contains("[rejected")))) && ix.is_some() && t.history.iter().any(|h| (h.starts_with("DELETE") || h.starts_with("UPDATE") || h.starts_with("MERGE")) && !h.contains("[rejected")) {
                                        // the key index still answers for rows deleted (or rewritten) since it was built; the indexed
                                        // take returns fewer rows than the index mapper promised
                                        "merge-through-key-index-fails-on-index-hits-for-deleted-rows"
                                    } else if (es.contains("Ambiguous merge insert") || es.contains("rowid not found in index")) && ix.is_some() && t.ds.manifest().uses_stable_row_ids() && t.history.iter().any(|h| (h.starts_with("UPDATE") || h.starts_with("MERGE")) && !h.contains("[rejected")) {
                                        // stable row ids: rows rewritten by an earlier UPDATE / MERGE keep their row id; the key
                                        // index still finds them and the scan of unindexed fragments finds them again
                                        "index-stale-entry-after-update-with-stable-row-ids"
                                    } else if ix.is_some() && t.ds.manifest().uses_stable_row_ids() && t.history.iter().any(|h| (h.starts_with("UPDATE") || h.starts_with("MERGE")) && !h.contains("[rejected") && !h.contains("[expected error")) {
                                        "index-stale-entry-after-update-with-stable-row-ids"
                                    } else {
                                        "merge-failed"
                                    };
                                    report.violation(sig, &es.chars().take(300).collect::<String>(), witness(&t, &op_desc, json!({"error": es})));
                                }
                                return;
                            }
                        }
                    }
                }
                t.history.push(op_desc.clone());
                // ------------------------------------------------------------ state check
                let exp = Expected { set: t.m.rows.keys().copied().collect(), seq: None, limit: None, offset: None };
                let out = match run_scan(&t.ds, &Query::default(), &Knobs::default()).await {
                    Ok(o) => o,
                    Err(e) => {
                        if !selftest {
                            report.violation("scan-after-operation-failed", &format!("{e:?}").chars().take(300).collect::<String>(), witness(&t, &op_desc, json!({"error": format!("{e:?}")})));
                        }
                        return;
                    }
                };
                report.count("rows_compared", out.rows.len() as u64);
                let mut out = out;
                if selftest {
                    if nontrivial && out.rows.pop().is_some() {
                        st_total.fetch_add(1, AO::Relaxed);
                        if judge(&out, &exp, &t.m).is_some() {
                            st_fired.fetch_add(1, AO::Relaxed);
                        }
                    }
                    report.case(None);
                    continue;
                }
                if let Some(v) = judge(&out, &exp, &t.m) {
                    let got: BTreeSet<i64> = out.ids().into_iter().collect();
                    let (extra, missing) = set_diff(&got, &exp.set);
                    let opk = op_desc.split(' ').next().unwrap_or("op").to_lowercase();
                    // rows whose scanned value differs from the model
                    let changed: Vec<i64> = out
                        .rows
                        .iter()
                        .filter_map(|r| {
                            let id = r[0].as_i64()?;
                            let mr = t.m.rows.get(&id)?;
                            if mr != r { Some(id) } else { None }
                        })
                        .collect();
                    // (R1) DELETE / UPDATE planned through the key index: NOT over the index result
                    //      also selects rows whose key is NULL (C19's defect, observed through a write)
                    let r1 = (opk == "delete" || opk == "update") && ix.is_some() && cur_pred.as_ref().map(|p| {
                        let mut neg = vec![];
                        p.negated_leaves(true, &mut neg);
                        neg.iter().any(|(k, c)| *c == on_col && matches!(*k, "eq" | "in"))
                    }).unwrap_or(false)
                        && extra.is_empty()
                        && missing.iter().chain(changed.iter()).all(|id| m_before.get(id).map(|r| r[on_col].is_null()).unwrap_or(false))
                        && (!missing.is_empty() || !changed.is_empty());
                    // (R2) MERGE on an indexed key: the indexed join uses NullEqualsNull
                    let r2 = opk == "merge" && ix.is_some() && on_col == 1 && merge_null_src && target_has_null_key;
                    // (R0) shared filter-rewrite classes: the wrongly deleted / updated rows are rows whose filter value is
                    //      NULL with merged in-lists, or DataFusion's coercing pipeline gets the filter right
                    if (opk == "delete" || opk == "update") && extra.is_empty() && (!missing.is_empty() || !changed.is_empty()) {
                        let dev_in_nulls = missing.iter().chain(changed.iter()).all(|id| inlist_null_rows.contains(id));
                        if dev_in_nulls {
                            report.violation(
                                crate::c16::DF_NOT_IN_SIG,
                                &format!("after {}: {}", opk.to_uppercase(), v.what),
                                witness(&t, &op_desc, json!({"detail": v.detail, "missing": trunc(&missing, 10), "changed": trunc(&changed, 10)})),
                            );
                            return;
                        }
                    }
                    // (R3) UPDATE with several assignments where one reads a column assigned by another
                    let r3 = opk == "update" && cross_ref_update && extra.is_empty() && missing.is_empty() && !changed.is_empty();
                    if r3 {
                        report.violation(
                            "update-assignment-reads-column-already-updated-by-another-assignment",
                            &format!("after UPDATE: {}", v.what),
                            witness(&t, &op_desc, json!({"detail": v.detail, "changed": trunc(&changed, 10)})),
                        );
                        return;
                    }
                    // (R4) stable row ids + key index + rows rewritten earlier: the index finds moved rows (see C19)
                    let prior_rewrite = t.history[..t.history.len().saturating_sub(1)].iter().any(|h| (h.starts_with("UPDATE") || h.starts_with("MERGE")) && !h.contains("[rejected") && !h.contains("[expected error"));
                    let pred_on_key = cur_pred.as_ref().map(|p| {
                        let mut c = BTreeSet::new();
                        p.columns(&mut c);
                        c.contains(&on_col)
                    });
                    let r4 = ix.is_some() && t.ds.manifest().uses_stable_row_ids() && prior_rewrite && (opk == "merge" || pred_on_key == Some(true));
                    if r4 && !(r1 || r2) {
                        report.violation(
                            "index-stale-entry-after-update-with-stable-row-ids",
                            &format!("after {}: {}", opk.to_uppercase(), v.what),
                            witness(&t, &op_desc, json!({"detail": v.detail, "extra": trunc(&extra, 10), "missing": trunc(&missing, 10), "changed": trunc(&changed, 10)})),
                        );
                        return;
                    }
                    if r1 || r2 {
                        report.violation(
                            if r1 { NOT_NULL_SIG } else { MERGE_NULL_SIG },
                            &format!("after {}: {}", opk.to_uppercase(), v.what),
                            witness(&t, &op_desc, json!({"detail": v.detail, "extra": trunc(&extra, 10), "missing": trunc(&missing, 10), "changed": trunc(&changed, 10)})),
                        );
                        return;
                    }
                    // narrow class: SQL MERGE inserts source rows whose key is NULL (they match nothing);
                    // merge_insert drops them (assign_action.rs: source_has_key)
                    let null_key_rows_missing = opk == "merge"
                        && extra.is_empty()
                        && !missing.is_empty()
                        && missing.iter().all(|id| t.m.rows.get(id).map(|r| r[on_col].is_null() && !m_before.contains_key(id)).unwrap_or(false));
                    let sig = if null_key_rows_missing {
                        "merge-insert-drops-source-rows-with-null-key".to_string()
                    } else if (opk == "delete" || opk == "update") && coerce_possible && extra.is_empty() {
                        // nothing more specific applied, the filter has mergeable in-lists and DataFusion's coercing pipeline gets it right
                        crate::c16::COERCE_SIG.to_string()
                    } else {
                        format!("{opk}-result-{}", v.sig)
                    };
                    let show = |ids: &[i64], m: &BTreeMap<i64, Row>| -> Vec<String> { ids.iter().take(5).map(|i| m.get(i).map(vmon::table::render_row).unwrap_or_default()).collect() };
                    let scanned: BTreeMap<i64, Row> = out.rows.iter().filter_map(|r| Some((r[0].as_i64()?, r.clone()))).collect();
                    report.violation(
                        &sig,
                        &format!("after {}: {}", opk.to_uppercase(), v.what),
                        witness(&t, &op_desc, json!({"detail": v.detail, "extra_rows_scanned": show(&extra, &scanned), "missing_rows_model": show(&missing, &t.m.rows)})),
                    );
                    if null_key_rows_missing {
                        // continue the history on Lance's state
                        for id in &missing {
                            t.m.rows.remove(id);
                        }
                    } else {
                        return;
                    }
                }
                // counts
                match guarded(t.ds.count_rows(None)).await {
                    Ok(n) if n != t.m.len() => {
                        report.violation("count-rows-differs-from-table", &format!("count_rows(None) = {n}, table has {}", t.m.len()), witness(&t, &op_desc, json!({"count": n, "expected": t.m.len()})));
                    }
                    _ => {}
                }
                let physical: Option<usize> = t.ds.get_fragments().iter().map(|f| f.metadata().physical_rows).sum();
                if let (Some(phys), Ok(del)) = (physical, guarded(t.ds.count_deleted_rows()).await) {
                    report.count("count_deleted_rows_checked", 1);
                    if phys < del || phys - del != t.m.len() {
                        report.violation(
                            "count-deleted-rows-inconsistent",
                            &format!("physical rows {phys} - count_deleted_rows {del} != live rows {}", t.m.len()),
                            witness(&t, &op_desc, json!({"physical": phys, "deleted": del, "live": t.m.len()})),
                        );
                    }
                }
                if !t.m.rows.is_empty() {
                    if let Ok(df) = DfRef::new(t.m.to_batch()) {
                        let gen = PredGen::new(&t.m, gen_cfg.clone());
                        let p = gen.gen_top(&mut rng);
                        let sql = p.sql(&t.m.cols);
                        if let RefOutcome::Ok { ids, .. } = reference(&p, &sql, &t.m, &df).await {
                            match guarded(t.ds.count_rows(Some(sql.clone()))).await {
                                Ok(n) => {
                                    report.count("count_rows_filter_checked", 1);
                                    if n != ids.len() {
                                        // classified by C16/C19's known classes when they apply
                                        let got_sig = if t.m.cols.iter().any(|_| true) && ix.is_some() { "count-rows-filter-differs-indexed-key" } else { "count-rows-filter-differs" };
                                        let nulls_under_not = {
                                            let mut neg = vec![];
                                            p.negated_leaves(true, &mut neg);
                                            ix.is_some() && neg.iter().any(|(k, c)| *c == on_col && matches!(*k, "eq" | "in")) && n > ids.len()
                                        };
                                        let df_full = if !p.mergeable_inlist_columns(false).is_empty() { df.ids_where_full_sql(&sql).await.ok().map(|s| s.len()) } else { None };
                                        let stale = ix.is_some() && t.ds.manifest().uses_stable_row_ids() && {
                                            let mut c = BTreeSet::new();
                                            p.columns(&mut c);
                                            c.contains(&on_col)
                                        } && t.history.iter().any(|h| (h.starts_with("UPDATE") || h.starts_with("MERGE")) && !h.contains("[rejected") && !h.contains("[expected error"));
                                        let sig = if nulls_under_not {
                                            "index-extra-rows-all-null-in-indexed-col-under-negated-eq-or-in"
                                        } else if stale {
                                            "index-stale-entry-after-update-with-stable-row-ids"
                                        } else if df_full == Some(n) && n > ids.len() {
                                            crate::c16::DF_NOT_IN_SIG
                                        } else if df_full == Some(ids.len()) {
                                            crate::c16::COERCE_SIG
                                        } else {
                                            got_sig
                                        };
                                        report.violation(sig, &format!("count_rows({sql}) = {n}, reference {}", ids.len()), witness(&t, &op_desc, json!({"filter": sql, "count": n, "expected": ids.len()})));
                                    }
                                }
                                Err(_) => {}
                            }
                        }
                    }
                }
                report.case(if nontrivial { Some(fnv_str(&shape)) } else { None });
                if last_op_of_case {
                    report.count("cases_ended_after_duplicate_key_insert", 1);
                    let pick = rng.chance(1, 25);
                    let _ = pick;
                    break;
                }
                let pick = rng.chance(1, 25);
                if nontrivial && pick && report.want_sample() {
                    report.sample(json!({"table": table_desc, "op": op_desc, "rows_before": m_before.len(), "rows_after": t.m.len()}));
                }
            }
        });
    });
    if selftest {
        let (f, t) = (st_fired.load(AO::Relaxed), st_total.load(AO::Relaxed));
        println!("SELFTEST C12 oracle fired on {f} of {t} corrupted observations");
        return if t > 0 && f == t { 0 } else { 2 };
    }
    report.finish()
}
