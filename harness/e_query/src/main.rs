//! Engine binary `e_query`: one module per property. See /verif/DESIGN.md.
use vmon::report::parse_args;

mod core;
mod c12;
mod c16;
mod c19;
mod c20;
mod c22;
mod c23;
mod c29;

fn main() {
    let args = parse_args();
    // Panics inside Lance / DataFusion are caught by the checks (catch_unwind) and judged there;
    // keep stderr readable: print one line per panic, the full message only for harness code.
    std::panic::set_hook(Box::new(|info| {
        let loc = info.location().map(|l| format!("{}:{}", l.file(), l.line())).unwrap_or_default();
        let msg = if let Some(s) = info.payload().downcast_ref::<String>() {
            s.clone()
        } else if let Some(s) = info.payload().downcast_ref::<&str>() {
            s.to_string()
        } else {
            "panic".to_string()
        };
        crate::core::note_panic(&msg, &loc);
        if loc.contains("e_query/") || loc.contains("vmon/") {
            eprintln!("HARNESS-PANIC at {loc}: {info}");
        } else if std::env::var("VERIF_SHOW_PANICS").is_ok() {
            eprintln!("panic (captured) on thread {:?} at {loc}: {msg}", std::thread::current().name());
            if std::env::var("VERIF_SHOW_PANICS").map(|v| v == "2").unwrap_or(false) {
                eprintln!("{}", std::backtrace::Backtrace::force_capture());
            }
        }
    }));
    let code = match args.prop.as_str() {
        "C12" => c12::run(&args),
        "C16" => c16::run(&args),
        "C19" => c19::run(&args),
        "C20" => c20::run(&args),
        "C22" => c22::run(&args),
        "C23" => c23::run(&args),
        "C29" => c29::run(&args),
        other => {
            eprintln!("HARNESS-ERROR e_query does not serve property '{other}'");
            2
        }
    };
    std::process::exit(code);
}
