//! Engine binary `e_query`: one module per property. See /verif/DESIGN.md.
use vmon::report::parse_args;

mod core;
mod c12;
mod c16;
mod c19;
mod c20;
mod c22;
mod c23;
mod c29;

fn main() {
    let args = parse_args();
    let code = match args.prop.as_str() {
        "C12" => c12::run(&args),
        "C16" => c16::run(&args),
        "C19" => c19::run(&args),
        "C20" => c20::run(&args),
        "C22" => c22::run(&args),
        "C23" => c23::run(&args),
        "C29" => c29::run(&args),
        other => {
            eprintln!("HARNESS-ERROR e_query does not serve property '{other}'");
            2
        }
    };
    std::process::exit(code);
}
