//! C29 — statistics-based pruning is conservative.
//!
//! Legacy-format tables (the only scan path that prunes pages by recorded min / max / null-count
//! statistics). (i) every predicate is scanned with use_stats(true) and use_stats(false): the two
//! results must be equal (and equal the reference over the stored table); (ii) the recorded page
//! statistics are read back through `lance_file::previous::reader::FileReader::read_page_stats`
//! and must bound the page data (min <= v <= max for non-null, non-NaN v; exact null counts).
//! The zone-map path of the property is exercised by C20.

use crate::c16::{judge, legacy_stats_sig, reference, Expected, RefOutcome};
use crate::core::*;
use arrow_array::cast::AsArray;
use arrow_array::{Array, ArrayRef, LargeStringArray, RecordBatch, StringArray};
use lance_encoding::version::LanceFileVersion;
use lance_file::previous::reader::FileReader;
use serde_json::json;
use std::collections::{BTreeMap, BTreeSet};
use std::sync::atomic::{AtomicU64, Ordering as AO};
use std::sync::Arc;
use vmon::prng::{fnv_str, Rng};
use vmon::report::{Args, Report};
use vmon::table::IdAlloc;

pub const NULL_PAGE_SIG: &str = "legacy-stats-pruning-misjudges-null-rows-of-single-valued-page";

/// Strings around the 64-byte truncation limit of the legacy string statistics: shared long
/// prefixes (ASCII and multi-byte), values that differ only after the limit, maximal code points.
fn long_string(rng: &mut Rng) -> String {
    let prefix = match rng.below(13) {
        0..=3 => "p".repeat(64),
        4..=7 => "é".repeat(32),            // 64 bytes
        8..=11 => format!("{}日", "q".repeat(62)), // multi-byte char straddles the limit
        _ => "\u{10FFFF}".repeat(16),   // 64 bytes of maximal code points (the legacy writer panics on these)
    };
    let suffix = *rng.pick(&["", "a", "b", "zz", "é", "\u{10FFFF}", "0", "aa"]);
    match rng.below(6) {
        0 => prefix.chars().take(rng.urange(1, 20)).collect(),
        _ => format!("{prefix}{suffix}"),
    }
}

fn with_long_strings(rng: &mut Rng, spec: &TableSpec, b: &RecordBatch, long_cols: &[usize]) -> RecordBatch {
    let mut cols: Vec<ArrayRef> = b.columns().to_vec();
    for ci in long_cols {
        let c = &spec.cols[*ci];
        let a = &cols[*ci + 1];
        let n = a.len();
        let vals: Vec<Option<String>> = (0..n)
            .map(|j| {
                if a.is_null(j) {
                    None
                } else if rng.chance(2, 3) {
                    Some(long_string(rng))
                } else {
                    Some(match c.ty {
                        ColTy::Utf8 => a.as_string::<i32>().value(j).to_string(),
                        _ => a.as_string::<i64>().value(j).to_string(),
                    })
                }
            })
            .collect();
        cols[*ci + 1] = match c.ty {
            ColTy::Utf8 => Arc::new(StringArray::from(vals)) as ArrayRef,
            _ => Arc::new(LargeStringArray::from(vals)) as ArrayRef,
        };
    }
    RecordBatch::try_new(b.schema(), cols).unwrap()
}

/// Check the recorded page statistics of every data file against the page contents.
/// Returns (pages checked, violations as (signature, description)).
async fn check_page_stats(ds: &lance::Dataset, m: &Model) -> Result<(u64, Vec<(String, String)>), String> {
    let mut pages = 0u64;
    let mut bad = vec![];
    let schema = ds.schema().clone();
    for frag in ds.get_fragments() {
        for df in &frag.metadata().files {
            let path = ds.data_dir().child(df.path.as_str());
            let reader = FileReader::try_new_with_fragment_id(
                ds.object_store(),
                &path,
                schema.clone(),
                frag.id() as u32,
                0,
                schema.max_field_id().unwrap_or_default(),
                None,
            )
            .await
            .map_err(|e| format!("open legacy file: {e}"))?;
            let field_ids: Vec<i32> = schema.fields.iter().map(|f| f.id).collect();
            let stats = match reader.read_page_stats(&field_ids).await.map_err(|e| format!("read_page_stats: {e}"))? {
                Some(s) => s,
                None => continue,
            };
            for batch_id in 0..reader.num_batches() {
                let data = reader
                    .read_batch(batch_id as i32, lance_io::ReadBatchParams::RangeFull, &schema)
                    .await
                    .map_err(|e| format!("read_batch: {e}"))?;
                pages += 1;
                for f in &schema.fields {
                    let Some(col_stats) = stats.column_by_name(&f.id.to_string()) else { continue };
                    let st = col_stats.as_struct();
                    let (Some(nulls), Some(mins), Some(maxs)) =
                        (st.column_by_name("null_count"), st.column_by_name("min_value"), st.column_by_name("max_value"))
                    else {
                        continue;
                    };
                    let Some(ci) = m.col_index(&f.name) else { continue };
                    let ty = &m.cols[ci].ty;
                    let Some(arr) = data.column_by_name(&f.name) else { continue };
                    let null_count = cell_at(nulls.as_ref(), batch_id);
                    let actual_nulls = arr.null_count() as i128;
                    if null_count != Cell::Int(actual_nulls) {
                        bad.push((
                            "page-stats-null-count-wrong".to_string(),
                            format!("field {} page {batch_id}: recorded null_count {} actual {actual_nulls}", f.name, null_count.render()),
                        ));
                    }
                    let min = cell_at(mins.as_ref(), batch_id);
                    let max = cell_at(maxs.as_ref(), batch_id);
                    if std::env::var("VERIF_DEBUG").is_ok() {
                        eprintln!(
                            "STATS frag {} page {batch_id} field {}: rows {} recorded_nulls {} actual_nulls {actual_nulls} min {} max {}",
                            frag.id(), f.name, arr.len(), null_count.render(), min.render().chars().take(20).collect::<String>(), max.render().chars().take(20).collect::<String>()
                        );
                    }
                    for i in 0..arr.len() {
                        let v = cell_at(arr.as_ref(), i);
                        if v.is_null() || matches!(&v, Cell::Float(x) if x.is_nan()) {
                            continue;
                        }
                        if !min.is_null() && cmp_cells(ty, &min, &v) == Some(std::cmp::Ordering::Greater) {
                            bad.push((
                                "page-stats-min-greater-than-value".to_string(),
                                format!("field {} page {batch_id}: min {} > value {}", f.name, min.render(), v.render()),
                            ));
                            break;
                        }
                        if !max.is_null() && cmp_cells(ty, &max, &v) == Some(std::cmp::Ordering::Less) {
                            bad.push((
                                "page-stats-max-less-than-value".to_string(),
                                format!("field {} page {batch_id}: max {} < value {}", f.name, max.render(), v.render()),
                            ));
                            break;
                        }
                    }
                }
            }
        }
    }
    Ok((pages, bad))
}

pub fn run(args: &Args) -> i32 {
    let selftest = args.extra.contains_key("selftest");
    let report = Report::new(
        args,
        "exploration",
        "case = (legacy-format table with boundary values: NaN, ±0, ±inf, NULL strings, empty / unicode / >64-byte strings; small row groups; random comparison predicates); \
         each predicate is scanned with use_stats(true) and use_stats(false) and compared with the reference over the stored table; recorded page statistics are checked against page contents. \
         distinct = hash(column types, predicate shape); non-trivial = the table has >= 2 pages and the predicate selects neither 0 nor all rows",
        (70, 900),
    )
    .with_min_nontrivial(20);
    let threads = n_threads();
    // quick: fixed case set per seed (deterministic; the time budget is only a safety net)
    let max_cases: u64 = args.tier.pick(900, 300_000);
    let preds_per_table = args.tier.pick(30, 80);
    let max_rows = args.tier.pick(300, 1500);
    let next = AtomicU64::new(0);
    let only_case: Option<u64> = args.extra.get("case").and_then(|s| s.parse().ok());
    let st_fired = AtomicU64::new(0);
    let st_total = AtomicU64::new(0);

    run_threads(threads, |_t, rt| loop {
        let mut case = next.fetch_add(1, AO::Relaxed);
        if let Some(c) = only_case {
            if case > 0 {
                break;
            }
            case = c;
        }
        if (only_case.is_none() && case >= max_cases) || !report.time_left() {
            break;
        }
        let mut rng = Rng::for_case(args.seed, case);
        rt.block_on(async {
            // ---- table: value columns biased to floats and strings
            let pool = vec![
                ColTy::F32, ColTy::F64, ColTy::F64, ColTy::Utf8, ColTy::LargeUtf8, ColTy::Utf8, ColTy::I8, ColTy::I32, ColTy::I64, ColTy::U8,
                ColTy::U64, ColTy::Date32, ColTy::TsMicro, ColTy::Bool,
            ];
            let ncols = rng.urange(1, 4);
            let mut spec = random_spec(&mut rng, &pool, ncols);
            for c in spec.cols.iter_mut() {
                match class_of(&c.ty) {
                    // the legacy format stores NULLs of fixed-width columns as 0: only strings are nullable here
                    Class::Str => {}
                    _ => c.nullable = false,
                }
                if class_of(&c.ty) == Class::Float {
                    c.small_domain = rng.chance(1, 3);
                }
            }
            let long_cols: Vec<usize> =
                spec.cols.iter().enumerate().filter(|(_, c)| class_of(&c.ty) == Class::Str && rng.chance(1, 2)).map(|(i, _)| i).collect();
            let nfrag = rng.urange(1, 3);
            let total = rng.urange(12, max_rows);
            let mut ids = IdAlloc::new(0);
            let mut model = Model::new(&spec);
            let mut frags = vec![];
            for _ in 0..nfrag {
                let b = spec.batch(&mut rng, &ids.take((total / nfrag).max(2)));
                let b = with_long_strings(&mut rng, &spec, &b, &long_cols);
                let b = crate::c16::legacy_safe(&spec, &b);
                model.insert_batch(&b);
                frags.push(b);
            }
            let mrpg = *rng.pick(&[2usize, 3, 5, 8, 16, 50, 1024]);
            let uri = unique_uri("c29");
            let ds = match guarded(write_table(&uri, &frags, LanceFileVersion::Legacy, None, Some(mrpg), false)).await {
                Ok(d) => d,
                Err(ScanErr::Failed(e)) if e.contains("max_value") || e.contains("min_value") => {
                    // side finding (not a pruning matter): the legacy writer panics when a string page's
                    // truncated max bound cannot be incremented (64 bytes of U+10FFFF + more): the
                    // statistics struct gets a NULL in a non-nullable field. Counted, case skipped.
                    report.count("legacy_writer_panics_on_unincrementable_string_bound", 1);
                    if report.counter("legacy_writer_panics_on_unincrementable_string_bound") <= 1 {
                        report.sample(json!({"legacy_writer_panic": e.chars().take(240).collect::<String>(), "table": spec.describe()}));
                    }
                    return;
                }
                Err(e) => {
                    op_failed(&report, &format!("case {case}: write: {e:?}"));
                    return;
                }
            };
            let pages: usize = frags.iter().map(|f| f.num_rows().div_ceil(mrpg)).sum();
            // stored table = model (legacy cannot tell "" from NULL etc.; see NOTES)
            let out = match run_scan(&ds, &Query::default(), &Knobs { use_stats: Some(false), ..Default::default() }).await {
                Ok(o) => o,
                Err(e) => {
                    op_failed(&report, &format!("case {case}: readback: {e:?}"));
                    return;
                }
            };
            let written = model.rows.clone();
            let mut stored = BTreeMap::new();
            for r in &out.rows {
                if let Some(id) = r[0].as_i64() {
                    stored.insert(id, r.clone());
                }
            }
            if !stored.keys().eq(written.keys()) {
                report.violation(
                    "legacy-unfiltered-scan-loses-or-adds-rows",
                    &format!("unfiltered scan returned {} rows, wrote {}", stored.len(), written.len()),
                    json!({"seed": args.seed, "case": case, "table": spec.describe()}),
                );
                return;
            }
            let changed = stored.iter().filter(|(k, v)| &written[*k] != *v).count();
            report.count("stored_rows_differing_from_written", changed as u64);
            model.rows = stored;
            let m = &model;
            let table_desc = format!("rows={} frags={} pages={} max_rows_per_group={} [{}] long_string_cols={:?}", m.len(), nfrag, pages, mrpg, spec.describe(), long_cols);
            report.count("tables", 1);
            report.count("pages", pages as u64);
            // ---- (ii) recorded statistics bound the data
            let stats_res = {
                use futures::FutureExt;
                match std::panic::AssertUnwindSafe(check_page_stats(&ds, m)).catch_unwind().await {
                    Ok(r) => r,
                    Err(p) => Err(format!(
                        "panic while reading page statistics: {}",
                        p.downcast_ref::<String>().cloned().or_else(|| p.downcast_ref::<&str>().map(|s| s.to_string())).unwrap_or_default()
                    )),
                }
            };
            match stats_res {
                Ok((n, bad)) => {
                    report.count("pages_stats_checked", n);
                    if !selftest {
                        for (sig, what) in bad.into_iter().take(3) {
                            report.violation(&sig, &what, json!({"seed": args.seed, "case": case, "table": table_desc, "what": what}));
                        }
                    }
                }
                Err(e) => {
                    report.count("page_stats_unreadable", 1);
                    if report.counter("page_stats_unreadable") <= 2 {
                        report.sample(json!({"page_stats_unreadable": e}));
                    }
                }
            }
            // ---- (i) stats on == stats off == reference
            let df = match DfRef::new(m.to_batch()) {
                Ok(d) => d,
                Err(e) => {
                    op_failed(&report, &format!("case {case}: datafusion reference: {e}"));
                    return;
                }
            };
            let cols: Vec<usize> = (0..m.cols.len()).collect();
            let gen = PredGen::new(m, GenCfg { cols: cols.clone(), focus: (1..m.cols.len()).collect(), max_depth: 2, hostile_literals: true, allow_colcmp: false, contains_cols: vec![] });
            for pi in 0..preds_per_table {
                if !report.time_left() {
                    break;
                }
                let pred = if rng.chance(1, 2) { gen.leaf(&mut rng) } else { gen.gen_top(&mut rng) };
                let sql = pred.sql(&m.cols);
                let ids_exp = match reference(&pred, &sql, m, &df).await {
                    RefOutcome::Ok { ids, float_disagree, .. } => {
                        if float_disagree {
                            report.count("float_special_decided_by_datafusion", 1);
                        }
                        ids
                    }
                    RefOutcome::HarnessError(e) => {
                        op_failed(&report, &format!("case {case} p{pi}: {e}; table {table_desc}"));
                        continue;
                    }
                };
                let q = Query { filter: Some(sql.clone()), ..Default::default() };
                let on = run_scan(&ds, &q, &Knobs { use_stats: Some(true), ..Default::default() }).await;
                let off = run_scan(&ds, &q, &Knobs { use_stats: Some(false), ..Default::default() }).await;
                let witness = |detail: serde_json::Value| json!({"seed": args.seed, "case": case, "pred_index": pi, "table": table_desc, "filter": sql, "detail": detail});
                let (mut on, off) = match (on, off) {
                    (Ok(a), Ok(b)) => (a, b),
                    (Err(ScanErr::Rejected(_)), Err(ScanErr::Rejected(_))) => {
                        report.rejected();
                        report.case(None);
                        continue;
                    }
                    (a, b) => {
                        let d = format!("use_stats(true): {:?} / use_stats(false): {:?}", a.as_ref().err(), b.as_ref().err());
                        if matches!(a, Err(ScanErr::Timeout)) || matches!(b, Err(ScanErr::Timeout)) {
                            report.inconclusive(&format!("case {case}: scan timed out"));
                        } else if !selftest {
                            report.violation(
                                "legacy-scan-outcome-depends-on-use-stats-or-fails",
                                &d.chars().take(300).collect::<String>(),
                                witness(json!({"outcomes": d})),
                            );
                        }
                        report.case(None);
                        continue;
                    }
                };
                report.count("scans", 2);
                report.count("rows_compared", (on.rows.len() + off.rows.len()) as u64);
                let selective = !ids_exp.is_empty() && ids_exp.len() < m.len();
                let nontrivial = selective && pages >= 2;
                if selftest {
                    if nontrivial && on.rows.pop().is_some() {
                        st_total.fetch_add(1, AO::Relaxed);
                        let a: BTreeSet<i64> = on.ids().into_iter().collect();
                        let b: BTreeSet<i64> = off.ids().into_iter().collect();
                        if a != b {
                            st_fired.fetch_add(1, AO::Relaxed);
                        }
                    }
                    report.case(None);
                    continue;
                }
                let a: BTreeSet<i64> = on.ids().into_iter().collect();
                let b: BTreeSet<i64> = off.ids().into_iter().collect();
                let exp = Expected { set: ids_exp.clone(), seq: None, limit: None, offset: None };
                if a != b {
                    let (extra, missing) = set_diff(&a, &b);
                    let mut pcols = BTreeSet::new();
                    pred.columns(&mut pcols);
                    let null_in_pred_col = |id: &i64| m.rows.get(id).map(|r| pcols.iter().any(|c| r[*c].is_null())).unwrap_or(false);
                    let sig = if extra.iter().chain(missing.iter()).all(null_in_pred_col) {
                        // a page holding NULLs and one distinct non-null value gets the guarantee
                        // MaybeNull{[v,v]}, which DataFusion's simplifier collapses to the constant v
                        NULL_PAGE_SIG.to_string()
                    } else if crate::c16::nan_involved(&pred, m) {
                        legacy_stats_sig(&pred, m)
                    } else {
                        format!(
                            "legacy-stats-pruning-changes-result-{}",
                            match (extra.is_empty(), missing.is_empty()) {
                                (false, true) => "adds-rows",
                                (true, false) => "drops-rows",
                                _ => "adds-and-drops-rows",
                            }
                        )
                    };
                    let show = |ids: &[i64]| -> Vec<String> { ids.iter().take(5).map(|i| m.rows.get(i).map(vmon::table::render_row).unwrap_or_default()).collect() };
                    report.violation(
                        &sig,
                        &format!("use_stats(true) returns {} rows, use_stats(false) {} (reference {}): {} only with stats, {} only without", a.len(), b.len(), ids_exp.len(), extra.len(), missing.len()),
                        witness(json!({"only_with_stats": trunc(&extra, 20), "only_without_stats": trunc(&missing, 20), "rows_only_with_stats": show(&extra), "rows_only_without_stats": show(&missing),
                                       "reference_equals_without_stats": b == ids_exp})),
                    );
                } else if let Some(v) = judge(&off, &exp, m) {
                    // pruning is not involved (both scans agree): a legacy read/filter deviation, outside C29
                    report.count("legacy_filter_differs_from_reference_with_and_without_stats", 1);
                    if report.counter("legacy_filter_differs_from_reference_with_and_without_stats") <= 3 {
                        report.sample(json!({"not_a_pruning_matter": v.what, "filter": sql, "table": table_desc, "detail": v.detail}));
                    }
                }
                report.case(if nontrivial { Some(fnv_str(&format!("{}|{}", spec.describe(), pred.shape(&m.cols)))) } else { None });
                if selective {
                    report.count("selective_predicates", 1);
                }
                let pick = rng.chance(1, 80);
                if nontrivial && pick && report.want_sample() {
                    report.sample(json!({"table": table_desc, "filter": sql, "matching": ids_exp.len(), "rows": m.len(), "with_stats": a.len(), "without_stats": b.len()}));
                }
            }
        });
    });
    if selftest {
        let (f, t) = (st_fired.load(AO::Relaxed), st_total.load(AO::Relaxed));
        println!("SELFTEST C29 oracle fired on {f} of {t} corrupted observations");
        return if t > 0 && f * 100 >= t * 99 { 0 } else { 2 };
    }
    report.finish()
}
