//! C16 — scanner results equal a reference query and do not depend on execution knobs.
//!
//! Case = one random typed table (1-4 fragments, random storage version, optional deletions) and a
//! batch of random queries (filter tree, projection, limit/offset, order_by). Each query is run
//! with default knobs and under random knob combinations; every result is judged against the two
//! references (own 3VL evaluator, DataFusion over a MemTable); `count_rows` must agree.

use crate::core::*;
use lance_encoding::version::LanceFileVersion;
use serde_json::json;
use std::cmp::Ordering;
use std::collections::BTreeSet;
use std::sync::atomic::{AtomicU64, Ordering as AO};
use vmon::prng::{fnv_str, Rng};
use vmon::report::{Args, Report, Tier};
use vmon::table::IdAlloc;

pub struct Verdict {
    pub sig: String,
    pub what: String,
    pub detail: serde_json::Value,
}

/// Expected result of a query, computed from the references.
pub struct Expected {
    /// matching ids (unordered semantics)
    pub set: BTreeSet<i64>,
    /// exact expected sequence when the query is ordered (after offset/limit)
    pub seq: Option<Vec<i64>>,
    pub limit: Option<i64>,
    pub offset: Option<i64>,
}

impl Expected {
    /// number of rows the query must return
    pub fn count(&self) -> usize {
        let avail = self.set.len().saturating_sub(self.offset.unwrap_or(0).max(0) as usize);
        match self.limit {
            Some(l) => avail.min(l.max(0) as usize),
            None => avail,
        }
    }
}

/// Judge one observed scan against the expectation. None = conforms.
pub fn judge(out: &ScanOut, exp: &Expected, m: &Model) -> Option<Verdict> {
    let ids = out.ids();
    if let Some(d) = dup_id(&ids) {
        return Some(Verdict {
            sig: "scan-duplicate-row".into(),
            what: format!("row id={d} returned twice"),
            detail: json!({"dup": d}),
        });
    }
    if let Some(msg) = check_values(out, m) {
        return Some(Verdict {
            sig: "scan-wrong-cell-value".into(),
            what: msg.clone(),
            detail: json!({"mismatch": msg}),
        });
    }
    let got: BTreeSet<i64> = ids.iter().copied().collect();
    if exp.limit == Some(0) && !ids.is_empty() {
        // narrow class: `limit(Some(0), ..)` is ignored when a filter or ordering is present
        let avail = exp.set.len().saturating_sub(exp.offset.unwrap_or(0).max(0) as usize);
        let sig = if got.is_subset(&exp.set) && ids.len() == avail {
            "limit-zero-ignored-returns-all-matching-rows"
        } else {
            "limit-zero-returns-unexpected-rows"
        };
        return Some(Verdict {
            sig: sig.into(),
            what: format!("limit 0 returned {} rows ({} match the filter after offset)", ids.len(), avail),
            detail: json!({"got": ids.len(), "matching": exp.set.len()}),
        });
    }
    if let Some(seq) = &exp.seq {
        if &ids != seq {
            let (extra, missing) = set_diff(&got, &seq.iter().copied().collect());
            let sig = if extra.is_empty() && missing.is_empty() {
                "ordered-scan-wrong-order"
            } else {
                "ordered-scan-wrong-rows"
            };
            return Some(Verdict {
                sig: sig.into(),
                what: format!("ordered result differs: got {} rows, expected {}", ids.len(), seq.len()),
                detail: json!({"got": trunc(&ids, 40), "expected": trunc(seq, 40), "extra": trunc(&extra, 20), "missing": trunc(&missing, 20)}),
            });
        }
        return None;
    }
    if exp.limit.is_some() || exp.offset.is_some() {
        let (extra, _) = set_diff(&got, &exp.set);
        if !extra.is_empty() {
            return Some(Verdict {
                sig: "limit-scan-returns-non-matching-rows".into(),
                what: format!("{} returned rows do not satisfy the filter", extra.len()),
                detail: json!({"extra": trunc(&extra, 20)}),
            });
        }
        if ids.len() != exp.count() {
            return Some(Verdict {
                sig: "limit-scan-wrong-count".into(),
                what: format!("limit/offset scan returned {} rows, expected {}", ids.len(), exp.count()),
                detail: json!({"got": ids.len(), "expected": exp.count(), "matching": exp.set.len()}),
            });
        }
        return None;
    }
    if got != exp.set {
        let (extra, missing) = set_diff(&got, &exp.set);
        let sig = match (extra.is_empty(), missing.is_empty()) {
            (false, true) => "scan-extra-rows",
            (true, false) => "scan-missing-rows",
            _ => "scan-extra-and-missing-rows",
        };
        return Some(Verdict {
            sig: sig.into(),
            what: format!("{} extra, {} missing rows vs reference", extra.len(), missing.len()),
            detail: json!({"extra": trunc(&extra, 20), "missing": trunc(&missing, 20), "got": got.len(), "expected": exp.set.len()}),
        });
    }
    None
}

pub enum RefOutcome {
    Ok { ids: BTreeSet<i64>, float_disagree: bool, df_rejected: bool },
    HarnessError(String),
}

pub const DF_NOT_IN_SIG: &str = "datafusion-inlist-simplifier-keeps-rows-where-filter-is-null";

/// Attribute a deviation to DataFusion's in-list simplifier (which Lance applies to its filters):
/// the predicate has mergeable IN / NOT IN / = / <> leaves on one column, Lance returned only extra
/// rows, the filter is NULL (not FALSE) for each of them, and DataFusion's own complete SQL pipeline
/// returns exactly the same rows as Lance.
pub async fn quirk_sig(got: &BTreeSet<i64>, exp: &BTreeSet<i64>, pred: &Pred, sql: &str, m: &Model, df: &DfRef) -> Option<&'static str> {
    // merged in-lists lose the NULL-ness of the column: every deviating row is NULL in a column that
    // has two mergeable equality / IN leaves, and DataFusion's complete SQL pipeline returns exactly
    // what Lance returned
    let cols = pred.mergeable_inlist_columns(false);
    if cols.is_empty() || got == exp {
        return None;
    }
    if !got.symmetric_difference(exp).all(|id| m.rows.get(id).map(|r| cols.iter().any(|c| r[*c].is_null())).unwrap_or(false)) {
        return None;
    }
    match df.ids_where_full_sql(sql).await {
        Ok(b) if &b == got => Some(DF_NOT_IN_SIG),
        _ => {
            // DataFusion's own pipeline coerces before simplifying and may not merge the same lists
            // as Lance: fall back to "only extra rows, each with a NULL filter value and NULL in a
            // column with mergeable in-lists"
            let nulls = null_rows_of_merged_inlists(pred, m);
            if exp.is_subset(got) && got.difference(exp).all(|i| nulls.contains(i)) {
                Some(DF_NOT_IN_SIG)
            } else {
                None
            }
        }
    }
}

/// Fallback attribution to the in-list rewrite family without consulting DataFusion's complete
/// pipeline (which coerces first and may therefore not merge the same lists as Lance): every extra
/// row is NULL in a column with two mergeable equality / IN leaves and the filter evaluates to NULL
/// (not FALSE) for it — the rewrite `x IN A AND x IN B -> false` / `x NOT IN A OR x NOT IN B -> true`
/// dropped the NULL-ness of x.
pub fn null_rows_of_merged_inlists(pred: &Pred, m: &Model) -> BTreeSet<i64> {
    let cols = pred.mergeable_inlist_columns(false);
    if cols.is_empty() {
        return BTreeSet::new();
    }
    m.rows
        .iter()
        .filter(|(_, r)| cols.iter().any(|c| r[*c].is_null()) && eval(pred, &m.cols, r).is_none())
        .map(|(i, _)| *i)
        .collect()
}

pub const COERCE_SIG: &str = "lance-simplifies-before-type-coercion-inlist-merge-wrong";

/// Attribute a deviation to Lance running DataFusion's simplifier *before* type coercion
/// (planner.rs optimize_expr): literals under NOT / IS are still Int64 / Float64 / Utf8 while
/// top-level ones were coerced to the column type, so the in-list set operations compare
/// differently typed literals. Conditions: mergeable IN / = leaves on one column whose type is not
/// the SQL literal's default type, and DataFusion's complete SQL pipeline (which coerces first)
/// returns the expected rows.
pub async fn coercion_sig(got: &BTreeSet<i64>, exp: &BTreeSet<i64>, pred: &Pred, sql: &str, m: &Model, df: &DfRef) -> Option<&'static str> {
    if got == exp || pred.mergeable_inlist_columns(false).is_empty() {
        return None;
    }
    let mut cols = BTreeSet::new();
    pred.columns(&mut cols);
    let odd_type = cols.iter().any(|c| !matches!(m.cols[*c].ty, ColTy::I64 | ColTy::F64 | ColTy::Utf8 | ColTy::Bool));
    if !odd_type {
        return None;
    }
    match df.ids_where_full_sql(sql).await {
        Ok(b) if &b == exp => Some(COERCE_SIG),
        _ => None,
    }
}

pub async fn reference(pred: &Pred, sql: &str, m: &Model, df: &DfRef) -> RefOutcome {
    let a = ref_ids(pred, m);
    match df.ids_where(sql).await {
        Err(_) => RefOutcome::Ok { ids: a, float_disagree: false, df_rejected: true },
        Ok(b) => {
            if a == b {
                RefOutcome::Ok { ids: a, float_disagree: false, df_rejected: false }
            } else if pred.touches_float(&m.cols) {
                RefOutcome::Ok { ids: b, float_disagree: true, df_rejected: false }
            } else {
                let (xa, xb) = set_diff(&a, &b);
                RefOutcome::HarnessError(format!(
                    "references disagree on `{sql}`: only-evaluator {:?} only-datafusion {:?}",
                    trunc(&xa, 5),
                    trunc(&xb, 5)
                ))
            }
        }
    }
}

fn sort_ids(m: &Model, ids: &BTreeSet<i64>, order: &[(usize, bool, bool)]) -> Vec<i64> {
    let mut v: Vec<i64> = ids.iter().copied().collect();
    v.sort_by(|x, y| {
        let rx = &m.rows[x];
        let ry = &m.rows[y];
        for (c, asc, nulls_first) in order {
            let (a, b) = (&rx[*c], &ry[*c]);
            let o = match (a.is_null(), b.is_null()) {
                (true, true) => Ordering::Equal,
                (true, false) => {
                    if *nulls_first {
                        Ordering::Less
                    } else {
                        Ordering::Greater
                    }
                }
                (false, true) => {
                    if *nulls_first {
                        Ordering::Greater
                    } else {
                        Ordering::Less
                    }
                }
                (false, false) => {
                    let o = cmp_cells(&m.cols[*c].ty, a, b).unwrap();
                    if *asc {
                        o
                    } else {
                        o.reverse()
                    }
                }
            };
            if o != Ordering::Equal {
                return o;
            }
        }
        Ordering::Equal
    });
    v
}

/// The legacy format cannot distinguish "" from NULL in a nullable string column (which one a
/// reader sees depends on the read path). That is a storage-fidelity matter (C11/C25), not a
/// query-semantics one: legacy tables get no empty strings in nullable string columns.
pub fn legacy_safe(spec: &TableSpec, b: &arrow_array::RecordBatch) -> arrow_array::RecordBatch {
    use arrow_array::{Array, ArrayRef, LargeStringArray, StringArray};
    use std::sync::Arc;
    let mut cols: Vec<ArrayRef> = b.columns().to_vec();
    for (i, c) in spec.cols.iter().enumerate() {
        if !c.nullable {
            continue;
        }
        let a = &cols[i + 1];
        match c.ty {
            ColTy::Utf8 => {
                let a = a.as_any().downcast_ref::<StringArray>().unwrap();
                let v: Vec<Option<&str>> =
                    (0..a.len()).map(|j| if a.is_null(j) { None } else if a.value(j).is_empty() { Some("e0") } else { Some(a.value(j)) }).collect();
                cols[i + 1] = Arc::new(StringArray::from(v));
            }
            ColTy::LargeUtf8 => {
                let a = a.as_any().downcast_ref::<LargeStringArray>().unwrap();
                let v: Vec<Option<&str>> =
                    (0..a.len()).map(|j| if a.is_null(j) { None } else if a.value(j).is_empty() { Some("e0") } else { Some(a.value(j)) }).collect();
                cols[i + 1] = Arc::new(LargeStringArray::from(v));
            }
            _ => {}
        }
    }
    arrow_array::RecordBatch::try_new(b.schema(), cols).unwrap()
}

pub struct BuiltTable {
    pub ds: lance::Dataset,
    pub model: Model,
    pub desc: String,
    pub version: LanceFileVersion,
}

/// Random table written to memory://, optionally with deleted rows.
pub async fn build_table(
    rng: &mut Rng,
    tag: &str,
    pool: &[ColTy],
    max_rows: usize,
    versions: &[LanceFileVersion],
    legacy_nulls: bool,
) -> Result<BuiltTable, String> {
    let ncols = rng.urange(2, 6);
    let mut spec = random_spec(rng, pool, ncols);
    let version = *rng.pick(versions);
    if version == LanceFileVersion::Legacy && !legacy_nulls {
        // NULL handling of the legacy format (NULLs of fixed-width columns are stored as 0, and the
        // pushdown scan of nullable strings) is examined by C29; C16 uses legacy tables only to
        // reach the pushdown-scan path with NOT NULL data.
        for c in spec.cols.iter_mut() {
            c.nullable = false;
        }
    }
    let nfrag = rng.urange(1, 4);
    let total = rng.urange(10, max_rows);
    let mut ids = IdAlloc::new(0);
    let mut model = Model::new(&spec);
    let mut frags = vec![];
    for f in 0..nfrag {
        let n = if f + 1 == nfrag { (total / nfrag).max(1) + total % nfrag } else { (total / nfrag).max(1) };
        let mut b = spec.batch(rng, &ids.take(n));
        if version == LanceFileVersion::Legacy {
            b = legacy_safe(&spec, &b);
        }
        model.insert_batch(&b);
        frags.push(b);
    }
    let max_rows_per_file = if rng.chance(1, 4) { Some(rng.urange(5, total.max(6))) } else { None };
    let max_rows_per_group = if rng.chance(1, 2) { Some(*rng.pick(&[3usize, 8, 32, 100, 1024])) } else { None };
    let uri = unique_uri(tag);
    let mut ds = write_table(&uri, &frags, version, max_rows_per_file, max_rows_per_group, rng.chance(1, 4))
        .await
        .map_err(|e| format!("write: {e}"))?;
    let mut deleted = 0;
    if rng.chance(1, 3) {
        let all: Vec<i64> = model.rows.keys().copied().collect();
        let k = rng.urange(1, (all.len() / 4).max(1));
        let victims: Vec<i64> = rng.sample_indices(all.len(), k).into_iter().map(|i| all[i]).collect();
        let list = victims.iter().map(|v| v.to_string()).collect::<Vec<_>>().join(",");
        ds.delete(&format!("id IN ({list})")).await.map_err(|e| format!("delete: {e}"))?;
        for v in &victims {
            model.rows.remove(v);
        }
        deleted = victims.len();
    }
    if version == LanceFileVersion::Legacy {
        // The legacy (0.1) file format does not round-trip NULLs of fixed-width columns (stored as
        // 0 / false) nor the difference between NULL and "" in nullable strings. Storage fidelity is
        // C11/C25's subject; the query properties are judged relative to the *stored* table, so the
        // model of a legacy table is what an unfiltered default scan reads back.
        let out = run_scan(&ds, &Query::default(), &Knobs::default()).await.map_err(|e| format!("legacy readback: {e:?}"))?;
        let mut stored = std::collections::BTreeMap::new();
        for r in &out.rows {
            let id = r[0].as_i64().ok_or("legacy readback: null id")?;
            stored.insert(id, r.clone());
        }
        if stored.len() != model.rows.len() || !stored.keys().eq(model.rows.keys()) {
            return Err(format!("legacy readback returned {} rows, wrote {}", stored.len(), model.rows.len()));
        }
        model.rows = stored;
    }
    let desc = format!(
        "rows={} frags={} deleted={} v={} mrpf={:?} mrpg={:?} [{}]",
        model.len(),
        ds.get_fragments().len(),
        deleted,
        storage_version_name(version),
        max_rows_per_file,
        max_rows_per_group,
        spec.describe()
    );
    Ok(BuiltTable { ds, model, desc, version })
}

/// NaN is involved: a NaN literal, or a float column of the predicate holds a NaN in live data.
pub fn nan_involved(pred: &Pred, m: &Model) -> bool {
    if pred.has_nan_literal() {
        return true;
    }
    let mut cols = BTreeSet::new();
    pred.columns(&mut cols);
    cols.iter().any(|c| {
        class_of(&m.cols[*c].ty) == Class::Float
            && m.rows.values().any(|r| matches!(&r[*c], Cell::Float(f) if f.is_nan()))
    })
}

pub fn legacy_stats_sig(pred: &Pred, m: &Model) -> String {
    if nan_involved(pred, m) {
        "legacy-stats-pruning-drops-or-adds-rows-float-nan".into()
    } else {
        "legacy-stats-pruning-changes-result".into()
    }
}

fn all_cols(m: &Model) -> Vec<usize> {
    (0..m.cols.len()).filter(|c| class_of(&m.cols[*c].ty) != Class::Other).collect()
}

pub fn run(args: &Args) -> i32 {
    let selftest = args.extra.contains_key("selftest");
    let report = Report::new(
        args,
        "exploration",
        "case = (random typed table, random filter tree / projection / limit / offset / order_by) run under default and random knob combinations; \
         distinct = hash(column types, predicate shape, query shape); non-trivial = the filter selects neither 0 nor all rows (others are executed and counted too)",
        (70, 900),
    )
    .with_min_nontrivial(20);
    let threads = n_threads();
    // quick: a fixed case set per seed (finishes well inside the budget on 16 cores; the time check is only a safety net)
    let max_cases: u64 = args.tier.pick(600, 400_000);
    let queries_per_table = args.tier.pick(24, 60);
    let max_rows = args.tier.pick(300, 1500);
    let next = AtomicU64::new(0);
    let only_case: Option<u64> = args.extra.get("case").and_then(|s| s.parse().ok());
    let selftest_fired = AtomicU64::new(0);
    let selftest_total = AtomicU64::new(0);
    let versions = [
        LanceFileVersion::V2_0,
        LanceFileVersion::V2_0,
        LanceFileVersion::V2_1,
        LanceFileVersion::V2_1,
        LanceFileVersion::Legacy,
        LanceFileVersion::V2_2,
    ];

    run_threads(threads, |_t, rt| {
        loop {
            let mut case = next.fetch_add(1, AO::Relaxed);
            if let Some(c) = only_case {
                if case > 0 {
                    break;
                }
                case = c;
            }
            if (only_case.is_none() && case >= max_cases) || !report.time_left() {
                break;
            }
            let mut rng = Rng::for_case(args.seed, case);
            rt.block_on(async {
                let tbl = match build_table(&mut rng, "c16", &query_pool(), max_rows, &versions, false).await {
                    Ok(t) => t,
                    Err(e) => {
                        op_failed(&report, &format!("case {case}: table setup failed: {e}"));
                        return;
                    }
                };
                report.count("tables", 1);
                let m = &tbl.model;
                let df = match DfRef::new(m.to_batch()) {
                    Ok(d) => d,
                    Err(e) => {
                        op_failed(&report, &format!("case {case}: datafusion reference: {e}"));
                        return;
                    }
                };
                // unfiltered scan must equal the model
                {
                    let q = Query::default();
                    match run_scan(&tbl.ds, &q, &Knobs::default()).await {
                        Ok(out) => {
                            let exp = Expected { set: m.rows.keys().copied().collect(), seq: None, limit: None, offset: None };
                            report.count("rows_compared", out.rows.len() as u64);
                            if let Some(v) = judge(&out, &exp, m) {
                                report.violation(
                                    &format!("full-{}", v.sig),
                                    &v.what,
                                    json!({"seed": args.seed, "case": case, "table": tbl.desc, "detail": v.detail}),
                                );
                            }
                        }
                        Err(e) => op_failed(&report, &format!("case {case}: full scan failed: {e:?}")),
                    }
                }
                let gen = PredGen::new(
                    m,
                    GenCfg {
                        cols: all_cols(m),
                        focus: vec![],
                        max_depth: 3,
                        hostile_literals: true,
                        allow_colcmp: true,
                        // `contains(col, 's')` leaves on a third of the string columns' leaves
                        contains_cols: if rng.chance(1, 2) { all_cols(m).into_iter().filter(|c| class_of(&m.cols[*c].ty) == Class::Str).collect() } else { vec![] },
                    },
                );
                for qi in 0..queries_per_table {
                    if !report.time_left() {
                        break;
                    }
                    let pred = gen.gen_top(&mut rng);
                    let sql = pred.sql(&m.cols);
                    let (ids, float_disagree) = match reference(&pred, &sql, m, &df).await {
                        RefOutcome::Ok { ids, float_disagree, df_rejected } => {
                            if df_rejected {
                                report.count("datafusion_ref_rejected", 1);
                            }
                            (ids, float_disagree)
                        }
                        RefOutcome::HarnessError(e) => {
                            op_failed(&report, &format!("case {case} q{qi}: {e} table {}", tbl.desc));
                            continue;
                        }
                    };
                    if float_disagree {
                        report.count("float_special_decided_by_datafusion", 1);
                    }
                    // query shape
                    let mut q = Query { filter: Some(sql.clone()), ..Default::default() };
                    let mut fc = BTreeSet::new();
                    pred.columns(&mut fc);
                    q.filter_cols = fc.iter().map(|c| m.cols[*c].name.clone()).collect();
                    if rng.chance(1, 2) {
                        let mut cols: Vec<String> =
                            m.cols.iter().skip(1).filter(|_| rng.bool()).map(|c| c.name.clone()).collect();
                        cols.push("id".into());
                        rng.shuffle(&mut cols);
                        q.projection = Some(cols);
                    }
                    let mut order_idx: Option<Vec<(usize, bool, bool)>> = None;
                    let _ = &mut order_idx;
                    if rng.chance(1, 4) {
                        let sortable = all_cols(m);
                        let c = *rng.pick(&sortable);
                        let o = vec![(c, rng.bool(), rng.bool()), (0usize, rng.bool(), true)];
                        q.order = Some(o.iter().map(|(c, a, n)| (m.cols[*c].name.clone(), *a, *n)).collect());
                        if let Some(p) = &mut q.projection {
                            // ordering columns need not be projected; keep both variants
                            if rng.bool() && !p.contains(&m.cols[c].name) {
                                p.push(m.cols[c].name.clone());
                            }
                        }
                        order_idx = Some(o);
                    }
                    if rng.chance(1, 3) {
                        q.limit = if rng.chance(4, 5) { Some(if rng.chance(1, 6) { 0 } else { rng.range(1, (ids.len() as i64 + 3).max(1)) }) } else { None };
                        q.offset = if rng.chance(1, 2) { Some(rng.range(0, (ids.len() as i64 + 2).max(1))) } else { None };
                    }
                    let seq = order_idx.as_ref().map(|o| {
                        let sorted = sort_ids(m, &ids, o);
                        let off = q.offset.unwrap_or(0) as usize;
                        let it = sorted.into_iter().skip(off);
                        match q.limit {
                            Some(l) => it.take(l as usize).collect::<Vec<_>>(),
                            None => it.collect(),
                        }
                    });
                    let exp = Expected { set: ids.clone(), seq, limit: q.limit, offset: q.offset };
                    let nontrivial = !ids.is_empty() && ids.len() < m.len();
                    let qshape = format!(
                        "{}|p{}|l{}{}|o{}",
                        pred.shape(&m.cols),
                        q.projection.as_ref().map(|p| p.len()).unwrap_or(99),
                        q.limit.is_some() as u8,
                        q.offset.is_some() as u8,
                        order_idx.as_ref().map(|o| format!("{:?}{}{}", m.cols[o[0].0].ty, o[0].1, o[0].2)).unwrap_or_default()
                    );
                    let witness = |knobs: &Knobs, detail: serde_json::Value| {
                        json!({"seed": args.seed, "case": case, "query_index": qi, "table": tbl.desc, "filter": sql,
                               "projection": q.projection, "limit": q.limit, "offset": q.offset, "order": q.order,
                               "knobs": knobs.describe(), "detail": detail})
                    };
                    // knob combinations: default + 2 random
                    let mut knob_sets = vec![Knobs::default()];
                    for _ in 0..2 {
                        knob_sets.push(Knobs::random(&mut rng));
                    }
                    // size of a scan result that was attributed to the DataFusion in-list quirk (count_rows is classified alike)
                    let mut quirk_count: Option<usize> = None;
                    let mut coerce_count: Option<usize> = None;
                    let mut base_rejected: Option<bool> = None;
                    let mut executed = false;
                    for (ki, knobs) in knob_sets.iter().enumerate() {
                        match run_scan(&tbl.ds, &q, knobs).await {
                            Ok(mut out) => {
                                report.count("scans", 1);
                                report.count("rows_compared", out.rows.len() as u64);
                                if ki > 0 {
                                    report.count("knob_combinations", 1);
                                }
                                if base_rejected == Some(true) {
                                    report.count("rejection_depends_on_knobs", 1);
                                }
                                base_rejected.get_or_insert(false);
                                executed = true;
                                if selftest {
                                    // corrupt the observation: drop the last returned row
                                    if out.rows.pop().is_some() {
                                        selftest_total.fetch_add(1, AO::Relaxed);
                                        if judge(&out, &exp, m).is_some() {
                                            selftest_fired.fetch_add(1, AO::Relaxed);
                                        }
                                    }
                                    continue;
                                }
                                if let Some(v) = judge(&out, &exp, m) {
                                    if only_case.is_some() {
                                        let got: BTreeSet<i64> = out.ids().into_iter().collect();
                                        let (extra, missing) = set_diff(&got, &exp.set);
                                        eprintln!("DEBUG q{qi} `{sql}` knobs {} sig {}", knobs.describe(), v.sig);
                                        for id in extra.iter().take(6) {
                                            let k = out.ids().iter().position(|x| x == id).unwrap();
                                            eprintln!("  extra id={id} model={} scan={}", vmon::table::render_row(&m.rows[id]), vmon::table::render_row(&out.rows[k]));
                                        }
                                        for id in missing.iter().take(6) {
                                            eprintln!("  missing id={id} model={}", vmon::table::render_row(&m.rows[id]));
                                        }
                                    }
                                    let mut sig = if ki == 0 || v.sig.starts_with("limit-zero") { v.sig.clone() } else { format!("knobs-{}", v.sig) };
                                    let got_set: BTreeSet<i64> = out.ids().into_iter().collect();
                                    if q.limit.is_some() || q.offset.is_some() {
                                        // limited scan: the rows that do not match are NULL in a column with merged
                                        // in-lists and DataFusion's own pipeline also returns them
                                        let cols = pred.mergeable_inlist_columns(false);
                                        if !cols.is_empty() && order_idx.is_none() {
                                            if let Ok(b) = df.ids_where_full_sql(&sql).await {
                                                let extras: Vec<i64> = got_set.difference(&ids).copied().collect();
                                                let avail = b.len().saturating_sub(q.offset.unwrap_or(0).max(0) as usize);
                                                let want = q.limit.map(|l| avail.min(l.max(0) as usize)).unwrap_or(avail);
                                                if !extras.is_empty()
                                                    && got_set.is_subset(&b)
                                                    && got_set.len() == want
                                                    && extras.iter().all(|id| m.rows.get(id).map(|r| cols.iter().any(|c| r[*c].is_null())).unwrap_or(false))
                                                {
                                                    sig = DF_NOT_IN_SIG.to_string();
                                                    quirk_count = Some(b.len());
                                                }
                                            }
                                        }
                                    } else if q.limit.is_none() && q.offset.is_none() {
                                        if let Some(qs) = quirk_sig(&got_set, &ids, &pred, &sql, m, &df).await {
                                            sig = qs.to_string();
                                            quirk_count = Some(got_set.len());
                                        } else if let Some(cs) = coercion_sig(&got_set, &ids, &pred, &sql, m, &df).await {
                                            sig = cs.to_string();
                                            coerce_count = Some(got_set.len());
                                        }
                                    }
                                    if sig != DF_NOT_IN_SIG && sig != COERCE_SIG {
                                        let nulls = null_rows_of_merged_inlists(&pred, m);
                                        let extras: Vec<i64> = got_set.difference(&ids).copied().collect();
                                        let missing_n = if q.limit.is_some() || q.offset.is_some() { 0 } else { ids.difference(&got_set).count() };
                                        if !extras.is_empty() && missing_n == 0 && order_idx.is_none() && extras.iter().all(|i| nulls.contains(i)) {
                                            sig = DF_NOT_IN_SIG.to_string();
                                            quirk_count = Some(usize::MAX); // count classified below by range
                                        }
                                    }
                                    // narrow class: on a legacy table the same query with use_stats(false)
                                    // conforms => the deviation is caused by statistics-based pruning
                                    if tbl.version == LanceFileVersion::Legacy && knobs.use_stats != Some(false) && !v.sig.starts_with("limit-zero") {
                                        let mut k2 = knobs.clone();
                                        k2.use_stats = Some(false);
                                        if let Ok(out2) = run_scan(&tbl.ds, &q, &k2).await {
                                            if judge(&out2, &exp, m).is_none() {
                                                sig = legacy_stats_sig(&pred, m);
                                            }
                                        }
                                    }
                                    report.violation(&sig, &v.what, witness(knobs, v.detail));
                                }
                            }
                            Err(ScanErr::Rejected(e)) => {
                                if base_rejected == Some(false) {
                                    report.count("rejection_depends_on_knobs", 1);
                                }
                                if ki == 0 {
                                    base_rejected = Some(true);
                                    report.rejected();
                                    if report.counter("rejected_samples") < 3 {
                                        report.count("rejected_samples", 1);
                                        report.sample(json!({"rejected_filter": sql, "error": e.chars().take(200).collect::<String>()}));
                                    }
                                }
                            }
                            Err(ScanErr::Failed(e)) => {
                                if !selftest {
                                    let sig = if q.limit == Some(0) && q.order.is_some() && e.contains("k > 0") {
                                        "limit-zero-ordered-scan-panics"
                                    } else {
                                        "scan-failed-on-accepted-query"
                                    };
                                    report.violation(
                                        sig,
                                        &format!("scan failed: {}", e.chars().take(300).collect::<String>()),
                                        witness(knobs, json!({"error": e})),
                                    );
                                }
                            }
                            Err(ScanErr::Timeout) => report.inconclusive(&format!("case {case} q{qi}: scan timed out ({})", knobs.describe())),
                        }
                    }
                    // count_rows
                    // narrow class for count deviations on legacy tables: the count with use_stats(false) is right
                    let legacy_count_sig = |base: &str, stats_off_ok: bool| -> String {
                        if stats_off_ok {
                            legacy_stats_sig(&pred, m)
                        } else {
                            base.to_string()
                        }
                    };
                    let mut stats_off_count_ok = false;
                    if executed && !selftest && tbl.version == LanceFileVersion::Legacy {
                        let k2 = Knobs { use_stats: Some(false), ..Default::default() };
                        if let Ok(n) = run_count(&tbl.ds, &q, &k2).await {
                            stats_off_count_ok = n as usize == ids.len();
                        }
                    }
                    if executed && !selftest && quirk_count.is_none() && !pred.mergeable_inlist_columns(false).is_empty() {
                        // count_rows of a filter hit by the shared in-list rewrite: DataFusion's full pipeline tells
                        if let Ok(b) = df.ids_where_full_sql(&sql).await {
                            if b != ids && ids.is_subset(&b) {
                                let cols = pred.mergeable_inlist_columns(false);
                                if b.difference(&ids).all(|id| m.rows.get(id).map(|r| cols.iter().any(|c| r[*c].is_null())).unwrap_or(false)) {
                                    quirk_count = Some(b.len());
                                }
                            }
                        }
                    }
                    // a count that exceeds the reference by at most the number of NULL-filter rows of merged in-lists
                    let null_merge_rows = null_rows_of_merged_inlists(&pred, m).len();
                    let count_in_null_range = |n: usize| null_merge_rows > 0 && n > ids.len() && n <= ids.len() + null_merge_rows;
                    if executed && !selftest {
                        let ck = Knobs::random(&mut rng);
                        match run_count(&tbl.ds, &q, &ck).await {
                            Ok(n) => {
                                report.count("count_rows_checked", 1);
                                if n as usize != ids.len() {
                                    report.violation(
                                        &(if quirk_count == Some(n as usize) || count_in_null_range(n as usize) { DF_NOT_IN_SIG.to_string() } else if coerce_count == Some(n as usize) { COERCE_SIG.to_string() } else { legacy_count_sig("count-rows-differs-from-result", stats_off_count_ok && ck.use_stats != Some(false)) }),
                                        &format!("Scanner::count_rows = {n}, reference/result = {}", ids.len()),
                                        witness(&ck, json!({"count": n, "expected": ids.len()})),
                                    );
                                }
                            }
                            Err(ScanErr::Rejected(_)) => {}
                            Err(ScanErr::Failed(e)) => {
                                report.violation("count-rows-failed", &e.chars().take(300).collect::<String>(), witness(&ck, json!({"error": e})));
                            }
                            Err(ScanErr::Timeout) => report.inconclusive("count_rows timed out"),
                        }
                        match guarded(tbl.ds.count_rows(Some(sql.clone()))).await {
                            Ok(n) => {
                                if n != ids.len() {
                                    report.violation(
                                        &(if quirk_count == Some(n) || count_in_null_range(n) { DF_NOT_IN_SIG.to_string() } else if coerce_count == Some(n) { COERCE_SIG.to_string() } else { legacy_count_sig("dataset-count-rows-differs-from-result", stats_off_count_ok) }),
                                        &format!("Dataset::count_rows = {n}, reference/result = {}", ids.len()),
                                        witness(&Knobs::default(), json!({"count": n, "expected": ids.len()})),
                                    );
                                }
                            }
                            Err(ScanErr::Failed(e)) => {
                                report.violation("count-rows-failed", &e.chars().take(300).collect::<String>(), witness(&Knobs::default(), json!({"error": e})));
                            }
                            _ => {}
                        }
                    }
                    report.case(if executed && nontrivial { Some(fnv_str(&qshape)) } else { None });
                    if executed {
                        report.count(if nontrivial { "selective_predicates" } else { "trivial_predicates" }, 1);
                        let pick_sample = rng.chance(1, 40); // drawn unconditionally: replay determinism
                        if nontrivial && pick_sample && report.want_sample() {
                            report.sample(json!({"table": tbl.desc, "filter": sql, "matching": ids.len(), "rows": m.len(),
                                "projection": q.projection, "limit": q.limit, "offset": q.offset, "order": q.order,
                                "knobs": knob_sets.iter().map(|k| k.describe()).collect::<Vec<_>>() }));
                        }
                    }
                }
            });
        }
    });
    if selftest {
        let (f, t) = (selftest_fired.load(AO::Relaxed), selftest_total.load(AO::Relaxed));
        println!("SELFTEST C16 oracle fired on {f} of {t} corrupted observations");
        return if t > 0 && f == t { 0 } else { 2 };
    }
    if args.tier == Tier::Thorough {
        report.set("tier_note", json!("thorough: larger tables, more queries per table"));
    }
    report.finish()
}
