//! C20 — inexact scalar indices (zone map, bloom filter, n-gram) never drop a matching row.
//!
//! (i) dataset level: scan with the index == scan without == reference, in every index state
//! (fresh, appended + optimize_indices, deletes, updates, compaction); (ii) index level: the index
//! object is opened through `DatasetIndexInternalExt::open_scalar_index` and `ScalarIndex::search`
//! must return a superset (AtMost / Exact) of the brute-force matching row addresses of the
//! fragments it covers.

use crate::c16::{coercion_sig, judge, quirk_sig, reference, Expected, RefOutcome};
use crate::c19::{lit_to_cell, IdxTable};
use crate::core::*;
use datafusion::scalar::ScalarValue;
use lance::index::DatasetIndexInternalExt;
use lance_encoding::version::LanceFileVersion;
use lance_index::metrics::NoOpMetricsCollector;
use lance_index::scalar::{AnyQuery, BloomFilterQuery, SargableQuery, ScalarIndexParams, SearchResult, TextQuery};
use lance_index::{DatasetIndexExt, IndexType};
use serde_json::json;
use std::collections::{BTreeMap, BTreeSet};
use std::ops::Bound;
use std::sync::atomic::{AtomicU64, Ordering as AO};
use std::sync::Arc;
use vmon::prng::{fnv_str, Rng};
use vmon::report::{Args, Report};
use vmon::table::IdAlloc;

#[derive(Clone, Copy, Debug, PartialEq)]
enum Kind {
    ZoneMap,
    Bloom,
    NGram,
}

impl Kind {
    fn name(&self) -> &'static str {
        match self {
            Kind::ZoneMap => "zonemap",
            Kind::Bloom => "bloomfilter",
            Kind::NGram => "ngram",
        }
    }
}

fn lit_to_scalar(ty: &ColTy, l: &Lit) -> Option<ScalarValue> {
    let c = if l.is_null() { return None } else { lit_to_cell_checked(ty, l)? };
    Some(match (ty, c) {
        (ColTy::I8, Cell::Int(v)) => ScalarValue::Int8(Some(v as i8)),
        (ColTy::I16, Cell::Int(v)) => ScalarValue::Int16(Some(v as i16)),
        (ColTy::I32, Cell::Int(v)) => ScalarValue::Int32(Some(v as i32)),
        (ColTy::I64, Cell::Int(v)) => ScalarValue::Int64(Some(v as i64)),
        (ColTy::U8, Cell::Int(v)) => ScalarValue::UInt8(Some(v as u8)),
        (ColTy::U16, Cell::Int(v)) => ScalarValue::UInt16(Some(v as u16)),
        (ColTy::U32, Cell::Int(v)) => ScalarValue::UInt32(Some(v as u32)),
        (ColTy::U64, Cell::Int(v)) => ScalarValue::UInt64(Some(v as u64)),
        (ColTy::Date32, Cell::Int(v)) => ScalarValue::Date32(Some(v as i32)),
        (ColTy::TsMicro, Cell::Int(v)) => ScalarValue::TimestampMicrosecond(Some(v as i64), None),
        (ColTy::F32, Cell::Float(v)) => ScalarValue::Float32(Some(v as f32)),
        (ColTy::F64, Cell::Float(v)) => ScalarValue::Float64(Some(v)),
        (ColTy::Utf8, Cell::Str(s)) => ScalarValue::Utf8(Some(s)),
        (ColTy::LargeUtf8, Cell::Str(s)) => ScalarValue::LargeUtf8(Some(s)),
        (ColTy::Bool, Cell::Bool(b)) => ScalarValue::Boolean(Some(b)),
        _ => return None,
    })
}

/// literal as a cell of the column type, None when it is not representable (out of range, float for int)
fn lit_to_cell_checked(ty: &ColTy, l: &Lit) -> Option<Cell> {
    match (class_of(ty), l) {
        (Class::Int, Lit::Int(i)) => {
            let (lo, hi) = int_bounds(ty);
            if *i < lo || *i > hi {
                return None;
            }
        }
        (Class::Int, Lit::Float(_)) => return None,
        _ => {}
    }
    Some(lit_to_cell(ty, l))
}

/// The index query object of a leaf predicate on column 1 (`x`), if the index kind accepts it.
fn leaf_query(kind: Kind, ty: &ColTy, p: &Pred) -> Option<Box<dyn AnyQuery>> {
    match (kind, p) {
        (Kind::NGram, Pred::Contains { col: 1, s }) => Some(Box::new(TextQuery::StringContains(s.clone()))),
        (Kind::NGram, _) => None,
        (_, Pred::IsNull { col: 1, neg: false }) => Some(match kind {
            Kind::Bloom => Box::new(BloomFilterQuery::IsNull()) as Box<dyn AnyQuery>,
            _ => Box::new(SargableQuery::IsNull()),
        }),
        (_, Pred::Cmp { col: 1, op: CmpOp::Eq, lit, .. }) => {
            let v = lit_to_scalar(ty, lit)?;
            Some(match kind {
                Kind::Bloom => Box::new(BloomFilterQuery::Equals(v)) as Box<dyn AnyQuery>,
                _ => Box::new(SargableQuery::Equals(v)),
            })
        }
        (_, Pred::In { col: 1, lits, neg: false }) => {
            let vs: Option<Vec<ScalarValue>> = lits.iter().map(|l| lit_to_scalar(ty, l)).collect();
            let vs = vs?;
            Some(match kind {
                Kind::Bloom => Box::new(BloomFilterQuery::IsIn(vs)) as Box<dyn AnyQuery>,
                _ => Box::new(SargableQuery::IsIn(vs)),
            })
        }
        (Kind::ZoneMap, Pred::Cmp { col: 1, op, lit, .. }) => {
            let v = lit_to_scalar(ty, lit)?;
            let q = match op {
                CmpOp::Lt => SargableQuery::Range(Bound::Unbounded, Bound::Excluded(v)),
                CmpOp::Le => SargableQuery::Range(Bound::Unbounded, Bound::Included(v)),
                CmpOp::Gt => SargableQuery::Range(Bound::Excluded(v), Bound::Unbounded),
                CmpOp::Ge => SargableQuery::Range(Bound::Included(v), Bound::Unbounded),
                _ => return None,
            };
            Some(Box::new(q))
        }
        (Kind::ZoneMap, Pred::Between { col: 1, lo, hi, neg: false }) => {
            let a = lit_to_scalar(ty, lo)?;
            let b = lit_to_scalar(ty, hi)?;
            Some(Box::new(SargableQuery::Range(Bound::Included(a), Bound::Included(b))))
        }
        _ => None,
    }
}

/// Emulation of the n-gram index tokenizer (lower case, ASCII folding, all 3-grams whose characters
/// are ASCII alphanumeric): does the query string produce at least one trigram?
fn has_alnum_trigram(s: &str) -> bool {
    let folded: Vec<char> = s
        .chars()
        .map(|c| match c {
            'é' | 'è' | 'ê' => 'e',
            'á' | 'à' | 'â' => 'a',
            c => c.to_ascii_lowercase(),
        })
        .collect();
    folded.windows(3).any(|w| w.iter().all(|c| c.is_ascii_alphanumeric()))
}

fn contains_leaves(p: &Pred, positive: bool, out: &mut Vec<(String, bool)>) {
    match p {
        Pred::Contains { s, .. } => out.push((s.clone(), positive)),
        Pred::Not(q) => contains_leaves(q, !positive, out),
        Pred::Is(q, k) => match k {
            IsKind::True | IsKind::NotFalse => contains_leaves(q, positive, out),
            _ => contains_leaves(q, !positive, out),
        },
        Pred::And(a, b) | Pred::Or(a, b) => {
            contains_leaves(a, positive, out);
            contains_leaves(b, positive, out);
        }
        _ => {}
    }
}

pub const AT_LEAST_SIG: &str = "index-at-least-result-read-as-exact-unguaranteed-rows-never-rechecked";
pub const PARTIAL_ZONE_SIG: &str = "zone-index-rows-between-full-zone-and-fragment-end-fall-into-next-fragments-zone";
pub const DELETED_ZONE_SIG: &str = "zone-index-trained-on-fragment-with-deleted-rows-has-shifted-zones";
pub const STABLE_ZONE_SIG: &str = "zone-index-with-stable-row-ids-returns-row-addresses";
pub const NGRAM_NO_TRIGRAM_SIG: &str = "ngram-query-of-3-or-more-bytes-without-alphanumeric-trigram-returns-no-rows";

struct Ctx<'a> {
    kind: Kind,
    stable: bool,
    zone: u64,
    addr: &'a BTreeMap<i64, u64>,
    frag_rows: &'a BTreeMap<u32, u64>,
    /// the history has a delete followed later by an index update (optimize_indices)
    delete_then_optimize: bool,
}

/// Narrow class of a deviation of an inexact index (dataset level or index level); None = unknown.
fn classify(cx: &Ctx, pred: &Pred, extra: &[i64], missing: &[i64]) -> Option<&'static str> {
    if !extra.is_empty() || missing.is_empty() {
        return None;
    }
    if cx.kind == Kind::NGram {
        let mut cl = vec![];
        contains_leaves(pred, true, &mut cl);
        // a positive contains() of >= 3 bytes that yields no trigram: the index answers "no rows"
        if cl.iter().any(|(s, pos)| *pos && s.len() >= 3 && !has_alnum_trigram(s)) {
            return Some(NGRAM_NO_TRIGRAM_SIG);
        }
        // AtLeast results: short needle (AtLeast(empty)) or NOT(contains) (complement of an AtMost)
        if cl.iter().any(|(s, pos)| !*pos || s.len() < 3) {
            return Some(AT_LEAST_SIG);
        }
        return None;
    }
    if cx.stable {
        return Some(STABLE_ZONE_SIG);
    }
    // every missing row lies behind the last full zone of its fragment, or in a later fragment than
    // one whose row count is not a multiple of the zone size (the zones after such a boundary hold
    // the statistics of rows shifted against the offsets they claim to cover)
    let in_tail = |id: &i64| -> bool {
        let Some(a) = cx.addr.get(id) else { return false };
        let (frag, off) = ((*a >> 32) as u32, *a & 0xffff_ffff);
        let Some(n) = cx.frag_rows.get(&frag) else { return false };
        (n % cx.zone != 0 && off >= n - n % cx.zone) || cx.frag_rows.iter().any(|(f, m)| *f < frag && m % cx.zone != 0)
    };
    if missing.iter().all(in_tail) {
        return Some(PARTIAL_ZONE_SIG);
    }
    if cx.delete_then_optimize {
        // zones are positioned by counting the rows streamed at training time: a fragment that has
        // deleted rows when it is indexed gets zones shifted against the physical offsets
        return Some(DELETED_ZONE_SIG);
    }
    // NOT over an AtMost result is an AtLeast result
    let mut neg = vec![];
    pred.negated_leaves(true, &mut neg);
    if neg.iter().any(|(_, c)| *c == 1) {
        return Some(AT_LEAST_SIG);
    }
    None
}

pub fn run(args: &Args) -> i32 {
    let selftest = args.extra.contains_key("selftest");
    let report = Report::new(
        args,
        "exploration",
        "case = (column type, inexact index kind with random parameters, history of index states, predicate); dataset level: scan with index == without == reference; \
         index level: ScalarIndex::search of every index delta must cover all brute-force matching row addresses of the fragments it covers. \
         distinct = hash(index kind, column type, state kind, predicate shape); non-trivial = the plan shows a scalar index node (dataset level) or the index accepted the query (index level), and the predicate selects neither 0 nor all rows",
        (75, 900),
    )
    .with_min_nontrivial(20);
    let threads = n_threads();
    // quick: fixed case set per seed (deterministic; the time budget is only a safety net)
    let max_cases: u64 = args.tier.pick(1100, 300_000);
    let preds_per_state = args.tier.pick(12, 30);
    let max_rows = args.tier.pick(300, 1500);
    let next = AtomicU64::new(0);
    let only_case: Option<u64> = args.extra.get("case").and_then(|s| s.parse().ok());
    let st_fired = AtomicU64::new(0);
    let st_total = AtomicU64::new(0);

    run_threads(threads, |_t, rt| loop {
        let mut case = next.fetch_add(1, AO::Relaxed);
        if let Some(c) = only_case {
            if case > 0 {
                break;
            }
            case = c;
        }
        if (only_case.is_none() && case >= max_cases) || !report.time_left() {
            break;
        }
        let mut rng = Rng::for_case(args.seed, case);
        rt.block_on(async {
            let kind = *rng.pick(&[Kind::ZoneMap, Kind::ZoneMap, Kind::Bloom, Kind::NGram]);
            let xty = match kind {
                Kind::NGram => rng.pick(&[ColTy::Utf8, ColTy::LargeUtf8]).clone(),
                _ => rng.pick(&query_pool()).clone(),
            };
            let yty = rng.pick(&query_pool()).clone();
            let spec = TableSpec {
                cols: vec![
                    ColSpec {
                        name: "x".into(),
                        ty: xty.clone(),
                        nullable: rng.chance(3, 4),
                        null_eighths: *rng.pick(&[0u8, 1, 2, 4, 7]),
                        small_domain: if kind == Kind::NGram { rng.chance(1, 3) } else { rng.chance(1, 2) },
                    },
                    ColSpec { name: "y".into(), ty: yty.clone(), nullable: rng.chance(1, 2), null_eighths: *rng.pick(&[0u8, 1, 4]), small_domain: true },
                ],
            };
            let version = *rng.pick(&[LanceFileVersion::V2_0, LanceFileVersion::V2_1]);
            let nfrag = rng.urange(1, 3);
            let total = rng.urange(20, max_rows);
            let mut ids = IdAlloc::new(0);
            let mut model = Model::new(&spec);
            let mut frags = vec![];
            for _ in 0..nfrag {
                let b = spec.batch(&mut rng, &ids.take((total / nfrag).max(1)));
                model.insert_batch(&b);
                frags.push(b);
            }
            // sorted data makes zone maps selective: sometimes sort x within a fragment
            let stable = rng.chance(1, 4);
            let ds = match write_table(&unique_uri("c20"), &frags, version, None, None, stable).await {
                Ok(d) => d,
                Err(e) => {
                    op_failed(&report, &format!("case {case}: write: {e}"));
                    return;
                }
            };
            let mut t = IdxTable { ds, model, spec: spec.clone(), ids, version, history: vec![], stable_row_ids: stable, updated_ids: BTreeSet::new(), old_versions: vec![] };
            let mut zone_size = 1u64;
            let (index_type, params, pdesc) = match kind {
                Kind::ZoneMap => {
                    let r = *rng.pick(&[1u64, 2, 3, 7, 16, 64, 1000, 8192]);
                    zone_size = r;
                    (IndexType::ZoneMap, ScalarIndexParams { index_type: "zonemap".into(), params: Some(json!({"rows_per_zone": r}).to_string()) }, format!("rows_per_zone={r}"))
                }
                Kind::Bloom => {
                    let n = *rng.pick(&[8u64, 64, 1024, 8192]);
                    zone_size = n;
                    let p = *rng.pick(&[0.3f64, 0.1, 0.01, 0.00057]);
                    (
                        IndexType::BloomFilter,
                        ScalarIndexParams { index_type: "bloomfilter".into(), params: Some(json!({"number_of_items": n, "probability": p}).to_string()) },
                        format!("number_of_items={n},probability={p}"),
                    )
                }
                Kind::NGram => (IndexType::NGram, ScalarIndexParams { index_type: "ngram".into(), params: None }, String::new()),
            };
            match guarded(t.ds.create_index(&["x"], index_type, Some("x_idx".into()), &params, true)).await {
                Ok(()) => {}
                Err(e) => {
                    report.rejected();
                    report.count("index_creation_rejected", 1);
                    if report.counter("index_creation_rejected") <= 3 {
                        report.sample(json!({"index_rejected": format!("{} on {:?} ({pdesc})", kind.name(), xty), "error": format!("{e:?}").chars().take(200).collect::<String>()}));
                    }
                    return;
                }
            }
            report.count("tables", 1);
            report.count(&format!("tables_{}", kind.name()), 1);
            let table_desc = format!("x:{:?}{} [{} {}] y:{:?} v={} stable_row_ids={}", xty, if spec.cols[0].nullable { "?" } else { "" }, kind.name(), pdesc, yty, storage_version_name(version), stable);
            let nstates = rng.urange(1, 4);
            for state in 0..nstates {
                if !report.time_left() {
                    break;
                }
                if state > 0 {
                    let op = rng.below(6);
                    let n_app = rng.urange(3, 80);
                    let r = match op {
                        0 => t.append(&mut rng, n_app).await,
                        1 => t.delete_some(&mut rng).await,
                        2 => t.update_some(&mut rng, 1).await,
                        3 => {
                            // ordinary compaction only (deferred remap is C19's subject)
                            let before = t.history.len();
                            let r = t.compact(&mut rng).await;
                            if t.history.len() > before && t.history.last().map(|h| h.starts_with("compact(defer=true")).unwrap_or(false) {
                                // keep the class out of this check: stop the case here
                                return;
                            }
                            r
                        }
                        4 => t.optimize(&mut rng).await,
                        _ => {
                            let a = t.append(&mut rng, n_app).await;
                            if a.is_ok() {
                                t.optimize(&mut rng).await
                            } else {
                                a
                            }
                        }
                    };
                    if let Err(e) = r {
                        report.count("history_op_failed", 1);
                        op_failed(&report, &format!("case {case}: history op failed: {e}; table {table_desc}; history {:?}", t.history));
                        return;
                    }
                }
                let state_kind = t.history.last().map(|s| s.split('(').next().unwrap().to_string()).unwrap_or_else(|| "fresh".into());
                report.count(&format!("state_{state_kind}"), 1);
                let m = &t.model;
                let df = match DfRef::new(m.to_batch()) {
                    Ok(d) => d,
                    Err(e) => {
                        op_failed(&report, &format!("case {case}: datafusion reference: {e}"));
                        return;
                    }
                };
                // id -> row address, fragment coverage of the index deltas
                let addr: BTreeMap<i64, u64> = match run_scan(&t.ds, &Query { projection: Some(vec!["id".into()]), ..Default::default() }, &Knobs { with_row_addr: true, ..Default::default() }).await {
                    Ok(out) => {
                        let (ki, ka) = (out.col("id"), out.col("_rowaddr"));
                        match (ki, ka) {
                            (Some(ki), Some(ka)) => out.rows.iter().filter_map(|r| Some((r[ki].as_i64()?, r[ka].as_i64()? as u64))).collect(),
                            _ => BTreeMap::new(),
                        }
                    }
                    Err(_) => BTreeMap::new(),
                };
                let metas = t.ds.load_indices_by_name("x_idx").await.unwrap_or_default();
                let frag_rows: BTreeMap<u32, u64> =
                    t.ds.get_fragments().iter().map(|f| (f.id() as u32, f.metadata().physical_rows.unwrap_or(0) as u64)).collect();
                let delete_then_optimize = {
                    // (an UPDATE deletes the old versions of the rows it rewrites)
                    let d = t.history.iter().position(|h| h.starts_with("delete(") || h.starts_with("update("));
                    d.map(|d| t.history[d + 1..].iter().any(|h| h.starts_with("optimize("))).unwrap_or(false)
                };
                let cx = Ctx { kind, stable: t.stable_row_ids, zone: zone_size.max(1), addr: &addr, frag_rows: &frag_rows, delete_then_optimize };
                let gen = PredGen::new(
                    m,
                    GenCfg {
                        cols: vec![0, 1, 2],
                        focus: vec![1],
                        max_depth: 2,
                        hostile_literals: true,
                        allow_colcmp: false,
                        contains_cols: if kind == Kind::NGram { vec![1] } else { vec![] },
                    },
                );
                for pi in 0..preds_per_state {
                    if !report.time_left() {
                        break;
                    }
                    let pred = if rng.chance(3, 5) { gen.leaf(&mut rng) } else { gen.gen_top(&mut rng) };
                    let sql = pred.sql(&m.cols);
                    let ids_exp = match reference(&pred, &sql, m, &df).await {
                        RefOutcome::Ok { ids, float_disagree, .. } => {
                            if float_disagree {
                                report.count("float_special_decided_by_datafusion", 1);
                            }
                            ids
                        }
                        RefOutcome::HarnessError(e) => {
                            op_failed(&report, &format!("case {case} state {state} p{pi}: {e}; table {table_desc}"));
                            continue;
                        }
                    };
                    let selective = !ids_exp.is_empty() && ids_exp.len() < m.len();
                    let witness = |what: &str, detail: serde_json::Value| {
                        json!({"seed": args.seed, "case": case, "state": state, "pred_index": pi, "table": table_desc, "history": t.history, "filter": sql, "run": what, "rows": m.len(), "detail": detail})
                    };
                    // ---- (ii) index level
                    let mut index_level = false;
                    if !t.stable_row_ids && !addr.is_empty() {
                        if let Some(query) = leaf_query(kind, &xty, &pred) {
                            for meta in &metas {
                                let idx = match guarded(t.ds.open_scalar_index("x", &meta.uuid.to_string(), &NoOpMetricsCollector)).await {
                                    Ok(i) => i,
                                    Err(e) => {
                                        report.count("index_open_failed", 1);
                                        if report.counter("index_open_failed") <= 2 {
                                            report.sample(json!({"index_open_failed": format!("{e:?}").chars().take(200).collect::<String>(), "table": table_desc}));
                                        }
                                        continue;
                                    }
                                };
                                let res = match guarded(idx.search(query.as_ref(), &NoOpMetricsCollector)).await {
                                    Ok(r) => r,
                                    Err(ScanErr::Rejected(_)) => {
                                        report.count("index_level_query_rejected", 1);
                                        continue;
                                    }
                                    Err(e) => {
                                        if !selftest {
                                            report.violation(
                                                &format!("{}-index-search-failed", kind.name()),
                                                &format!("{e:?}").chars().take(300).collect::<String>(),
                                                witness("index-level", json!({"error": format!("{e:?}")})),
                                            );
                                        }
                                        continue;
                                    }
                                };
                                index_level = true;
                                report.count("index_level_searches", 1);
                                let covered = |a: u64| meta.fragment_bitmap.as_ref().map(|b| b.contains((a >> 32) as u32)).unwrap_or(true);
                                let matching: Vec<(i64, u64)> = ids_exp.iter().filter_map(|id| addr.get(id).map(|a| (*id, *a))).filter(|(_, a)| covered(*a)).collect();
                                let (label, set) = match &res {
                                    SearchResult::Exact(s) => ("exact", s),
                                    SearchResult::AtMost(s) => ("at_most", s),
                                    SearchResult::AtLeast(s) => ("at_least", s),
                                };
                                report.count(&format!("index_level_result_{label}"), 1);
                                report.count("rows_compared", matching.len() as u64);
                                let mut missed: Vec<i64> = match &res {
                                    SearchResult::Exact(_) | SearchResult::AtMost(_) => matching.iter().filter(|(_, a)| !set.contains(*a)).map(|(id, _)| *id).collect(),
                                    SearchResult::AtLeast(_) => vec![],
                                };
                                if selftest {
                                    if selective && !matching.is_empty() {
                                        // corrupt the observation: pretend the index result is empty
                                        st_total.fetch_add(1, AO::Relaxed);
                                        missed = matching.iter().map(|(id, _)| *id).collect();
                                        if !missed.is_empty() {
                                            st_fired.fetch_add(1, AO::Relaxed);
                                        }
                                    }
                                    continue;
                                }
                                if !missed.is_empty() {
                                    let rows: Vec<String> = missed.iter().take(5).map(|i| vmon::table::render_row(&m.rows[i])).collect();
                                    let sig = classify(&cx, &pred, &[], &missed).map(|s| s.to_string()).unwrap_or_else(|| format!("{}-index-search-misses-matching-rows", kind.name()));
                                    report.violation(
                                        &sig,
                                        &format!("{} search ({label}) of delta {} misses {} of {} matching rows of its fragments", kind.name(), meta.uuid, missed.len(), matching.len()),
                                        witness("index-level", json!({"missed_ids": trunc(&missed, 20), "missed_rows": rows, "fragments": meta.fragment_bitmap.as_ref().map(|b| b.iter().collect::<Vec<_>>())})),
                                    );
                                }
                                if let SearchResult::AtLeast(s) | SearchResult::Exact(s) = &res {
                                    // rows claimed to match for sure must match
                                    let live: BTreeMap<u64, i64> = addr.iter().map(|(i, a)| (*a, *i)).collect();
                                    let wrong: Vec<i64> = live.iter().filter(|(a, i)| covered(**a) && s.contains(**a) && !ids_exp.contains(i)).map(|(_, i)| *i).take(20).collect();
                                    if !wrong.is_empty() {
                                        report.violation(
                                            &format!("{}-index-search-claims-non-matching-rows", kind.name()),
                                            &format!("{label} result contains {} live rows that do not match", wrong.len()),
                                            witness("index-level", json!({"wrong_ids": wrong})),
                                        );
                                    }
                                }
                            }
                        }
                    }
                    // ---- (i) dataset level
                    let exp = Expected { set: ids_exp.clone(), seq: None, limit: None, offset: None };
                    let q = Query { filter: Some(sql.clone()), ..Default::default() };
                    let k_idx = Knobs { use_scalar_index: Some(true), ..Default::default() };
                    let k_no = Knobs { use_scalar_index: Some(false), ..Default::default() };
                    let plan = explain(&t.ds, &q, &k_idx).await;
                    let uses_index = plan.as_ref().map(|p| p.contains("ScalarIndexQuery") || p.contains("MaterializeIndex")).unwrap_or(false);
                    let mut executed = false;
                    let mut noindex_conforms = false;
                    for (label, knobs) in [("noindex", &k_no), ("index", &k_idx)] {
                        match run_scan(&t.ds, &q, knobs).await {
                            Ok(out) => {
                                executed = true;
                                report.count("scans", 1);
                                report.count("rows_compared", out.rows.len() as u64);
                                if selftest {
                                    continue;
                                }
                                let verdict = judge(&out, &exp, m);
                                if label == "noindex" && verdict.is_none() {
                                    noindex_conforms = true;
                                }
                                if let Some(v) = verdict {
                                    let got: BTreeSet<i64> = out.ids().into_iter().collect();
                                    let (extra, missing) = set_diff(&got, &ids_exp);
                                    let shared_q = if noindex_conforms { None } else { quirk_sig(&got, &ids_exp, &pred, &sql, m, &df).await };
                                    let shared_c = if noindex_conforms || shared_q.is_some() { None } else { coercion_sig(&got, &ids_exp, &pred, &sql, m, &df).await };
                                    let sig = if let Some(qs) = shared_q {
                                        qs.to_string()
                                    } else if let Some(cs) = shared_c {
                                        cs.to_string()
                                    } else if label == "noindex" {
                                        format!("noindex-{}", v.sig)
                                    } else if let Some(c) = classify(&cx, &pred, &extra, &missing) {
                                        c.to_string()
                                    } else if t.stable_row_ids && !t.updated_ids.is_empty() && extra.iter().chain(missing.iter()).all(|i| t.updated_ids.contains(i)) {
                                        // same root cause as C19: optimize_indices keeps the old entry of an updated row
                                        "index-stale-entry-after-update-with-stable-row-ids".to_string()
                                    } else {
                                        format!("{}-{}", kind.name(), v.sig)
                                    };
                                    let show = |ids: &[i64]| -> Vec<String> { ids.iter().take(5).map(|i| m.rows.get(i).map(vmon::table::render_row).unwrap_or_default()).collect() };
                                    report.violation(
                                        &sig,
                                        &format!("{label}: {} (plan uses index: {uses_index})", v.what),
                                        witness(label, json!({"detail": v.detail, "extra_rows": show(&extra), "missing_rows": show(&missing),
                                            "plan": plan.as_ref().map(|p| p.chars().take(500).collect::<String>()).unwrap_or_default()})),
                                    );
                                }
                            }
                            Err(ScanErr::Rejected(_)) => {
                                if label == "index" {
                                    report.rejected();
                                }
                            }
                            Err(ScanErr::Failed(e)) => {
                                if !selftest {
                                    let sig = if crate::c19::is_rowids_panic(&e) && t.stable_row_ids && label != "noindex" {
                                        crate::c19::ROWIDS_PANIC_SIG.to_string()
                                    } else {
                                        format!("{}-{}-scan-failed", kind.name(), label)
                                    };
                                    report.violation(&sig, &format!("{label}: {}", e.chars().take(300).collect::<String>()), witness(label, json!({"error": e})));
                                }
                            }
                            Err(ScanErr::Timeout) => report.inconclusive(&format!("case {case}: scan timed out")),
                        }
                    }
                    let nontrivial = selective && ((executed && uses_index) || index_level);
                    if executed && uses_index {
                        report.count("plans_using_index", 1);
                    }
                    if selective {
                        report.count("selective_predicates", 1);
                    }
                    let shape = format!("{}|{:?}|{}|{}", kind.name(), xty, state_kind, pred.shape(&m.cols));
                    report.case(if nontrivial { Some(fnv_str(&shape)) } else { None });
                    let pick = rng.chance(1, 60);
                    if nontrivial && pick && report.want_sample() {
                        report.sample(json!({"table": table_desc, "history": t.history, "filter": sql, "matching": ids_exp.len(), "rows": m.len(), "index_level_checked": index_level,
                            "plan": plan.as_ref().map(|p| p.lines().take(3).collect::<Vec<_>>().join(" / ")).unwrap_or_default()}));
                    }
                }
            }
        });
    });
    if selftest {
        let (f, t) = (st_fired.load(AO::Relaxed), st_total.load(AO::Relaxed));
        println!("SELFTEST C20 oracle fired on {f} of {t} corrupted observations");
        return if t > 0 && f == t { 0 } else { 2 };
    }
    let _ = Arc::new(0);
    report.finish()
}
