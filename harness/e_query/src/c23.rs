//! C23 — full-text search matches the tokenised documents.
//!
//! Case = small-vocabulary corpus (8-20 words incl. unicode and mixed case, empty and NULL
//! documents, punctuation between words) with an inverted index configured without stemming /
//! stop words / ascii folding (base tokenizer simple or whitespace, lower_case), a history
//! (appends left unindexed, deletes, optimize_indices, compaction) and term / OR / AND / phrase
//! queries. Oracle = own tokenizer model + match-set evaluation; scores must be non-increasing.

use crate::core::*;
use arrow_array::{Float32Array, Int64Array, RecordBatch, StringArray};
use arrow_schema::{DataType, Field, Schema};
use futures::TryStreamExt;
use lance::dataset::optimize::{compact_files, CompactionOptions};
use lance::dataset::{WriteMode, WriteParams};
use lance::Dataset;
use lance_encoding::version::LanceFileVersion;
use lance_index::optimize::OptimizeOptions;
use lance_index::scalar::inverted::query::{FtsQuery, MatchQuery, Operator, PhraseQuery};
use lance_index::scalar::{FullTextSearchQuery, InvertedIndexParams};
use lance_index::{DatasetIndexExt, IndexType};
use serde_json::json;
use std::collections::{BTreeMap, BTreeSet};
use std::sync::atomic::{AtomicU64, Ordering as AO};
use std::sync::Arc;
use vmon::prng::{fnv_str, Rng};
use vmon::report::{Args, Report};

const WORDS: &[&str] = &[
    "lance", "data", "Index", "vector", "scan", "Alpha", "beta", "zeta", "x", "ab", "日本", "東京", "é", "über", "ΑΒΓ", "42", "a1", "fast", "row", "Lance",
];

/// model of the configured tokenizer: base simple (split on non-alphanumeric) or whitespace (split
/// on ASCII whitespace), then lower case; no stemming, stop words, folding or length limit
fn tokenize(base: &str, s: &str) -> Vec<String> {
    let parts: Vec<&str> = if base == "simple" {
        s.split(|c: char| !c.is_alphanumeric()).collect()
    } else {
        s.split(|c: char| c.is_ascii_whitespace()).collect()
    };
    parts.into_iter().filter(|p| !p.is_empty()).map(|p| p.to_lowercase()).collect()
}

#[derive(Clone, Debug)]
enum Q {
    Or(Vec<String>),
    And(Vec<String>),
    Phrase(Vec<String>),
}

fn matches(q: &Q, base: &str, doc: &[String]) -> bool {
    let toks = |ws: &Vec<String>| -> Vec<String> { tokenize(base, &ws.join(" ")) };
    match q {
        Q::Or(ws) => toks(ws).iter().any(|t| doc.contains(t)),
        Q::And(ws) => {
            let t = toks(ws);
            !t.is_empty() && t.iter().all(|t| doc.contains(t))
        }
        Q::Phrase(ws) => {
            let t = toks(ws);
            !t.is_empty() && doc.windows(t.len()).any(|w| w == t.as_slice())
        }
    }
}

pub const AND_AS_OR_SIG: &str = "fts-and-query-evaluated-as-or-on-unindexed-rows";
pub const AND_ABSENT_SIG: &str = "fts-and-query-ignores-terms-absent-from-the-index";
pub const PHRASE_UNINDEXED_SIG: &str = "fts-phrase-query-ignores-unindexed-rows";
pub const PHRASE_POS_SIG: &str = "fts-phrase-query-misses-match-when-a-phrase-term-also-occurs-earlier";

/// the document matches the phrase, but before the first match some phrase token occurs at a
/// position that puts it "behind" the alignment (relative position smaller than the match's)
fn phrase_behind(q: &[String], doc: &[String]) -> bool {
    if q.is_empty() {
        return false;
    }
    let Some(m) = (0..doc.len().saturating_sub(q.len() - 1)).find(|i| doc[*i..*i + q.len()] == *q) else { return false };
    q.iter().enumerate().any(|(k, t)| doc.iter().enumerate().any(|(p, d)| d == t && (p as i64 - k as i64) < m as i64))
}

pub fn run(args: &Args) -> i32 {
    let selftest = args.extra.contains_key("selftest");
    let report = Report::new(
        args,
        "exploration",
        "case = (corpus over a 8-20 word vocabulary incl. unicode / mixed case / punctuation, empty and NULL documents; inverted index: base tokenizer simple|whitespace, lower_case, no stemming / stop words / folding, positions; \
         history: unindexed appends, deletes, optimize_indices, compaction; query: single term, multi-term OR, AND, phrase; optional limit). Oracle = tokenizer model and match-set evaluation. \
         distinct = hash(tokenizer, history kind, query kind and length, limit); non-trivial = the query matches neither 0 nor all live documents",
        (75, 900),
    )
    .with_min_nontrivial(20);
    let threads = n_threads();
    // quick: fixed case set per seed (deterministic; the time budget is only a safety net)
    let max_cases: u64 = args.tier.pick(2000, 300_000);
    let queries_per_state = args.tier.pick(10, 24);
    let next = AtomicU64::new(0);
    let only_case: Option<u64> = args.extra.get("case").and_then(|s| s.parse().ok());
    let st_fired = AtomicU64::new(0);
    let st_total = AtomicU64::new(0);

    run_threads(threads, |_t, rt| loop {
        let mut case = next.fetch_add(1, AO::Relaxed);
        if let Some(c) = only_case {
            if case > 0 {
                break;
            }
            case = c;
        }
        if (only_case.is_none() && case >= max_cases) || !report.time_left() {
            break;
        }
        let mut rng = Rng::for_case(args.seed, case);
        rt.block_on(async {
            let base = *rng.pick(&["simple", "simple", "whitespace"]);
            let nvocab = rng.urange(8, 20);
            let vocab: Vec<&str> = rng.sample_indices(WORDS.len(), nvocab).into_iter().map(|i| WORDS[i]).collect();
            let seps: &[&str] = if base == "simple" { &[" ", " ", ", ", "  ", "-", ". ", " / "] } else { &[" ", " ", "  ", "\t", " \n"] };
            let gen_doc = |rng: &mut Rng| -> Option<String> {
                match rng.below(14) {
                    0 => None,
                    1 => Some(String::new()),
                    2 => Some(" ".to_string()),
                    _ => {
                        let n = rng.urange(1, 9);
                        let mut s = String::new();
                        if rng.chance(1, 8) {
                            s.push(' ');
                        }
                        for i in 0..n {
                            if i > 0 {
                                s.push_str(*rng.pick(seps));
                            }
                            let w = *rng.pick(&vocab);
                            // random case variation
                            if rng.chance(1, 6) {
                                s.push_str(&w.to_uppercase());
                            } else {
                                s.push_str(w);
                            }
                        }
                        if base == "simple" && rng.chance(1, 6) {
                            s.push('!');
                        }
                        Some(s)
                    }
                }
            };
            let schema = Arc::new(Schema::new(vec![Field::new("id", DataType::Int64, false), Field::new("doc", DataType::Utf8, true)]));
            let mut next_id = 0i64;
            let mut model: BTreeMap<i64, Option<String>> = BTreeMap::new();
            let mk = |rows: &[(i64, Option<String>)]| -> RecordBatch {
                RecordBatch::try_new(
                    schema.clone(),
                    vec![
                        Arc::new(Int64Array::from(rows.iter().map(|r| r.0).collect::<Vec<_>>())),
                        Arc::new(StringArray::from(rows.iter().map(|r| r.1.clone()).collect::<Vec<_>>())),
                    ],
                )
                .unwrap()
            };
            let version = *rng.pick(&[LanceFileVersion::V2_0, LanceFileVersion::V2_1]);
            let nfrag = rng.urange(1, 3);
            let total = rng.urange(10, args.tier.pick(300, 1500));
            let mut ds: Option<Dataset> = None;
            for f in 0..nfrag {
                let rows: Vec<(i64, Option<String>)> = (0..(total / nfrag).max(1))
                    .map(|_| {
                        let r = (next_id, gen_doc(&mut rng));
                        next_id += 1;
                        r
                    })
                    .collect();
                let b = mk(&rows);
                let p = WriteParams { mode: if f == 0 { WriteMode::Create } else { WriteMode::Append }, data_storage_version: Some(version), ..Default::default() };
                let res = match ds.as_mut() {
                    None => Dataset::write(reader_of(vec![b]), &unique_uri("c23"), Some(p)).await.map(Some),
                    Some(d) => d.append(reader_of(vec![b]), Some(p)).await.map(|_| None),
                };
                match res {
                    Ok(Some(d)) => ds = Some(d),
                    Ok(None) => {}
                    Err(e) => {
                        op_failed(&report, &format!("case {case}: write: {e}"));
                        return;
                    }
                }
                model.extend(rows);
            }
            let mut ds = ds.unwrap();
            let params = InvertedIndexParams::default()
                .base_tokenizer(base.to_string())
                .lower_case(true)
                .stem(false)
                .remove_stop_words(false)
                .ascii_folding(false)
                .max_token_length(None)
                .with_position(true);
            if let Err(e) = guarded(ds.create_index(&["doc"], IndexType::Inverted, Some("doc_idx".into()), &params, true)).await {
                op_failed(&report, &format!("case {case}: create inverted index: {e:?}"));
                return;
            }
            let mut unindexed = false;
            let mut unindexed_ids: BTreeSet<i64> = BTreeSet::new();
            report.count("tables", 1);
            let table_desc = format!("tokenizer={base} vocab={} docs={} frags={nfrag} v={}", vocab.len(), model.len(), storage_version_name(version));
            let mut history: Vec<String> = vec![];
            let nstates = rng.urange(1, 3);
            for state in 0..nstates {
                if !report.time_left() {
                    break;
                }
                if state > 0 {
                    match rng.below(5) {
                        0 | 1 => {
                            let n = rng.urange(1, 40);
                            let rows: Vec<(i64, Option<String>)> = (0..n)
                                .map(|_| {
                                    let r = (next_id, gen_doc(&mut rng));
                                    next_id += 1;
                                    r
                                })
                                .collect();
                            let p = WriteParams { mode: WriteMode::Append, data_storage_version: Some(version), ..Default::default() };
                            if let Err(e) = guarded_op("append", ds.append(reader_of(vec![mk(&rows)]), Some(p))).await {
                                op_failed(&report, &format!("case {case}: {e}"));
                                return;
                            }
                            unindexed_ids.extend(rows.iter().map(|r| r.0));
                            model.extend(rows);
                            unindexed = true;
                            history.push(format!("append({n})"));
                        }
                        2 => {
                            let all: Vec<i64> = model.keys().copied().collect();
                            if all.len() > 4 {
                                let k = rng.urange(1, all.len() / 3);
                                let victims: Vec<i64> = rng.sample_indices(all.len(), k).into_iter().map(|i| all[i]).collect();
                                let del = format!("id IN ({})", victims.iter().map(|v| v.to_string()).collect::<Vec<_>>().join(","));
                                if let Err(e) = guarded_op("delete", ds.delete(&del)).await {
                                    op_failed(&report, &format!("case {case}: {e}"));
                                    return;
                                }
                                for v in victims {
                                    model.remove(&v);
                                }
                                history.push(format!("delete({k})"));
                            }
                        }
                        3 => {
                            let o = if rng.bool() { OptimizeOptions::append() } else { OptimizeOptions::merge(10) };
                            if let Err(e) = guarded_op("optimize_indices", ds.optimize_indices(&o)).await {
                                op_failed(&report, &format!("case {case}: {e}; history {history:?}"));
                                return;
                            }
                            unindexed = false;
                            unindexed_ids.clear();
                            history.push("optimize".into());
                        }
                        _ => {
                            let opts = CompactionOptions { target_rows_per_fragment: 100_000, materialize_deletions_threshold: 0.0, ..Default::default() };
                            match guarded(compact_files(&mut ds, opts, None)).await {
                                Ok(m) => history.push(format!("compact(-{}+{})", m.fragments_removed, m.fragments_added)),
                                Err(e) => {
                                    op_failed(&report, &format!("case {case}: compact: {e:?}"));
                                    return;
                                }
                            }
                        }
                    }
                }
                let state_kind = history.last().map(|s| s.split('(').next().unwrap().to_string()).unwrap_or_else(|| "fresh".into());
                let docs: BTreeMap<i64, Vec<String>> = model.iter().map(|(i, d)| (*i, d.as_ref().map(|s| tokenize(base, s)).unwrap_or_default())).collect();
                for qi in 0..queries_per_state {
                    if !report.time_left() {
                        break;
                    }
                    let word = |rng: &mut Rng| -> String {
                        let w = if rng.chance(1, 10) { *rng.pick(WORDS) } else { *rng.pick(&vocab) };
                        if rng.chance(1, 5) { w.to_uppercase() } else { w.to_string() }
                    };
                    let q = match rng.below(8) {
                        0 | 1 => Q::Or(vec![word(&mut rng)]),
                        2 | 3 => Q::Or((0..rng.urange(2, 4)).map(|_| word(&mut rng)).collect()),
                        4 | 5 => Q::And((0..rng.urange(2, 3)).map(|_| word(&mut rng)).collect()),
                        _ => {
                            // phrases taken from a document (so that some match), or random
                            let src: Vec<&Vec<String>> = docs.values().filter(|d| d.len() >= 2).collect();
                            if !src.is_empty() && rng.chance(2, 3) {
                                let d = *rng.pick(&src);
                                let a = rng.usize_below(d.len() - 1);
                                let len = rng.urange(2, 3).min(d.len() - a);
                                Q::Phrase(d[a..a + len].to_vec())
                            } else {
                                Q::Phrase((0..rng.urange(2, 3)).map(|_| word(&mut rng)).collect())
                            }
                        }
                    };
                    let limit: Option<i64> = if rng.chance(1, 4) { Some(rng.range(1, 12)) } else { None };
                    let expected: BTreeSet<i64> = docs.iter().filter(|(_, d)| matches(&q, base, d)).map(|(i, _)| *i).collect();
                    let (qkind, text) = match &q {
                        Q::Or(w) => ("or", w.join(" ")),
                        Q::And(w) => ("and", w.join(" ")),
                        Q::Phrase(w) => ("phrase", w.join(" ")),
                    };
                    let fts = match &q {
                        Q::Or(_) => FtsQuery::Match(MatchQuery::new(text.clone())),
                        Q::And(_) => FtsQuery::Match(MatchQuery::new(text.clone()).with_operator(Operator::And)),
                        Q::Phrase(_) => FtsQuery::Phrase(PhraseQuery::new(text.clone())),
                    };
                    let res = guarded(async {
                        let mut s = ds.scan();
                        let fq = FullTextSearchQuery::new_query(fts.clone()).with_column("doc".to_string())?.limit(limit);
                        s.full_text_search(fq)?;
                        s.project(&["id"])?;
                        let bs: Vec<RecordBatch> = s.try_into_stream().await?.try_collect().await?;
                        Ok(bs)
                    })
                    .await;
                    let witness = |detail: serde_json::Value| {
                        json!({"seed": args.seed, "case": case, "state": state, "query_index": qi, "table": table_desc, "history": history, "query_kind": qkind, "query": text, "limit": limit, "detail": detail})
                    };
                    let bs = match res {
                        Ok(b) => b,
                        Err(ScanErr::Rejected(e)) => {
                            report.rejected();
                            if report.counter("rejected_samples") < 3 {
                                report.count("rejected_samples", 1);
                                report.sample(json!({"rejected_query": format!("{qkind}: {text}"), "error": e.chars().take(200).collect::<String>()}));
                            }
                            report.case(None);
                            continue;
                        }
                        Err(ScanErr::Timeout) => {
                            report.inconclusive(&format!("case {case}: fts query timed out"));
                            continue;
                        }
                        Err(ScanErr::Failed(e)) => {
                            if !selftest {
                                report.violation(&format!("fts-{qkind}-query-failed"), &e.chars().take(300).collect::<String>(), witness(json!({"error": e})));
                            }
                            report.case(None);
                            continue;
                        }
                    };
                    let mut got: Vec<(i64, f32)> = vec![];
                    for b in &bs {
                        let ids = b.column_by_name("id").and_then(|c| c.as_any().downcast_ref::<Int64Array>().cloned());
                        let sc = b.column_by_name("_score").and_then(|c| c.as_any().downcast_ref::<Float32Array>().cloned());
                        if let Some(ids) = ids {
                            for i in 0..b.num_rows() {
                                got.push((ids.value(i), sc.as_ref().map(|s| s.value(i)).unwrap_or(f32::NAN)));
                            }
                        }
                    }
                    report.count("queries", 1);
                    report.count("rows_compared", got.len() as u64);
                    let nontrivial = !expected.is_empty() && expected.len() < model.len();
                    if selftest {
                        if nontrivial && got.pop().is_some() && limit.is_none() {
                            st_total.fetch_add(1, AO::Relaxed);
                            let g: BTreeSet<i64> = got.iter().map(|x| x.0).collect();
                            if g != expected {
                                st_fired.fetch_add(1, AO::Relaxed);
                            }
                        }
                        report.case(None);
                        continue;
                    }
                    let gset: BTreeSet<i64> = got.iter().map(|x| x.0).collect();
                    let mut problem: Option<(String, String)> = None;
                    if gset.len() != got.len() {
                        problem = Some((format!("fts-{qkind}-duplicate-row"), "a document is returned twice".into()));
                    } else if let Some(l) = limit {
                        let (extra, _) = set_diff(&gset, &expected);
                        let qt = tokenize(base, &text);
                        if !extra.is_empty() {
                            let and_as_or = qkind == "and" && extra.iter().all(|i| unindexed_ids.contains(i) && docs.get(i).map(|d| qt.iter().any(|t| d.contains(t))).unwrap_or(false));
                            let absent: Vec<&String> = qt.iter().filter(|t| !docs.iter().any(|(i, d)| !unindexed_ids.contains(i) && d.contains(*t))).collect();
                            let and_absent = qkind == "and" && !absent.is_empty()
                                && extra.iter().all(|i| docs.get(i).map(|d| qt.iter().filter(|t| !absent.contains(t)).all(|t| d.contains(t)) || (unindexed_ids.contains(i) && qt.iter().any(|t| d.contains(t)))).unwrap_or(false));
                            let sig = if and_absent { AND_ABSENT_SIG.to_string() } else if and_as_or { AND_AS_OR_SIG.to_string() } else { format!("fts-{qkind}-returns-non-matching-documents") };
                            problem = Some((sig, format!("{} returned documents do not match: ids {:?}", extra.len(), trunc(&extra, 5))));
                        } else if got.len() != expected.len().min(l as usize) {
                            // with fewer hits than the limit, the missing ones are known
                            let missing: Vec<i64> = expected.difference(&gset).copied().collect();
                            let sig = if qkind == "phrase" && got.len() < expected.len().min(l as usize) && missing.iter().filter(|i| !unindexed_ids.contains(i)).all(|i| phrase_behind(&qt, &docs[i])) && missing.iter().any(|i| unindexed_ids.contains(i)) {
                                PHRASE_UNINDEXED_SIG.to_string()
                            } else if qkind == "phrase" && got.len() < expected.len().min(l as usize) && missing.iter().all(|i| phrase_behind(&qt, &docs[i]) || unindexed_ids.contains(i)) {
                                PHRASE_POS_SIG.to_string()
                            } else {
                                format!("fts-{qkind}-limit-wrong-count")
                            };
                            problem = Some((sig, format!("returned {} documents, expected min(limit {l}, matches {})", got.len(), expected.len())));
                        }
                    } else if gset != expected {
                        let (extra, missing) = set_diff(&gset, &expected);
                        let qt = tokenize(base, &text);
                        let deleted_extra = !extra.is_empty() && extra.iter().all(|i| !model.contains_key(i));
                        // AND evaluated as OR by the flat search over unindexed rows
                        let and_as_or = qkind == "and" && missing.is_empty() && !extra.is_empty()
                            && extra.iter().all(|i| unindexed_ids.contains(i) && docs.get(i).map(|d| qt.iter().any(|t| d.contains(t))).unwrap_or(false));
                        // phrase queries never look at unindexed rows / lose matches behind an earlier occurrence of a term
                        let phrase_parts = qkind == "phrase" && extra.is_empty() && !missing.is_empty();
                        let all_unidx = missing.iter().all(|i| unindexed_ids.contains(i));
                        let all_explained = missing.iter().all(|i| unindexed_ids.contains(i) || phrase_behind(&qt, &docs[i]));
                        // AND: a term that occurs in no indexed document is dropped from the conjunction
                        let absent: Vec<&String> = qt.iter().filter(|t| !docs.iter().any(|(i, d)| !unindexed_ids.contains(i) && d.contains(*t))).collect();
                        let and_absent = qkind == "and" && missing.is_empty() && !extra.is_empty() && !absent.is_empty()
                            && extra.iter().all(|i| docs.get(i).map(|d| qt.iter().filter(|t| !absent.contains(t)).all(|t| d.contains(t)) || (unindexed_ids.contains(i) && qt.iter().any(|t| d.contains(t)))).unwrap_or(false));
                        let sig = if deleted_extra {
                            format!("fts-{qkind}-returns-deleted-documents")
                        } else if and_absent {
                            AND_ABSENT_SIG.to_string()
                        } else if and_as_or {
                            AND_AS_OR_SIG.to_string()
                        } else if phrase_parts && all_unidx {
                            PHRASE_UNINDEXED_SIG.to_string()
                        } else if phrase_parts && all_explained && missing.iter().all(|i| !unindexed_ids.contains(i)) {
                            PHRASE_POS_SIG.to_string()
                        } else if phrase_parts && all_explained {
                            format!("{PHRASE_UNINDEXED_SIG}+{PHRASE_POS_SIG}")
                        } else {
                            format!(
                                "fts-{qkind}-{}",
                                match (extra.is_empty(), missing.is_empty()) {
                                    (false, true) => "returns-non-matching-documents",
                                    (true, false) => "misses-matching-documents",
                                    _ => "wrong-documents",
                                }
                            )
                        };
                        let show = |ids: &[i64]| -> Vec<String> { ids.iter().take(4).map(|i| format!("{i}: {:?}", model.get(i).cloned().flatten())).collect() };
                        problem = Some((sig, format!("{} extra {} missing; extra {:?} missing {:?}", extra.len(), missing.len(), show(&extra), show(&missing))));
                    }
                    if problem.is_none() && got.windows(2).any(|w| w[0].1 < w[1].1) {
                        problem = Some((format!("fts-{qkind}-scores-not-descending"), "scores increase along the result".into()));
                    }
                    if let Some((sig, what)) = problem {
                        for one in sig.split('+') {
                            report.violation(one, &what, witness(json!({"returned": trunc(&got, 10), "expected": expected.len()})));
                        }
                    }
                    // BM25 calibration (measured, not enforced): fresh single index, no unindexed rows, no
                    // deletes, OR queries without limit. Reference: idf = ln((N-n+.5)/(n+.5)+1),
                    // (k1+1) f / (f + k1 (1 - b + b |d|/avgdl)), k1 = 1.2, b = 0.75.
                    if history.is_empty() && qkind == "or" && limit.is_none() && gset == expected && got.len() >= 2 {
                        let qt: BTreeSet<String> = tokenize(base, &text).into_iter().collect();
                        for (variant, count_all) in [("docs_with_tokens", false), ("all_rows", true)] {
                            let pop: Vec<&Vec<String>> = docs.values().filter(|d| count_all || !d.is_empty()).collect();
                            let n_docs = pop.len() as f64;
                            let avgdl = pop.iter().map(|d| d.len() as f64).sum::<f64>() / n_docs.max(1.0);
                            let score = |d: &Vec<String>| -> f64 {
                                qt.iter()
                                    .map(|t| {
                                        let n = pop.iter().filter(|x| x.contains(t)).count() as f64;
                                        if n == 0.0 {
                                            return 0.0;
                                        }
                                        let f = d.iter().filter(|x| *x == t).count() as f64;
                                        let idf = ((n_docs - n + 0.5) / (n + 0.5) + 1.0).ln();
                                        idf * (2.2 * f) / (f + 1.2 * (0.25 + 0.75 * d.len() as f64 / avgdl))
                                    })
                                    .sum()
                            };
                            let refs: Vec<f64> = got.iter().map(|(i, _)| score(&docs[i])).collect();
                            let order_ok = refs.windows(2).all(|w| w[0] >= w[1] - 1e-4 * (1.0 + w[1].abs()));
                            let values_ok = got.iter().zip(&refs).all(|((_, s), r)| ((*s as f64) - r).abs() <= 1e-3 * (1.0 + r.abs()));
                            report.count(&format!("bm25_{variant}_order_{}", if order_ok { "agrees" } else { "differs" }), 1);
                            report.count(&format!("bm25_{variant}_scores_{}", if values_ok { "agree" } else { "differ" }), 1);
                        }
                    }
                    let shape = format!(
                        "{base}|{state_kind}|{qkind}{}|{}|unindexed={unindexed}|v{}|m{}|{}",
                        tokenize(base, &text).len(),
                        limit.is_some(),
                        vocab.len(),
                        (expected.len() as f64).log2() as u32,
                        text.chars().any(|c| !c.is_ascii()) as u8 + 2 * text.chars().any(|c| c.is_uppercase()) as u8
                    );
                    report.case(if nontrivial { Some(fnv_str(&shape)) } else { None });
                    let pick = rng.chance(1, 50);
                    if nontrivial && pick && report.want_sample() {
                        report.sample(json!({"table": table_desc, "history": history, "query_kind": qkind, "query": text, "limit": limit, "matching": expected.len(), "docs": model.len(), "top": trunc(&got, 3)}));
                    }
                }
            }
        });
    });
    if selftest {
        let (f, t) = (st_fired.load(AO::Relaxed), st_total.load(AO::Relaxed));
        println!("SELFTEST C23 oracle fired on {f} of {t} corrupted observations");
        return if t > 0 && f * 100 >= t * 99 { 0 } else { 2 };
    }
    report.assume("tokenizer restricted to base simple|whitespace + lower_case (no stemming, stop words, ascii folding, length limit): the configurations whose behaviour is documented");
    report.assume("BM25 rank order is not enforced (only: scores non-increasing); see NOTES.md");
    report.finish()
}
