use arrow_array::*;
use arrow_schema::{DataType, Field, Schema};
use futures::TryStreamExt;
use lance::dataset::{UpdateBuilder, WriteParams};
use lance::Dataset;
use lance_index::optimize::OptimizeOptions;
use lance_index::scalar::{BuiltinIndexType, ScalarIndexParams};
use lance_index::{DatasetIndexExt, IndexType};
use std::sync::Arc;

fn mk(start: i64, n: usize) -> RecordBatch {
    let schema = Arc::new(Schema::new(vec![Field::new("id", DataType::Int64, false), Field::new("x", DataType::Int32, true)]));
    RecordBatch::try_new(
        schema,
        vec![
            Arc::new(Int64Array::from((start..start + n as i64).collect::<Vec<_>>())),
            Arc::new(Int32Array::from((0..n).map(|i| Some((i % 3) as i32)).collect::<Vec<_>>())),
        ],
    )
    .unwrap()
}

async fn q(ds: &Dataset, f: &str, idx: bool) -> Vec<i64> {
    let mut s = ds.scan();
    s.filter(f).unwrap();
    s.use_scalar_index(idx);
    let out: Vec<RecordBatch> = s.try_into_stream().await.unwrap().try_collect().await.unwrap();
    let mut v: Vec<i64> = out.iter().flat_map(|b| b.column(0).as_any().downcast_ref::<Int64Array>().unwrap().values().to_vec()).collect();
    v.sort();
    v
}

async fn check(ds: &Dataset, what: &str) {
    for f in ["x = 0", "x = 4", "x <> 0"] {
        let a = q(ds, f, true).await;
        let b = q(ds, f, false).await;
        println!("{what:28} {f:8} index={} noindex={} {}", a.len(), b.len(), if a == b { "ok".to_string() } else { format!("DIFF index-only {:?} noindex-only {:?}", a.iter().filter(|i| !b.contains(i)).collect::<Vec<_>>(), b.iter().filter(|i| !a.contains(i)).collect::<Vec<_>>()) });
    }
}

#[tokio::main]
async fn main() {
    let args: Vec<String> = std::env::args().collect();
    let stable = args.get(1).map(|s| s == "stable").unwrap_or(false);
    let ix = if args.get(2).map(|s| s == "bitmap").unwrap_or(false) { (IndexType::Bitmap, BuiltinIndexType::Bitmap) } else { (IndexType::BTree, BuiltinIndexType::BTree) };
    let p = WriteParams { enable_stable_row_ids: stable, ..Default::default() };
    let b = mk(0, 12);
    let schema = b.schema();
    let mut ds = Dataset::write(RecordBatchIterator::new(vec![Ok(b)], schema.clone()), "memory://probe3", Some(p.clone())).await.unwrap();
    ds.create_index(&["x"], ix.0, Some("x_idx".into()), &ScalarIndexParams::for_builtin(ix.1), true).await.unwrap();
    check(&ds, "fresh").await;
    let r = UpdateBuilder::new(Arc::new(ds.clone())).update_where("id IN (0, 3)").unwrap().set("x", "4").unwrap().build().unwrap().execute().await.unwrap();
    ds = r.new_dataset.as_ref().clone();
    check(&ds, "after update(0,3 -> 4)").await;
    ds.append(RecordBatchIterator::new(vec![Ok(mk(100, 6))], schema.clone()), Some(p.clone())).await.unwrap();
    check(&ds, "after append").await;
    ds.optimize_indices(&OptimizeOptions::append()).await.unwrap();
    check(&ds, "after optimize(append)").await;
    ds.optimize_indices(&OptimizeOptions::merge(10)).await.unwrap();
    check(&ds, "after optimize(merge)").await;
}
