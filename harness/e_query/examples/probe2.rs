use arrow_array::*;
use arrow_schema::{DataType, Field, Schema};
use futures::TryStreamExt;
use lance::dataset::optimize::{compact_files, CompactionOptions};
use lance::dataset::WriteParams;
use lance::Dataset;
use lance_index::optimize::OptimizeOptions;
use lance_index::scalar::{BuiltinIndexType, ScalarIndexParams};
use lance_index::{DatasetIndexExt, IndexType};
use std::sync::Arc;

fn mk(start: i64, n: usize) -> RecordBatch {
    let schema = Arc::new(Schema::new(vec![Field::new("id", DataType::Int64, false), Field::new("x", DataType::UInt64, true)]));
    RecordBatch::try_new(
        schema,
        vec![
            Arc::new(Int64Array::from((start..start + n as i64).collect::<Vec<_>>())),
            Arc::new(UInt64Array::from((0..n).map(|i| if i % 5 == 0 { None } else { Some((i % 7) as u64) }).collect::<Vec<_>>())),
        ],
    )
    .unwrap()
}

async fn show(ds: &Dataset, what: &str) {
    let idx = ds.load_indices().await;
    match idx {
        Ok(idx) => {
            let d: Vec<String> = idx.iter().map(|i| format!("{}:{:?}", i.name, i.fragment_bitmap.as_ref().map(|b| b.iter().collect::<Vec<_>>()))).collect();
            println!("{what}: v{} frags {:?} indices {:?}", ds.version().version, ds.get_fragments().iter().map(|f| f.id()).collect::<Vec<_>>(), d);
        }
        Err(e) => println!("{what}: load_indices ERR {e}"),
    }
}

#[tokio::main]
async fn main() {
    let stable: bool = std::env::args().nth(1).map(|s| s == "stable").unwrap_or(false);
    let p = WriteParams { enable_stable_row_ids: stable, ..Default::default() };
    let b = mk(0, 38);
    let schema = b.schema();
    let mut ds = Dataset::write(RecordBatchIterator::new(vec![Ok(b)], schema.clone()), "memory://probe2", Some(p.clone())).await.unwrap();
    ds.append(RecordBatchIterator::new(vec![Ok(mk(38, 38))], schema.clone()), Some(p.clone())).await.unwrap();
    if std::env::var("IX").map(|v| v == "btree").unwrap_or(false) {
        ds.append(RecordBatchIterator::new(vec![Ok(mk(1000, 17))], schema.clone()), Some(p.clone())).await.unwrap();
        ds.create_index(&["x"], IndexType::BTree, Some("x_idx".into()), &ScalarIndexParams::for_builtin(BuiltinIndexType::BTree), true).await.unwrap();
    } else {
        ds.create_index(&["x"], IndexType::Bitmap, Some("x_idx".into()), &ScalarIndexParams::for_builtin(BuiltinIndexType::Bitmap), true).await.unwrap();
    }
    show(&ds, "after create_index").await;
    ds.append(RecordBatchIterator::new(vec![Ok(mk(76, 20))], schema.clone()), Some(p.clone())).await.unwrap();
    show(&ds, "after append").await;
    ds.optimize_indices(&OptimizeOptions::new()).await.unwrap();
    show(&ds, "after optimize").await;
    let r = compact_files(&mut ds, CompactionOptions { target_rows_per_fragment: 50, defer_index_remap: true, ..Default::default() }, None).await;
    println!("compact: {:?}", r.map(|m| (m.fragments_removed, m.fragments_added)));
    if std::env::args().nth(2).map(|s| s == "then-normal").unwrap_or(false) {
        show(&ds, "after deferred compact").await;
        let cnt = |ds: Dataset, idx: bool| async move { let mut s = ds.scan(); s.filter("x >= 1").unwrap(); s.use_scalar_index(idx); let out: Vec<RecordBatch> = s.try_into_stream().await.unwrap().try_collect().await.unwrap(); out.iter().map(|b| b.num_rows()).sum::<usize>() };
        println!("x >= 1 after deferred: index {} noindex {}", cnt(ds.clone(), true).await, cnt(ds.clone(), false).await);
        let r = compact_files(&mut ds, CompactionOptions { target_rows_per_fragment: 100000, defer_index_remap: false, ..Default::default() }, None).await;
        println!("compact2: {:?}", r.map(|m| (m.fragments_removed, m.fragments_added)));
        show(&ds, "after normal compact").await;
        println!("x >= 1 after normal: index {} noindex {}", cnt(ds.clone(), true).await, cnt(ds.clone(), false).await);
    }
    let h = tokio::spawn(async move {
        show(&ds, "after compact").await;
        let mut s = ds.scan();
        s.filter("x >= 2").unwrap();
        let out: Vec<RecordBatch> = s.try_into_stream().await.unwrap().try_collect().await.unwrap();
        println!("scan rows {}", out.iter().map(|b| b.num_rows()).sum::<usize>());
    });
    println!("{:?}", h.await.map_err(|e| e.to_string()));
}
