use arrow_array::*;
use arrow_schema::{DataType, Field, Schema};
use datafusion::prelude::SessionContext;
use futures::TryStreamExt;
use lance::Dataset;
use std::sync::Arc;

#[tokio::main]
async fn main() {
    let schema = Arc::new(Schema::new(vec![
        Field::new("id", DataType::Int64, false),
        Field::new("x", DataType::UInt64, true),
        Field::new("z", DataType::Int64, true),
    ]));
    let b = RecordBatch::try_new(
        schema.clone(),
        vec![Arc::new(Int64Array::from(vec![0, 1, 2, 3, 4])), Arc::new(UInt64Array::from(vec![None, Some(0), Some(12), Some(5), Some(1099511627776)])),
        Arc::new(Int64Array::from(vec![None, Some(0), Some(12), Some(5), Some(1099511627776)]))],
    )
    .unwrap();
    let ctx = SessionContext::new();
    ctx.register_batch("t", b.clone()).unwrap();
    let ds = Dataset::write(RecordBatchIterator::new(vec![Ok(b)], schema.clone()), "memory://probe_in2", None).await.unwrap();
    for f in [
        "(x IN (1099511627776, 12, 0)) AND (NOT ((x IN (0, 9223372036854775807)) AND (id IS NOT NULL)))",
        "(x IN (1099511627776, 12, 0)) AND (x NOT IN (0, 9223372036854775807))",
        "(x IN (1099511627776, 12, 0)) AND (x NOT IN (0, 7))",
        "(z IN (1099511627776, 12, 0)) AND (z NOT IN (0, 7))",
        "(x IN (12, 0)) AND (x <> 0)",
        "(x IN (12, 0, 5, 6)) AND (x NOT IN (0, 1, 2, 3))",
    ] {
        let df = ctx.sql(&format!("SELECT id FROM t WHERE {f}")).await.unwrap().collect().await.unwrap();
        let ids: Vec<i64> = df.iter().flat_map(|b| b.column(0).as_any().downcast_ref::<Int64Array>().unwrap().values().to_vec()).collect();
        let mut s = ds.scan();
        s.filter(f).unwrap();
        let plan = s.explain_plan(false).await.unwrap();
        let out: Vec<RecordBatch> = s.try_into_stream().await.unwrap().try_collect().await.unwrap();
        let lids: Vec<i64> = out.iter().flat_map(|b| b.column(0).as_any().downcast_ref::<Int64Array>().unwrap().values().to_vec()).collect();
        println!("{f}\n   datafusion-sql={ids:?} lance={lids:?}\n   {}", plan.lines().last().unwrap_or("").trim());
    }
}
