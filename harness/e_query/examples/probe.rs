use arrow_array::*;
use arrow_schema::{DataType, Field, Schema};
use futures::TryStreamExt;
use lance::dataset::{WriteParams};
use lance::Dataset;
use lance_encoding::version::LanceFileVersion;
use std::sync::Arc;

#[tokio::main]
async fn main() {
    // legacy: empty string in nullable LargeUtf8
    for (ver, name) in [(LanceFileVersion::Legacy, "legacy"), (LanceFileVersion::V2_0, "2.0")] {
        let schema = Arc::new(Schema::new(vec![
            Field::new("id", DataType::Int64, false),
            Field::new("s", DataType::LargeUtf8, true),
            Field::new("u", DataType::Utf8, true),
            Field::new("i", DataType::Int64, true),
        ]));
        let b = RecordBatch::try_new(
            schema.clone(),
            vec![
                Arc::new(Int64Array::from(vec![0, 1, 2, 3])),
                Arc::new(LargeStringArray::from(vec![Some("a"), Some(""), Some("b"), Some("")])),
                Arc::new(StringArray::from(vec![Some("a"), Some(""), None, Some("")])),
                Arc::new(Int64Array::from(vec![None, Some(0), None, Some(5)])),
            ],
        )
        .unwrap();
        let r = RecordBatchIterator::new(vec![Ok(b)], schema.clone());
        let ds = Dataset::write(r, &format!("memory://probe_{name}"), Some(WriteParams { data_storage_version: Some(ver), ..Default::default() })).await.unwrap();
        for bs in [None, Some(1usize)] {
            let mut s = ds.scan();
            if let Some(x) = bs { s.batch_size(x); }
            let out: Vec<RecordBatch> = s.try_into_stream().await.unwrap().try_collect().await.unwrap();
            println!("--- {name} bs={bs:?}");
            println!("{}", arrow::util::pretty::pretty_format_batches(&out).unwrap());
        }
    }
}
