use arrow_array::*;
use arrow_schema::{DataType, Field, Schema};
use futures::TryStreamExt;
use lance::Dataset;
use lance_index::scalar::ScalarIndexParams;
use lance_index::{DatasetIndexExt, IndexType};
use std::sync::Arc;

async fn q(ds: &Dataset, f: &str, idx: bool) -> Vec<i64> {
    let mut s = ds.scan();
    s.filter(f).unwrap();
    s.use_scalar_index(idx);
    let out: Vec<RecordBatch> = s.try_into_stream().await.unwrap().try_collect().await.unwrap();
    let mut v: Vec<i64> = out.iter().flat_map(|b| b.column(0).as_any().downcast_ref::<Int64Array>().unwrap().values().to_vec()).collect();
    v.sort();
    v
}

#[tokio::main]
async fn main() {
    let kind = std::env::args().nth(1).unwrap_or("zonemap".into());
    let inf = f64::INFINITY;
    let nan = f64::NAN;
    let vals: Vec<Option<f64>> = vec![
        Some(1.0), Some(2.0), Some(3.0),        // zone 0
        Some(inf), None, None,                  // zone 1
        Some(nan), Some(5.0), None,             // zone 2
        Some(-inf), Some(nan), Some(inf),       // zone 3
        Some(-0.0), Some(0.0), Some(-0.0),      // zone 4
        Some(nan), Some(nan), None,             // zone 5
        None, None, None,                       // zone 6
        Some(7.0),                              // zone 7 (partial)
    ];
    let n = vals.len();
    let schema = Arc::new(Schema::new(vec![Field::new("id", DataType::Int64, false), Field::new("x", DataType::Float64, true), Field::new("b", DataType::Boolean, true)]));
    let bools: Vec<Option<bool>> = (0..n).map(|i| match i % 4 { 0 => Some(true), 1 => Some(false), 2 => None, _ => Some(true) }).collect();
    let b = RecordBatch::try_new(schema.clone(), vec![Arc::new(Int64Array::from((0..n as i64).collect::<Vec<_>>())), Arc::new(Float64Array::from(vals)), Arc::new(BooleanArray::from(bools))]).unwrap();
    let stable = std::env::args().nth(2).map(|s| s == "stable").unwrap_or(false);
    let p = lance::dataset::WriteParams { max_rows_per_file: 7, enable_stable_row_ids: stable, ..Default::default() };
    let mut ds = Dataset::write(RecordBatchIterator::new(vec![Ok(b)], schema.clone()), "memory://probe_z", Some(p)).await.unwrap();
    println!("fragments: {:?}", ds.get_fragments().iter().map(|f| (f.id(), f.metadata().physical_rows)).collect::<Vec<_>>());
    let (it, params) = if kind == "zonemap" {
        (IndexType::ZoneMap, ScalarIndexParams { index_type: "zonemap".into(), params: Some("{\"rows_per_zone\": 3}".into()) })
    } else {
        (IndexType::BloomFilter, ScalarIndexParams { index_type: "bloomfilter".into(), params: Some("{\"number_of_items\": 8, \"probability\": 0.3}".into()) })
    };
    ds.create_index(&["x"], it, Some("x_idx".into()), &params, true).await.unwrap();
    if kind == "zonemap" {
        ds.create_index(&["b"], it, Some("b_idx".into()), &params, true).await.unwrap();
    }
    for f in ["x >= CAST('-inf' AS DOUBLE)", "x > 6.0", "x >= 5.0", "x = CAST('inf' AS DOUBLE)", "x = CAST('NaN' AS DOUBLE)", "x = -0.0", "x = 0.0", "x <= 0.0", "x < CAST('NaN' AS DOUBLE)", "x <= CAST('inf' AS DOUBLE)", "x IS NULL", "x IN (7.0, -0.0)", "b >= false", "b = true", "b", "b = false", "b > false"] {
        if kind != "zonemap" && f.starts_with('b') { continue; }
        let a = q(&ds, f, true).await;
        let c = q(&ds, f, false).await;
        println!("{f:32} {} index={a:?} noindex={c:?}", if a == c { "ok  " } else { "DIFF" });
    }
}
