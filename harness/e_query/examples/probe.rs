use arrow_array::*;
use arrow_schema::{DataType, Field, Schema};
use datafusion::prelude::SessionContext;
use futures::TryStreamExt;
use lance::Dataset;
use std::sync::Arc;

#[tokio::main]
async fn main() {
    let schema = Arc::new(Schema::new(vec![
        Field::new("id", DataType::Int64, false),
        Field::new("x", DataType::Float32, true),
    ]));
    let b = RecordBatch::try_new(
        schema.clone(),
        vec![Arc::new(Int64Array::from(vec![0, 1, 2, 3, 4, 5])), Arc::new(Float32Array::from(vec![Some(0.0), Some(-0.0), Some(1.0), None, Some(f32::NAN), Some(10.0)]))],
    )
    .unwrap();
    let ctx = SessionContext::new();
    ctx.register_batch("t", b.clone()).unwrap();
    let ds = Dataset::write(RecordBatchIterator::new(vec![Ok(b)], schema.clone()), "memory://probe_f", None).await.unwrap();
    for f in [
        "(x BETWEEN 0.0 AND 10.0) AND (x > 0.0)",
        "x > 0.0",
        "x >= 0.0",
        "x = 0.0",
        "x = -0.0",
        "x > -0.0",
        "x BETWEEN 0.0 AND 10.0",
        "x IN (0.0, 5.0)",
        "x IN (-0.0, 5.0, 6.0, 7.0)",
        "x < 0.0",
    ] {
        let df = ctx.sql(&format!("SELECT id FROM t WHERE {f}")).await.unwrap().collect().await.unwrap();
        let ids: Vec<i64> = df.iter().flat_map(|b| b.column(0).as_any().downcast_ref::<Int64Array>().unwrap().values().to_vec()).collect();
        let mut s = ds.scan();
        s.filter(f).unwrap();
        let out: Vec<RecordBatch> = s.try_into_stream().await.unwrap().try_collect().await.unwrap();
        let lids: Vec<i64> = out.iter().flat_map(|b| b.column(0).as_any().downcast_ref::<Int64Array>().unwrap().values().to_vec()).collect();
        println!("{f:50} datafusion={ids:?} lance={lids:?}");
    }
}
