use arrow_array::*;
use arrow_schema::{DataType, Field, Schema};
use futures::TryStreamExt;
use lance::dataset::{WriteParams};
use lance::Dataset;
use lance_encoding::version::LanceFileVersion;
use std::sync::Arc;

#[tokio::main]
async fn main() {
    let schema = Arc::new(Schema::new(vec![
        Field::new("id", DataType::Int64, false),
        Field::new("s", DataType::Utf8, true),
    ]));
    let vals: Vec<Option<&str>> = (0..296).map(|i| if i % 16 == 0 { Some("é") } else if i % 16 == 5 { Some("zz") } else { None }).collect();
    let b = RecordBatch::try_new(
        schema.clone(),
        vec![Arc::new(Int64Array::from((0..296).collect::<Vec<i64>>())), Arc::new(StringArray::from(vals))],
    )
    .unwrap();
    let r = RecordBatchIterator::new(vec![Ok(b)], schema.clone());
    let ds = Dataset::write(r, "memory://probe_l", Some(WriteParams { data_storage_version: Some(LanceFileVersion::Legacy), max_rows_per_group: 8, ..Default::default() })).await.unwrap();
    {
        let out: Vec<RecordBatch> = ds.scan().try_into_stream().await.unwrap().try_collect().await.unwrap();
        let mut nn = vec![];
        for b in &out { let ids = b.column(0).as_any().downcast_ref::<Int64Array>().unwrap(); let s = b.column(1).as_any().downcast_ref::<StringArray>().unwrap(); for i in 0..b.num_rows() { if !s.is_null(i) { nn.push((ids.value(i), s.value(i).to_string())); } } }
        println!("full scan non-null: {} {:?}", nn.len(), &nn[..nn.len().min(12)]);
    }
    for f in ["s = 'é'", "s IN ('é')", "s > 'a'", "s IS NULL", "s IS NOT NULL"] {
        for stats in [true, false] {
            let mut s = ds.scan();
            s.filter(f).unwrap();
            s.use_stats(stats);
            let out: Vec<RecordBatch> = s.try_into_stream().await.unwrap().try_collect().await.unwrap();
            let ids: Vec<i64> = out.iter().flat_map(|b| b.column(0).as_any().downcast_ref::<Int64Array>().unwrap().values().to_vec()).collect();
            println!("{f:20} stats={stats}: {} rows {:?}", ids.len(), &ids[..ids.len().min(20)]);
        }
        let mut s = ds.scan();
        s.filter(f).unwrap();
        println!("{}", s.explain_plan(false).await.unwrap());
    }
}
