//! Shared core of C13 / C14 / C15 / C17 / C18: the row-content model (BTreeMap<id, MRow> with, for
//! stable row ids, `_rowid`, created-at and last-updated versions per id) and a seeded history
//! executor over the public Dataset API.
//!
//! Every generated table has the unique primary key `id: Int64` in column 0, followed by
//! `v: Int64 NOT NULL` (update target), `k: Int32 NULL` (small domain; predicates, scalar index),
//! `s: Utf8 NULL`, and 0..3 random columns from the vmon `ColTy` pool.

use arrow_array::{Array, ArrayRef, Int32Array, Int64Array, RecordBatch, RecordBatchIterator, StringArray};
use arrow_schema::{Schema, SchemaRef};
use futures::TryStreamExt;
use lance::dataset::optimize::{
    commit_compaction, compact_files, plan_compaction, CompactionOptions, RewriteResult,
};
use lance::dataset::{
    MergeInsertBuilder, UpdateBuilder, WhenMatched, WhenNotMatched, WriteMode,
};
use lance::dataset::index::DatasetIndexRemapperOptions;
use lance::Dataset;
use lance_encoding::version::LanceFileVersion;
use lance_index::scalar::{BuiltinIndexType, ScalarIndexParams};
use lance_index::{DatasetIndexExt, IndexType};
use serde_json::{json, Value};
use std::collections::{BTreeMap, BTreeSet};
use std::sync::Arc;
use vmon::prng::Rng;
use vmon::store::World;
use vmon::table::{batch_to_rows, cell_at, render_row, Actor, Cell, ColSpec, ColTy, IdAlloc, Row, TableSpec};

use crate::util::{guard, Fail};

// ---------------------------------------------------------------------------------------------
// model
// ---------------------------------------------------------------------------------------------

#[derive(Clone, Debug)]
pub struct MRow {
    /// cells in dataset column order (including id at 0)
    pub cells: Row,
    /// `_rowid` first observed for this id (stable row ids only)
    pub rowid: Option<u64>,
    /// version that inserted the row
    pub created: u64,
    /// last version whose update / upsert / column rewrite changed the row
    pub updated: u64,
}

#[derive(Clone, Debug)]
pub struct Model {
    pub names: Vec<String>,
    pub rows: BTreeMap<i64, MRow>,
    pub stable: bool,
}

impl Model {
    pub fn col(&self, name: &str) -> Option<usize> {
        self.names.iter().position(|n| n == name)
    }
    pub fn ids(&self) -> Vec<i64> {
        self.rows.keys().copied().collect()
    }
}

#[derive(Clone, Debug)]
pub struct Finding {
    pub sig: String,
    pub what: String,
    pub detail: Value,
}

impl Finding {
    pub fn new(sig: impl Into<String>, what: impl Into<String>, detail: Value) -> Self {
        Self {
            sig: sig.into(),
            what: what.into(),
            detail,
        }
    }
}

// ---------------------------------------------------------------------------------------------
// predicates and update expressions with an exact reference evaluation
// ---------------------------------------------------------------------------------------------

#[derive(Clone, Debug)]
pub enum Pred {
    IdIn(Vec<i64>),
    IdRange(i64, i64),
    /// id % m = r
    IdMod(i64, i64),
    KEq(i64),
    KLt(i64),
    KIsNull,
}

impl Pred {
    pub fn sql(&self) -> String {
        match self {
            Pred::IdIn(v) => format!(
                "id IN ({})",
                v.iter().map(|x| x.to_string()).collect::<Vec<_>>().join(", ")
            ),
            Pred::IdRange(a, b) => format!("id >= {a} AND id < {b}"),
            Pred::IdMod(m, r) => format!("id % {m} = {r}"),
            Pred::KEq(c) => format!("k = {c}"),
            Pred::KLt(c) => format!("k < {c}"),
            Pred::KIsNull => "k IS NULL".to_string(),
        }
    }
    /// SQL three-valued logic: only TRUE selects
    pub fn eval(&self, id: i64, k: &Cell) -> bool {
        match self {
            Pred::IdIn(v) => v.contains(&id),
            Pred::IdRange(a, b) => id >= *a && id < *b,
            Pred::IdMod(m, r) => id % m == *r,
            Pred::KEq(c) => matches!(k, Cell::Int(x) if *x == *c as i128),
            Pred::KLt(c) => matches!(k, Cell::Int(x) if *x < *c as i128),
            Pred::KIsNull => k.is_null(),
        }
    }
    pub fn uses_k(&self) -> bool {
        matches!(self, Pred::KEq(_) | Pred::KLt(_) | Pred::KIsNull)
    }
}

#[derive(Clone, Debug)]
pub enum SetExpr {
    VPlus(i64),
    VLit(i64),
    SLit(String),
    SNull,
    KLit(i64),
    KNull,
}

impl SetExpr {
    pub fn column(&self) -> &'static str {
        match self {
            SetExpr::VPlus(_) | SetExpr::VLit(_) => "v",
            SetExpr::SLit(_) | SetExpr::SNull => "s",
            SetExpr::KLit(_) | SetExpr::KNull => "k",
        }
    }
    pub fn sql(&self) -> String {
        match self {
            SetExpr::VPlus(d) => format!("v + {d}"),
            SetExpr::VLit(x) => format!("{x}"),
            SetExpr::SLit(s) => format!("'{}'", s.replace('\'', "''")),
            SetExpr::SNull | SetExpr::KNull => "NULL".into(),
            SetExpr::KLit(x) => format!("{x}"),
        }
    }
    pub fn apply(&self, old: &Cell) -> Cell {
        match self {
            SetExpr::VPlus(d) => match old {
                Cell::Int(x) => Cell::Int(*x + *d as i128),
                _ => Cell::Null,
            },
            SetExpr::VLit(x) | SetExpr::KLit(x) => Cell::Int(*x as i128),
            SetExpr::SLit(s) => Cell::Str(s.clone()),
            SetExpr::SNull | SetExpr::KNull => Cell::Null,
        }
    }
}

// ---------------------------------------------------------------------------------------------
// operations
// ---------------------------------------------------------------------------------------------

#[derive(Clone, Copy, Debug, PartialEq, Eq)]
pub enum IdxKind {
    BTree,
    Bitmap,
}

#[derive(Clone, Debug)]
pub struct CompactSpec {
    pub target_rows: usize,
    pub max_rows_per_group: usize,
    pub max_bytes_per_file: Option<usize>,
    pub materialize_deletions: bool,
    pub threshold: f32,
    pub batch_size: Option<usize>,
    pub defer_index_remap: bool,
    pub num_threads: Option<usize>,
    /// None: compact_files; Some(seed): plan / execute tasks / commit random subsets in random order
    pub distributed: Option<u64>,
    /// distributed mode only: another handle deletes these rows (id predicate) after the tasks were
    /// executed and before their results are committed from the now stale handle
    pub interleaved_delete: Option<Pred>,
}

impl CompactSpec {
    pub fn options(&self) -> CompactionOptions {
        CompactionOptions {
            target_rows_per_fragment: self.target_rows,
            max_rows_per_group: self.max_rows_per_group,
            max_bytes_per_file: self.max_bytes_per_file,
            materialize_deletions: self.materialize_deletions,
            materialize_deletions_threshold: self.threshold,
            num_threads: self.num_threads,
            batch_size: self.batch_size,
            defer_index_remap: self.defer_index_remap,
        }
    }
    pub fn brief(&self) -> String {
        format!(
            "target={} mat={}@{} batch={:?} defer_remap={} bytes/file={:?} {}",
            self.target_rows,
            self.materialize_deletions,
            self.threshold,
            self.batch_size,
            self.defer_index_remap,
            self.max_bytes_per_file,
            match (&self.distributed, &self.interleaved_delete) {
                (Some(_), Some(p)) => format!("distributed, concurrent delete where {}", short(&p.sql())),
                (Some(_), None) => "distributed".to_string(),
                _ => "compact_files".to_string(),
            }
        )
    }
}

#[derive(Clone, Debug)]
pub enum Op {
    Append { batches: Vec<RecordBatch>, max_rows_per_file: usize },
    Delete(Pred),
    Update { pred: Option<Pred>, sets: Vec<SetExpr> },
    /// merge_insert on id, when matched update all, when not matched insert all (full schema)
    Upsert { batch: RecordBatch },
    /// merge_insert on id, when matched do nothing, when not matched insert all
    InsertOnly { batch: RecordBatch },
    /// merge_insert on id with a source holding id + a subset of the columns
    PartialUpsert { batch: RecordBatch, cols: Vec<String>, insert_new: bool },
    Compact(CompactSpec),
    CreateIndex { col: String, kind: IdxKind },
}

impl Op {
    pub fn kind(&self) -> &'static str {
        match self {
            Op::Append { .. } => "append",
            Op::Delete(_) => "delete",
            Op::Update { .. } => "update",
            Op::Upsert { .. } => "upsert",
            Op::InsertOnly { .. } => "insert_only",
            Op::PartialUpsert { .. } => "partial_upsert",
            Op::Compact(c) => {
                if c.distributed.is_some() {
                    "compact_distributed"
                } else {
                    "compact"
                }
            }
            Op::CreateIndex { .. } => "create_index",
        }
    }
    pub fn brief(&self) -> String {
        match self {
            Op::Append { batches, max_rows_per_file } => format!(
                "append rows={:?} rows/file={}",
                batches.iter().map(|b| b.num_rows()).collect::<Vec<_>>(),
                max_rows_per_file
            ),
            Op::Delete(p) => format!("delete where {}", short(&p.sql())),
            Op::Update { pred, sets } => format!(
                "update set {} where {}",
                sets.iter()
                    .map(|s| format!("{}={}", s.column(), s.sql()))
                    .collect::<Vec<_>>()
                    .join(","),
                pred.as_ref().map(|p| short(&p.sql())).unwrap_or("<all>".into())
            ),
            Op::Upsert { batch } => format!("upsert ids={}", short(&ids_of(batch))),
            Op::InsertOnly { batch } => format!("insert_only ids={}", short(&ids_of(batch))),
            Op::PartialUpsert { batch, cols, insert_new } => format!(
                "partial_upsert cols={:?} insert_new={} ids={}",
                cols,
                insert_new,
                short(&ids_of(batch))
            ),
            Op::Compact(c) => format!("compact {}", c.brief()),
            Op::CreateIndex { col, kind } => format!("create_index {col} {kind:?}"),
        }
    }
}

fn short(s: &str) -> String {
    if s.len() > 160 {
        format!("{}…", s.chars().take(160).collect::<String>())
    } else {
        s.to_string()
    }
}

fn ids_of(b: &RecordBatch) -> String {
    let a = b.column(0).as_any().downcast_ref::<Int64Array>().unwrap();
    format!("{:?}", a.values().iter().map(|x| x & 0xFFFFFF).collect::<Vec<_>>())
}

#[derive(Debug, Clone)]
pub enum Outcome {
    /// committed a new version with the op's effect
    Applied,
    /// Ok, but nothing to do (no new version or no row touched)
    NoEffect,
    /// documented rejection, no effect
    Rejected(Fail),
    /// anything else
    Failed(Fail),
}

// ---------------------------------------------------------------------------------------------
// observation
// ---------------------------------------------------------------------------------------------

#[derive(Clone, Debug)]
pub struct ORow {
    pub id: i64,
    /// data columns in dataset schema order (id first)
    pub cells: Row,
    pub rowid: Option<u64>,
    pub rowaddr: Option<u64>,
    pub created: Option<u64>,
    pub updated: Option<u64>,
}

#[derive(Clone, Debug)]
pub struct Obs {
    pub version: u64,
    pub names: Vec<String>,
    /// rows in `scan_in_order(true)` order
    pub rows: Vec<ORow>,
    pub fragments: usize,
}

impl Obs {
    pub fn by_id(&self) -> BTreeMap<i64, &ORow> {
        self.rows.iter().map(|r| (r.id, r)).collect()
    }
}

pub const ROWID: &str = "_rowid";
pub const ROWADDR: &str = "_rowaddr";
pub const CREATED: &str = "_row_created_at_version";
pub const UPDATED: &str = "_row_last_updated_at_version";

fn u64_at(a: &dyn Array, i: usize) -> Option<u64> {
    match cell_at(a, i) {
        Cell::Int(x) => Some(x as u64),
        _ => None,
    }
}

/// Ordered scan of all data columns plus `_rowid`, `_rowaddr` and (stable row ids) the two
/// version columns.
pub async fn observe(ds: &Dataset, stable: bool) -> lance::Result<Obs> {
    let schema: Schema = ds.schema().into();
    let names: Vec<String> = schema.fields().iter().map(|f| f.name().clone()).collect();
    let mut cols: Vec<String> = names.clone();
    cols.push(ROWID.into());
    cols.push(ROWADDR.into());
    if stable {
        cols.push(CREATED.into());
        cols.push(UPDATED.into());
    }
    let mut s = ds.scan();
    s.project(&cols)?;
    s.scan_in_order(true);
    let bs: Vec<RecordBatch> = s.try_into_stream().await?.try_collect().await?;
    let n = names.len();
    let mut rows = vec![];
    for b in &bs {
        let sch = b.schema();
        let pos = |name: &str| sch.fields().iter().position(|f| f.name() == name);
        let (p_id, p_addr, p_c, p_u) = (pos(ROWID), pos(ROWADDR), pos(CREATED), pos(UPDATED));
        let data_pos: Vec<usize> = names
            .iter()
            .map(|nm| pos(nm).unwrap_or(usize::MAX))
            .collect();
        for i in 0..b.num_rows() {
            let mut cells = Vec::with_capacity(n);
            for p in &data_pos {
                if *p == usize::MAX {
                    cells.push(Cell::Other("<missing column>".into()));
                } else {
                    cells.push(cell_at(b.column(*p).as_ref(), i));
                }
            }
            let id = cells[0].as_i64().unwrap_or(i64::MIN);
            rows.push(ORow {
                id,
                cells,
                rowid: p_id.and_then(|p| u64_at(b.column(p).as_ref(), i)),
                rowaddr: p_addr.and_then(|p| u64_at(b.column(p).as_ref(), i)),
                created: p_c.and_then(|p| u64_at(b.column(p).as_ref(), i)),
                updated: p_u.and_then(|p| u64_at(b.column(p).as_ref(), i)),
            });
        }
    }
    Ok(Obs {
        version: ds.version().version,
        names,
        rows,
        fragments: ds.count_fragments(),
    })
}

/// scan == model as a multiset keyed by id (values of every column).
pub fn check_contents(model: &Model, obs: &Obs, after: &str) -> Vec<Finding> {
    let mut out = vec![];
    if obs.names != model.names {
        out.push(Finding::new(
            format!("schema-differs-from-model-after-{after}"),
            format!("columns {:?}, model {:?}", obs.names, model.names),
            json!({}),
        ));
        return out;
    }
    let mut seen: BTreeSet<i64> = BTreeSet::new();
    let mut extra = vec![];
    let mut diffs = vec![];
    for r in &obs.rows {
        if !seen.insert(r.id) {
            out.push(Finding::new(
                format!("duplicate-row-after-{after}"),
                format!("id {} returned twice by the scan", r.id),
                json!({"id": r.id}),
            ));
            continue;
        }
        match model.rows.get(&r.id) {
            None => extra.push(r.id),
            Some(m) => {
                if m.cells != r.cells {
                    let col = m
                        .cells
                        .iter()
                        .zip(&r.cells)
                        .position(|(a, b)| a != b)
                        .unwrap_or(0);
                    diffs.push((r.id, col, render_row(&m.cells), render_row(&r.cells)));
                }
            }
        }
    }
    let missing: Vec<i64> = model.rows.keys().filter(|i| !seen.contains(i)).copied().collect();
    if !missing.is_empty() {
        out.push(Finding::new(
            format!("rows-missing-after-{after}"),
            format!("{} model rows are not in the scan", missing.len()),
            json!({"ids": missing.iter().take(20).collect::<Vec<_>>()}),
        ));
    }
    if !extra.is_empty() {
        out.push(Finding::new(
            format!("rows-resurrected-or-extra-after-{after}"),
            format!("{} scanned rows are not in the model", extra.len()),
            json!({"ids": extra.iter().take(20).collect::<Vec<_>>()}),
        ));
    }
    if let Some((id, col, m, o)) = diffs.first() {
        out.push(Finding::new(
            format!("cell-differs-from-model-after-{after}"),
            format!("id {id} column {} differs from the model ({} rows differ)", model.names[*col], diffs.len()),
            json!({"id": id, "column": model.names[*col], "model": m, "scan": o}),
        ));
    }
    out
}

// ---------------------------------------------------------------------------------------------
// history executor
// ---------------------------------------------------------------------------------------------

#[derive(Clone, Debug)]
pub struct HistCfg {
    pub stable: bool,
    pub version: LanceFileVersion,
    pub extra_cols: usize,
    pub initial_rows: usize,
    pub initial_rows_per_file: usize,
    pub v2_manifest_paths: bool,
    /// may compactions defer the index remap? With stable row ids a deferred remap leaves a
    /// fragment reuse index that makes every later `load_indices` panic (C13 finding); only C13
    /// keeps generating that combination.
    pub allow_defer_remap: bool,
    /// distributed compactions may be interleaved with a concurrent delete (C13 only: leftover
    /// tasks committed afterwards resurrect the deleted rows — C13 known finding)
    pub allow_interleaved_delete: bool,
}

impl HistCfg {
    pub fn random(rng: &mut Rng, stable: Option<bool>) -> Self {
        let stable = stable.unwrap_or_else(|| rng.bool());
        Self {
            stable,
            allow_defer_remap: true,
            allow_interleaved_delete: true,
            version: *rng.pick_weighted(&[
                (3, LanceFileVersion::V2_0),
                (3, LanceFileVersion::V2_1),
                (1, LanceFileVersion::V2_2),
            ]),
            extra_cols: rng.urange(0, 3),
            initial_rows: rng.urange(8, 60),
            initial_rows_per_file: *rng.pick(&[3usize, 4, 5, 8, 13, 1000]),
            v2_manifest_paths: rng.bool(),
        }
    }
}

/// column types / storage versions / row id modes of all history tables of this process (evidence)
pub static TABLE_SHAPES: crate::util::Histo = crate::util::Histo::new();

pub struct Hist {
    pub world: Arc<World>,
    pub actor: Actor,
    pub uri: String,
    pub ds: Dataset,
    pub spec: TableSpec,
    pub model: Model,
    pub cfg: HistCfg,
    pub ids: IdAlloc,
    /// counter feeding `v` of freshly generated / upserted rows so that an upsert always changes `v`
    pub vseq: i64,
    pub log: Vec<String>,
    pub indexed: Option<(String, IdxKind)>,
    pub deleted_ids: Vec<i64>,
    /// the last distributed compaction committed leftover tasks in a second `commit_compaction`
    /// call and that call was accepted
    pub second_commit_round_accepted: bool,
    /// the concurrent delete of the last distributed compaction was really committed
    pub interleaved_delete_done: bool,
    /// the table was created with stable row ids but a later manifest no longer carries the
    /// feature flag: (op kind that committed that manifest, table had no fragments before it)
    pub stable_flag_lost: Option<(&'static str, bool)>,
}

/// Extra column pool for history tables: everything the ColTy pool has. Lists with null items are
/// avoided in 2.1+ tables only through the generator of vmon (ListI32 has nullable items, but a
/// list never starts with... no guarantee) -- see `safe_pool`.
fn extra_pool(version: LanceFileVersion) -> Vec<ColTy> {
    let mut pool = ColTy::scalar_pool();
    pool.extend([ColTy::Dec128(12, 3), ColTy::FslF32(4), ColTy::StructIS, ColTy::DictUtf8]);
    // 2.1 / 2.2: a data file whose list column has rows but no visible leaf item (all lists NULL or
    // empty -- common with files of 2-5 rows) is unreadable (C11 known finding
    // `list-column-without-visible-leaf-items`, e_codec C27 class C); keep that defect out of the
    // histories of the other properties. First-item-NULL lists are fine since /repo batch 2.
    if version == LanceFileVersion::V2_0 {
        pool.push(ColTy::ListI32);
    }
    pool
}

pub fn make_spec(rng: &mut Rng, cfg: &HistCfg) -> TableSpec {
    let mut spec = TableSpec::simple(&[
        ("v", ColTy::I64, false),
        ("k", ColTy::I32, true),
        ("s", ColTy::Utf8, true),
    ]);
    let pool = extra_pool(cfg.version);
    for i in 0..cfg.extra_cols {
        let ty = rng.pick(&pool).clone();
        // struct-level NULLs are kept out of the history tables: 2.0 does not store them
        // (documented) and in 2.1 an update turns a NULL struct into a struct of NULLs
        // (reported in NOTES.md; C12's subject)
        let nullable = if ty == ColTy::StructIS { false } else { rng.bool() };
        spec.cols.push(ColSpec {
            name: format!("x{i}"),
            ty,
            nullable,
            null_eighths: *rng.pick(&[0u8, 1, 4, 8]),
            small_domain: rng.bool(),
        });
    }
    spec
}

/// fresh `v` values are strictly increasing so that an upsert always changes `v`
pub fn gen_batch_with(spec: &TableSpec, vseq: &mut i64, rng: &mut Rng, ids: &[i64]) -> RecordBatch {
    let b = spec.batch(rng, ids);
    let vs: Vec<i64> = (0..ids.len() as i64).map(|i| 1_000_000 + *vseq + i).collect();
    *vseq += ids.len() as i64;
    let mut cols: Vec<ArrayRef> = b.columns().to_vec();
    cols[1] = Arc::new(Int64Array::from(vs));
    RecordBatch::try_new(b.schema(), cols).unwrap()
}

impl Hist {
    /// batch over the table spec for the given ids, `v` from the fresh counter
    pub fn gen_batch(&mut self, rng: &mut Rng, ids: &[i64]) -> RecordBatch {
        gen_batch_with(&self.spec, &mut self.vseq, rng, ids)
    }

    pub async fn create(rng: &mut Rng, cfg: HistCfg, tag: &str, writer: usize) -> Result<Self, Fail> {
        let world = World::memory();
        let actor = Actor::new(world.new_actor(0));
        let uri = format!("memory://{tag}");
        let spec = make_spec(rng, &cfg);
        let mut ids = IdAlloc::new(writer);
        let first = ids.take(cfg.initial_rows);
        let mut vseq = 0i64;
        let batch = gen_batch_with(&spec, &mut vseq, rng, &first);
        let mut params = actor.write_params(WriteMode::Create);
        params.max_rows_per_file = cfg.initial_rows_per_file;
        params.enable_stable_row_ids = cfg.stable;
        params.data_storage_version = Some(cfg.version);
        params.enable_v2_manifest_paths = cfg.v2_manifest_paths;
        let schema = batch.schema();
        let names: Vec<String> = schema.fields().iter().map(|f| f.name().clone()).collect();
        let reader = RecordBatchIterator::new(vec![Ok(batch.clone())], schema);
        let ds = guard(Dataset::write(reader, uri.as_str(), Some(params))).await?;
        let v = ds.version().version;
        let mut rows = BTreeMap::new();
        for r in batch_to_rows(&batch) {
            let id = r[0].as_i64().unwrap();
            rows.insert(
                id,
                MRow {
                    cells: r,
                    rowid: None,
                    created: v,
                    updated: v,
                },
            );
        }
        for c in &spec.cols {
            TABLE_SHAPES.add(&format!("column:{:?}", c.ty), 1);
        }
        TABLE_SHAPES.add(&format!("storage:{:?}", cfg.version), 1);
        TABLE_SHAPES.add(if cfg.stable { "row-ids:stable" } else { "row-ids:address" }, 1);
        let log = vec![format!(
            "v{v}: create rows={} rows/file={} stable={} version={:?} cols={}",
            cfg.initial_rows,
            cfg.initial_rows_per_file,
            cfg.stable,
            cfg.version,
            spec.describe()
        )];
        Ok(Hist {
            world,
            actor,
            uri,
            ds,
            spec,
            model: Model {
                names,
                rows,
                stable: cfg.stable,
            },
            cfg,
            ids,
            vseq,
            log,
            indexed: None,
            deleted_ids: vec![],
            second_commit_round_accepted: false,
            interleaved_delete_done: false,
            stable_flag_lost: None,
        })
    }

    fn k_of(&self, cells: &Row) -> Cell {
        self.model.col("k").map(|p| cells[p].clone()).unwrap_or(Cell::Null)
    }

    pub fn gen_pred(&self, rng: &mut Rng) -> Pred {
        let ids = self.model.ids();
        // predicates on the indexed column would be answered through the scalar index: index
        // correctness after updates / merges is C19's subject (known classes there), so histories
        // with an index select rows by id only
        let has_k = self.model.col("k").is_some() && self.indexed.is_none();
        match rng.below(if has_k { 8 } else { 5 }) {
            0 | 1 => {
                // some live ids, sometimes dead / never existing ones
                let n = rng.urange(1, 6.min(ids.len().max(1)));
                let mut v: Vec<i64> = (0..n)
                    .filter_map(|_| if ids.is_empty() { None } else { Some(*rng.pick(&ids)) })
                    .collect();
                if rng.chance(1, 4) {
                    v.push(ids.last().copied().unwrap_or(0) + 1000);
                }
                if rng.chance(1, 4) {
                    if let Some(d) = self.deleted_ids.last() {
                        v.push(*d);
                    }
                }
                if v.is_empty() {
                    v.push(0);
                }
                Pred::IdIn(v)
            }
            2 | 3 => {
                if ids.is_empty() {
                    return Pred::IdRange(0, 1);
                }
                let a = rng.usize_below(ids.len());
                let len = rng.urange(1, (ids.len() / 3).max(1));
                let b = (a + len).min(ids.len() - 1);
                Pred::IdRange(ids[a], ids[b].max(ids[a] + 1))
            }
            4 => {
                let m = rng.range(2, 7);
                Pred::IdMod(m, rng.range(0, m - 1))
            }
            5 => Pred::KEq(rng.range(-3, 12)),
            6 => Pred::KLt(rng.range(-2, 6)),
            _ => Pred::KIsNull,
        }
    }

    pub fn gen_sets(&self, rng: &mut Rng) -> Vec<SetExpr> {
        let mut sets = vec![];
        // always change v so that an update really changes the row
        sets.push(if rng.chance(2, 3) {
            SetExpr::VPlus(rng.range(1, 5))
        } else {
            SetExpr::VLit(5_000_000 + rng.range(0, 1_000_000))
        });
        if self.model.col("s").is_some() && rng.chance(1, 3) {
            sets.push(if rng.chance(1, 4) {
                SetExpr::SNull
            } else {
                SetExpr::SLit(rng.pick(&["upd", "it's", "", "日本", "z z"]).to_string())
            });
        }
        if self.model.col("k").is_some() && rng.chance(1, 4) {
            sets.push(if rng.chance(1, 4) {
                SetExpr::KNull
            } else {
                SetExpr::KLit(rng.range(-3, 12))
            });
        }
        sets
    }

    pub fn gen_compact(&self, rng: &mut Rng, allow_distributed: bool) -> CompactSpec {
        let n = self.model.rows.len().max(1);
        let distributed = if allow_distributed && rng.chance(1, 3) { Some(rng.next_u64()) } else { None };
        let interleaved_delete = if distributed.is_some() && self.cfg.allow_interleaved_delete && rng.chance(1, 3) {
            let ids = self.model.ids();
            if ids.is_empty() {
                None
            } else {
                Some(match rng.below(3) {
                    0 => Pred::IdIn((0..rng.urange(1, 4)).map(|_| *rng.pick(&ids)).collect()),
                    1 => {
                        let a = rng.usize_below(ids.len());
                        let b = (a + rng.urange(1, 5)).min(ids.len() - 1);
                        Pred::IdRange(ids[a], ids[b].max(ids[a] + 1))
                    }
                    _ => {
                        let m = rng.range(3, 7);
                        Pred::IdMod(m, rng.range(0, m - 1))
                    }
                })
            }
        } else {
            None
        };
        CompactSpec {
            target_rows: *rng.pick(&[2usize, 5, 10, 25, n, 2 * n, 1 << 20]),
            max_rows_per_group: *rng.pick(&[2usize, 16, 1024]),
            max_bytes_per_file: *rng.pick(&[None, None, Some(200usize), Some(1 << 20)]),
            materialize_deletions: rng.chance(3, 4),
            threshold: *rng.pick(&[0.0f32, 0.1, 0.5, 0.99, 1.5]),
            batch_size: *rng.pick(&[None, Some(1usize), Some(3), Some(64)]),
            defer_index_remap: rng.chance(1, 3) && self.cfg.allow_defer_remap,
            num_threads: *rng.pick(&[None, Some(1usize), Some(4)]),
            distributed,
            interleaved_delete,
        }
    }

    /// Source batch for merge_insert: `n_old` live ids + `n_new` fresh ids, shuffled.
    fn gen_merge_source(&mut self, rng: &mut Rng, n_old: usize, n_new: usize) -> RecordBatch {
        let live = self.model.ids();
        let mut ids: Vec<i64> = rng
            .sample_indices(live.len(), n_old.min(live.len()))
            .into_iter()
            .map(|i| live[i])
            .collect();
        ids.extend(self.ids.take(n_new));
        rng.shuffle(&mut ids);
        self.gen_batch(rng, &ids)
    }

    /// Random next operation. `weights`: (kind, weight).
    pub fn gen_op(&mut self, rng: &mut Rng, weights: &[(u32, &'static str)]) -> Op {
        let kind = *rng.pick_weighted(weights);
        match kind {
            "append" => {
                let nb = rng.urange(1, 3);
                let mut batches = vec![];
                for _ in 0..nb {
                    let n = rng.urange(1, 12);
                    let ids = self.ids.take(n);
                    batches.push(self.gen_batch(rng, &ids));
                }
                Op::Append {
                    batches,
                    max_rows_per_file: *rng.pick(&[2usize, 3, 5, 8, 1000]),
                }
            }
            "delete" => Op::Delete(self.gen_pred(rng)),
            "update" => Op::Update {
                pred: if rng.chance(1, 10) { None } else { Some(self.gen_pred(rng)) },
                sets: self.gen_sets(rng),
            },
            "upsert" => {
                let n_old = rng.urange(0, 8);
                let n_new = rng.urange(if n_old == 0 { 1 } else { 0 }, 5);
                Op::Upsert {
                    batch: self.gen_merge_source(rng, n_old, n_new),
                }
            }
            "insert_only" => {
                let n_old = rng.urange(0, 5);
                let n_new = rng.urange(1, 5);
                Op::InsertOnly {
                    batch: self.gen_merge_source(rng, n_old, n_new),
                }
            }
            "partial_upsert" => {
                let n_old = rng.urange(1, 8);
                let insert_new = rng.chance(1, 4);
                let n_new = if insert_new { rng.urange(1, 3) } else { 0 };
                let full = self.gen_merge_source(rng, n_old, n_new);
                // id + v (+ s or k)
                let mut cols = vec!["v".to_string()];
                if rng.bool() && self.model.col("s").is_some() {
                    cols.push("s".into());
                }
                if rng.chance(1, 3) && self.model.col("k").is_some() {
                    cols.push("k".into());
                }
                let sch = full.schema();
                let mut idx = vec![0usize];
                for c in &cols {
                    idx.push(sch.index_of(c).unwrap());
                }
                Op::PartialUpsert {
                    batch: full.project(&idx).unwrap(),
                    cols,
                    insert_new,
                }
            }
            "compact" => Op::Compact(self.gen_compact(rng, false)),
            "compact_any" => Op::Compact(self.gen_compact(rng, true)),
            "create_index" => Op::CreateIndex {
                col: "k".into(),
                kind: if rng.bool() { IdxKind::BTree } else { IdxKind::Bitmap },
            },
            other => panic!("unknown op kind {other}"),
        }
    }

    fn schema(&self) -> SchemaRef {
        Arc::new((self.ds.schema()).into())
    }

    /// Execute `op` on the real table and, if it was applied, on the model.
    pub async fn apply(&mut self, rng: &mut Rng, op: &Op) -> Outcome {
        let before_version = self.ds.version().version;
        let fragments_before = self.ds.count_fragments();
        let flag_before = self.ds.manifest().uses_stable_row_ids();
        let res: Result<(), Fail> = match op {
            Op::Append { batches, max_rows_per_file } => {
                let mut params = self.actor.write_params(WriteMode::Append);
                params.max_rows_per_file = *max_rows_per_file;
                let schema = batches[0].schema();
                let reader = RecordBatchIterator::new(batches.clone().into_iter().map(Ok), schema);
                let mut d = self.ds.clone();
                match guard(async {
                    d.append(reader, Some(params)).await?;
                    Ok(d)
                })
                .await
                {
                    Ok(d) => {
                        self.ds = d;
                        Ok(())
                    }
                    Err(e) => Err(e),
                }
            }
            Op::Delete(p) => {
                let mut d = self.ds.clone();
                let sql = p.sql();
                match guard(async {
                    d.delete(&sql).await?;
                    Ok(d)
                })
                .await
                {
                    Ok(d) => {
                        self.ds = d;
                        Ok(())
                    }
                    Err(e) => Err(e),
                }
            }
            Op::Update { pred, sets } => {
                let d = Arc::new(self.ds.clone());
                let pred_sql = pred.as_ref().map(|p| p.sql());
                let sets2: Vec<(String, String)> =
                    sets.iter().map(|s| (s.column().to_string(), s.sql())).collect();
                match guard(async {
                    let mut b = UpdateBuilder::new(d);
                    if let Some(p) = &pred_sql {
                        b = b.update_where(p)?;
                    }
                    for (c, e) in &sets2 {
                        b = b.set(c, e)?;
                    }
                    let r = b.build()?.execute().await?;
                    Ok(r)
                })
                .await
                {
                    Ok(r) => {
                        self.ds = (*r.new_dataset).clone();
                        Ok(())
                    }
                    Err(e) => Err(e),
                }
            }
            Op::Upsert { batch } | Op::InsertOnly { batch } | Op::PartialUpsert { batch, .. } => {
                let d = Arc::new(self.ds.clone());
                let (wm, wnm) = match op {
                    Op::Upsert { .. } => (WhenMatched::UpdateAll, WhenNotMatched::InsertAll),
                    Op::InsertOnly { .. } => (WhenMatched::DoNothing, WhenNotMatched::InsertAll),
                    Op::PartialUpsert { insert_new, .. } => (
                        WhenMatched::UpdateAll,
                        if *insert_new { WhenNotMatched::InsertAll } else { WhenNotMatched::DoNothing },
                    ),
                    _ => unreachable!(),
                };
                let batch = batch.clone();
                match guard(async {
                    let mut b = MergeInsertBuilder::try_new(d, vec!["id".to_string()])?;
                    b.when_matched(wm).when_not_matched(wnm);
                    let job = b.try_build()?;
                    let schema = batch.schema();
                    let reader = RecordBatchIterator::new(vec![Ok(batch)], schema);
                    let (nd, _stats) = job.execute_reader(reader).await?;
                    Ok(nd)
                })
                .await
                {
                    Ok(nd) => {
                        self.ds = (*nd).clone();
                        Ok(())
                    }
                    Err(e) => Err(e),
                }
            }
            Op::Compact(c) => self.run_compaction(c).await,
            Op::CreateIndex { col, kind } => {
                let mut d = self.ds.clone();
                let params = match kind {
                    IdxKind::BTree => ScalarIndexParams::for_builtin(BuiltinIndexType::BTree),
                    IdxKind::Bitmap => ScalarIndexParams::for_builtin(BuiltinIndexType::Bitmap),
                };
                let ty = match kind {
                    IdxKind::BTree => IndexType::BTree,
                    IdxKind::Bitmap => IndexType::Bitmap,
                };
                let col2 = col.clone();
                match guard(async {
                    d.create_index(&[col2.as_str()], ty, Some(format!("{col2}_idx")), &params, true)
                        .await?;
                    Ok(d)
                })
                .await
                {
                    Ok(d) => {
                        self.ds = d;
                        self.indexed = Some((col.clone(), *kind));
                        Ok(())
                    }
                    Err(e) => Err(e),
                }
            }
        };
        let _ = rng;
        let after_version = self.ds.version().version;
        if self.cfg.stable && flag_before && !self.ds.manifest().uses_stable_row_ids() && self.stable_flag_lost.is_none() {
            self.stable_flag_lost = Some((op.kind(), fragments_before == 0));
            self.log.push(format!(
                "   !! manifest v{after_version} written by {} no longer has the stable-row-id feature flag (fragments before: {fragments_before})",
                op.kind()
            ));
        }
        match res {
            Err(f) => {
                self.log.push(format!("v{before_version}: {} -> {}", op.brief(), f.brief()));
                // re-open to be sure the handle shows the committed state
                if let Ok(d) = self.actor.open(&self.uri).await {
                    self.ds = d;
                }
                if f.is_clean_rejection() {
                    Outcome::Rejected(f)
                } else {
                    Outcome::Failed(f)
                }
            }
            Ok(()) => {
                let touched = self.apply_model(op, after_version);
                self.log.push(format!(
                    "v{before_version}->v{after_version}: {} [{} rows touched]",
                    op.brief(),
                    touched
                ));
                if after_version == before_version {
                    Outcome::NoEffect
                } else {
                    Outcome::Applied
                }
            }
        }
    }

    async fn run_compaction(&mut self, c: &CompactSpec) -> Result<(), Fail> {
        self.second_commit_round_accepted = false;
        self.interleaved_delete_done = false;
        let r = self.run_compaction_inner(c).await;
        if c.interleaved_delete.is_some() {
            // another handle committed in between: continue from the latest version
            if let Ok(d) = self.actor.open(&self.uri).await {
                self.ds = d;
            }
        }
        r
    }

    async fn run_compaction_inner(&mut self, c: &CompactSpec) -> Result<(), Fail> {
        let opts = c.options();
        match c.distributed {
            None => {
                let mut d = self.ds.clone();
                let d = guard(async {
                    compact_files(&mut d, opts, None).await?;
                    Ok(d)
                })
                .await?;
                self.ds = d;
                Ok(())
            }
            Some(seed) => {
                let mut rng = Rng::new(seed);
                let mut opts = opts;
                opts.validate();
                let ds0 = self.ds.clone();
                let plan = guard(plan_compaction(&ds0, &opts)).await?;
                let tasks: Vec<_> = plan.compaction_tasks().collect();
                let mut results: Vec<RewriteResult> = vec![];
                let mut order: Vec<usize> = (0..tasks.len()).collect();
                rng.shuffle(&mut order);
                for i in order {
                    // a random subset of the tasks "fails" (is never executed)
                    if tasks.len() > 1 && rng.chance(1, 5) {
                        continue;
                    }
                    let r = guard(tasks[i].execute(&ds0)).await?;
                    results.push(r);
                }
                rng.shuffle(&mut results);
                if let Some(p) = &c.interleaved_delete {
                    // a second handle deletes rows while the rewritten files wait to be committed
                    let sql = p.sql();
                    let mut d2 = guard(self.actor.open(&self.uri)).await?;
                    match guard(async {
                        d2.delete(&sql).await?;
                        Ok(d2)
                    })
                    .await
                    {
                        Ok(d2) => {
                            let v = d2.version().version;
                            let n = self.apply_model(&Op::Delete(p.clone()), v);
                            self.interleaved_delete_done = true;
                            self.log.push(format!("   concurrent delete where {} -> v{v} [{n} rows]", short(&sql)));
                        }
                        Err(e) => self.log.push(format!("   concurrent delete failed: {}", short(&e.brief()))),
                    }
                }
                // commit in one or two rounds
                let split = if results.len() > 1 && rng.bool() {
                    rng.urange(1, results.len() - 1)
                } else {
                    results.len()
                };
                let second: Vec<RewriteResult> = results.split_off(split);
                let mut d = self.ds.clone();
                let remap = Arc::new(DatasetIndexRemapperOptions::default());
                let o2 = opts.clone();
                let d = guard(async {
                    commit_compaction(&mut d, results, remap, &o2).await?;
                    Ok(d)
                })
                .await?;
                self.ds = d;
                if !second.is_empty() {
                    // documented: after a partial commit the remaining tasks "will not be able to
                    // be committed"; either outcome is fine as long as contents are unchanged
                    let mut d = self.ds.clone();
                    let remap = Arc::new(DatasetIndexRemapperOptions::default());
                    match guard(async {
                        commit_compaction(&mut d, second, remap, &opts).await?;
                        Ok(d)
                    })
                    .await
                    {
                        Ok(d) => {
                            self.ds = d;
                            self.second_commit_round_accepted = true;
                            self.log.push("   second commit_compaction round: accepted".into());
                        }
                        Err(e) => {
                            self.log
                                .push(format!("   second commit_compaction round: {}", short(&e.brief())));
                            if let Ok(d) = self.actor.open(&self.uri).await {
                                self.ds = d;
                            }
                        }
                    }
                }
                Ok(())
            }
        }
    }

    /// Row-level effect of an applied op. Returns number of rows touched.
    fn apply_model(&mut self, op: &Op, version: u64) -> usize {
        let names = self.model.names.clone();
        let kpos = self.model.col("k");
        match op {
            Op::Append { batches, .. } => {
                let mut n = 0;
                for b in batches {
                    for r in batch_to_rows(b) {
                        let id = r[0].as_i64().unwrap();
                        self.model.rows.insert(
                            id,
                            MRow {
                                cells: r,
                                rowid: None,
                                created: version,
                                updated: version,
                            },
                        );
                        n += 1;
                    }
                }
                n
            }
            Op::Delete(p) => {
                let dead: Vec<i64> = self
                    .model
                    .rows
                    .iter()
                    .filter(|(id, r)| {
                        let k = kpos.map(|p| r.cells[p].clone()).unwrap_or(Cell::Null);
                        p.eval(**id, &k)
                    })
                    .map(|(id, _)| *id)
                    .collect();
                for id in &dead {
                    self.model.rows.remove(id);
                    self.deleted_ids.push(*id);
                }
                dead.len()
            }
            Op::Update { pred, sets } => {
                let mut n = 0;
                for (id, r) in self.model.rows.iter_mut() {
                    let k = kpos.map(|p| r.cells[p].clone()).unwrap_or(Cell::Null);
                    let hit = pred.as_ref().map(|p| p.eval(*id, &k)).unwrap_or(true);
                    if hit {
                        // all SET expressions see the old row
                        let old = r.cells.clone();
                        for s in sets {
                            let c = names.iter().position(|n| n == s.column()).unwrap();
                            r.cells[c] = s.apply(&old[c]);
                        }
                        r.updated = version;
                        n += 1;
                    }
                }
                n
            }
            Op::Upsert { batch } => {
                let mut n = 0;
                for r in batch_to_rows(batch) {
                    let id = r[0].as_i64().unwrap();
                    match self.model.rows.get_mut(&id) {
                        Some(m) => {
                            m.cells = r;
                            m.updated = version;
                        }
                        None => {
                            self.model.rows.insert(
                                id,
                                MRow {
                                    cells: r,
                                    rowid: None,
                                    created: version,
                                    updated: version,
                                },
                            );
                        }
                    }
                    n += 1;
                }
                n
            }
            Op::InsertOnly { batch } => {
                let mut n = 0;
                for r in batch_to_rows(batch) {
                    let id = r[0].as_i64().unwrap();
                    if !self.model.rows.contains_key(&id) {
                        self.model.rows.insert(
                            id,
                            MRow {
                                cells: r,
                                rowid: None,
                                created: version,
                                updated: version,
                            },
                        );
                        n += 1;
                    }
                }
                n
            }
            Op::PartialUpsert { batch, cols, insert_new } => {
                let mut n = 0;
                let rows = batch_to_rows(batch);
                for r in rows {
                    let id = r[0].as_i64().unwrap();
                    match self.model.rows.get_mut(&id) {
                        Some(m) => {
                            for (j, c) in cols.iter().enumerate() {
                                let p = names.iter().position(|n| n == c).unwrap();
                                m.cells[p] = r[j + 1].clone();
                            }
                            m.updated = version;
                            n += 1;
                        }
                        None => {
                            if *insert_new {
                                // columns missing from the source are NULL
                                let mut cells = vec![Cell::Null; names.len()];
                                cells[0] = Cell::Int(id as i128);
                                for (j, c) in cols.iter().enumerate() {
                                    let p = names.iter().position(|n| n == c).unwrap();
                                    cells[p] = r[j + 1].clone();
                                }
                                self.model.rows.insert(
                                    id,
                                    MRow {
                                        cells,
                                        rowid: None,
                                        created: version,
                                        updated: version,
                                    },
                                );
                                n += 1;
                            }
                        }
                    }
                }
                n
            }
            Op::Compact(_) | Op::CreateIndex { .. } => 0,
        }
    }

    /// ids the op will touch according to the model (before it is applied)
    pub fn predicted_hits(&self, op: &Op) -> usize {
        let kpos = self.model.col("k");
        match op {
            Op::Delete(p) | Op::Update { pred: Some(p), .. } => self
                .model
                .rows
                .iter()
                .filter(|(id, r)| {
                    let k = kpos.map(|p| r.cells[p].clone()).unwrap_or(Cell::Null);
                    p.eval(**id, &k)
                })
                .count(),
            Op::Update { pred: None, .. } => self.model.rows.len(),
            _ => 0,
        }
    }

    pub fn k_cell(&self, id: i64) -> Cell {
        self.model.rows.get(&id).map(|r| self.k_of(&r.cells)).unwrap_or(Cell::Null)
    }

    pub fn arrow_schema(&self) -> SchemaRef {
        self.schema()
    }

    pub fn log_json(&self) -> Value {
        json!(self.log)
    }
}

#[allow(dead_code)]
fn _unused(_: Int32Array, _: StringArray) {}
