//! C18 — stable row ids are stable and resolvable.
//!
//! After every step of a seeded history on a table with stable row ids: the map id -> `_rowid` is
//! constant over the life of the row (through update, merge_insert update, partial-schema
//! merge_insert, compaction incl. distributed commit, index creation), injective among live rows,
//! and `take_rows([rowid…])` returns the current values of exactly those rows.

use serde_json::json;
use std::collections::{BTreeMap, BTreeSet};
use vmon::prng::{fnv_str, Rng};
use vmon::report::{Args, Report};
use vmon::table::{batch_to_rows, render_row, Row};

use crate::hist::{check_contents, observe, Finding, Hist, HistCfg, Model, Obs, Outcome};
use crate::util::{guard, install_quiet_panic_hook, run_parallel, selftest_requested, Histo};

pub struct TakeObs {
    pub requested: Vec<u64>,
    pub rows: Vec<Row>,
}

/// The deciding oracle: pure function of (model incl. the row ids recorded so far, observation).
pub fn oracle(model: &Model, obs: &Obs, take: Option<&TakeObs>, after: &str) -> Vec<Finding> {
    let mut out = check_contents(model, obs, after);
    // every live row reports a row id; id -> rowid constant
    let mut by_rowid: BTreeMap<u64, i64> = BTreeMap::new();
    for r in &obs.rows {
        let Some(rid) = r.rowid else {
            out.push(Finding::new(
                format!("scan-without-rowid-after-{after}"),
                format!("id {} has no _rowid in the scan", r.id),
                json!({"id": r.id}),
            ));
            continue;
        };
        if let Some(other) = by_rowid.insert(rid, r.id) {
            out.push(Finding::new(
                format!("rowid-shared-by-two-live-rows-after-{after}"),
                format!("_rowid {rid} is reported for ids {other} and {}", r.id),
                json!({"rowid": rid, "ids": [other, r.id]}),
            ));
        }
        if let Some(m) = model.rows.get(&r.id) {
            if let Some(prev) = m.rowid {
                if prev != rid {
                    out.push(Finding::new(
                        format!("rowid-changed-after-{after}"),
                        format!("id {}: _rowid was {prev}, is {rid} after {after}", r.id),
                        json!({"id": r.id, "before": prev, "after": rid}),
                    ));
                }
            }
        }
    }
    // take_rows resolves every requested live row id to the row's current values, in order
    if let Some(t) = take {
        if t.rows.len() != t.requested.len() {
            out.push(Finding::new(
                format!("take-rows-row-count-after-{after}"),
                format!(
                    "take_rows of {} live row ids returned {} rows",
                    t.requested.len(),
                    t.rows.len()
                ),
                json!({"requested": t.requested, "returned": t.rows.len()}),
            ));
        } else {
            for (rid, row) in t.requested.iter().zip(&t.rows) {
                let Some(id) = by_rowid.get(rid) else { continue };
                let Some(m) = model.rows.get(id) else { continue };
                if &m.cells != row {
                    let got_id = row.first().and_then(|c| c.as_i64());
                    out.push(Finding::new(
                        if got_id == Some(*id) {
                            format!("take-rows-stale-or-wrong-values-after-{after}")
                        } else {
                            format!("take-rows-resolves-to-other-row-after-{after}")
                        },
                        format!("take_rows([{rid}]) should return id {id} with its current values"),
                        json!({"rowid": rid, "expected": render_row(&m.cells), "returned": render_row(row)}),
                    ));
                    break;
                }
            }
        }
    }
    out
}

/// remember the row id of rows seen for the first time
pub fn absorb(model: &mut Model, obs: &Obs) {
    for r in &obs.rows {
        if let Some(m) = model.rows.get_mut(&r.id) {
            if m.rowid.is_none() {
                m.rowid = r.rowid;
            }
        }
    }
}

pub const WEIGHTS: &[(u32, &str)] = &[
    (3, "append"),
    (3, "delete"),
    (4, "update"),
    (3, "upsert"),
    (1, "insert_only"),
    (2, "partial_upsert"),
    (3, "compact_any"),
    (1, "create_index"),
];

async fn take_live(h: &Hist, obs: &Obs, rng: &mut Rng) -> Result<Option<TakeObs>, crate::util::Fail> {
    let live: Vec<u64> = obs.rows.iter().filter_map(|r| r.rowid).collect();
    if live.is_empty() {
        return Ok(None);
    }
    let n = rng.urange(1, live.len().min(40));
    let mut req: Vec<u64> = rng.sample_indices(live.len(), n).into_iter().map(|i| live[i]).collect();
    if rng.chance(1, 3) {
        // duplicates
        let d = *rng.pick(&req);
        req.push(d);
    }
    if rng.chance(1, 3) {
        req.sort();
    }
    // a fresh session builds the row id index from the manifest; the working handle may have it cached
    let ds = if rng.bool() {
        guard(h.actor.fresh_session().open(&h.uri)).await?
    } else {
        h.ds.clone()
    };
    let proj = ds.schema().clone();
    let b = guard(ds.take_rows(&req, proj)).await?;
    Ok(Some(TakeObs {
        requested: req,
        rows: batch_to_rows(&b),
    }))
}

struct Ctx<'a> {
    report: &'a Report,
    ops: &'a Histo,
    diag: &'a Histo,
}

fn corrupt(obs: &mut Obs, take: &mut Option<TakeObs>, rng: &mut Rng) -> bool {
    if obs.rows.len() < 2 {
        return false;
    }
    match rng.below(3) {
        0 => {
            // two rows swap row ids
            let a = obs.rows[0].rowid;
            obs.rows[0].rowid = obs.rows[1].rowid;
            obs.rows[1].rowid = a;
            true
        }
        1 => {
            // a row takes the row id of another live row
            obs.rows[0].rowid = obs.rows[1].rowid;
            true
        }
        _ => match take {
            Some(t) if t.rows.len() >= 2 && t.requested[0] != t.requested[1] => {
                t.rows.swap(0, 1);
                true
            }
            _ => {
                obs.rows[0].rowid = obs.rows[0].rowid.map(|x| x + 1_000_000);
                true
            }
        },
    }
}

async fn run_case(cx: &Ctx<'_>, seed: u64, idx: u64, thorough: bool, selftest: bool) -> (u64, u64) {
    let mut rng = Rng::for_case(seed, idx);
    let cfg = HistCfg::random(&mut rng, Some(true));
    let mut h = match Hist::create(&mut rng, cfg.clone(), &format!("c18-{seed}-{idx}"), (idx % 4000) as usize + 1).await {
        Ok(h) => h,
        Err(e) => {
            cx.report.rejected();
            cx.diag.add(&format!("create:{}", e.brief().chars().take(160).collect::<String>()), 1);
            return (0, 0);
        }
    };
    let nsteps = if thorough { rng.urange(8, 24) } else { rng.urange(6, 14) };
    let mut kinds: Vec<&'static str> = vec![];
    let mut rowids_checked = 0u64;
    let mut takes = 0u64;
    let mut survived_rewrite = 0u64; // rows whose recorded row id was re-checked after an update-like op / compaction
    let (mut applied, mut detected) = (0u64, 0u64);
    let mut last: &'static str = "create";
    for step in 0..=nsteps {
        // ---- monitor (after create and after every step)
        let obs = match guard(observe(&h.ds, true)).await {
            Ok(o) => o,
            Err(e) => {
                cx.report.violation(
                    &format!("scan-with-rowid-failed-after-{last}"),
                    "scan projecting _rowid / version columns failed",
                    json!({"seed": seed, "case": idx, "step": step, "error": e.brief(), "history": h.log_json()}),
                );
                return (applied, detected);
            }
        };
        let take = match take_live(&h, &obs, &mut rng).await {
            Ok(t) => t,
            Err(e) => {
                cx.report.violation(
                    &format!("take-rows-of-live-rowids-failed-after-{last}"),
                    "take_rows on row ids the scan just reported fails",
                    json!({"seed": seed, "case": idx, "step": step, "error": e.brief(), "history": h.log_json()}),
                );
                return (applied, detected);
            }
        };
        if selftest {
            let mut o2 = obs.clone();
            let mut t2 = take.map(|t| TakeObs { requested: t.requested, rows: t.rows });
            let mut crng = Rng::for_case(seed ^ 0xBAD, idx * 64 + step as u64);
            // row ids must be known to the model for a swap to be visible
            let mut m2 = h.model.clone();
            absorb(&mut m2, &obs);
            if corrupt(&mut o2, &mut t2, &mut crng) {
                applied += 1;
                if !oracle(&m2, &o2, t2.as_ref(), last).is_empty() {
                    detected += 1;
                }
            }
            absorb(&mut h.model, &obs);
        } else {
            let findings = oracle(&h.model, &obs, take.as_ref(), last);
            let known_before = h.model.rows.values().filter(|r| r.rowid.is_some()).count() as u64;
            rowids_checked += known_before;
            if matches!(last, "update" | "upsert" | "partial_upsert" | "compact" | "compact_distributed") {
                survived_rewrite += known_before;
            }
            takes += take.as_ref().map(|t| t.requested.len() as u64).unwrap_or(0);
            if !findings.is_empty() {
                for f in findings {
                    cx.report.violation(
                        &f.sig,
                        &f.what,
                        json!({"seed": seed, "case": idx, "step": step, "detail": f.detail, "history": h.log_json()}),
                    );
                }
                return (0, 0);
            }
            absorb(&mut h.model, &obs);
        }
        if step == nsteps {
            break;
        }
        // ---- next operation
        let op = h.gen_op(&mut rng, WEIGHTS);
        let out = h.apply(&mut rng, &op).await;
        if let Some((kind, empty)) = h.stable_flag_lost {
            // the table silently stopped using stable row ids: everything the property says about
            // row ids is void from here on; one class, reported once per case
            if !selftest {
                cx.report.violation(
                    &format!("stable-row-id-flag-dropped-by-{kind}{}", if empty { "-on-empty-table" } else { "" }),
                    "a table created with stable row ids lost the feature flag: rows written from now on get address-style row ids that change on update / compaction",
                    json!({"seed": seed, "case": idx, "history": h.log_json()}),
                );
                cx.report.case(None);
            }
            return (applied, detected);
        }
        cx.ops.add(op.kind(), 1);
        last = op.kind();
        match out {
            Outcome::Applied => kinds.push(op.kind()),
            Outcome::NoEffect => cx.ops.add(&format!("{}:no-effect", op.kind()), 1),
            Outcome::Rejected(f) => {
                cx.report.rejected();
                cx.diag.add(&format!("rejected:{}:{}", op.kind(), f.msg().chars().take(80).collect::<String>()), 1);
            }
            Outcome::Failed(f) => {
                // an operation of the history failed with an undocumented error: the state is
                // still monitored (no effect expected), the failure itself is a diagnostic here
                cx.diag.add(&format!("failed:{}:{}", op.kind(), f.key()), 1);
            }
        }
    }
    if selftest {
        return (applied, detected);
    }
    cx.report.count("rowids_rechecked", rowids_checked);
    cx.report.count("rowids_rechecked_after_update_or_compaction", survived_rewrite);
    cx.report.count("take_rows_keys", takes);
    cx.report.count("steps", kinds.len() as u64);
    let rewrites = kinds
        .iter()
        .filter(|k| matches!(**k, "update" | "upsert" | "partial_upsert" | "compact" | "compact_distributed"))
        .count();
    let nontrivial = rewrites >= 1 && survived_rewrite > 0;
    let sig = format!("{:?}|{}|{}", cfg.version, cfg.initial_rows_per_file, kinds.join(","));
    cx.report.case(if nontrivial { Some(fnv_str(&sig)) } else { None });
    if nontrivial && cx.report.want_sample() {
        cx.report.sample(json!({"case": idx, "history": h.log_json(), "rowids_rechecked": rowids_checked}));
    }
    let _: BTreeSet<u8> = BTreeSet::new();
    (0, 0)
}

pub fn run(args: &Args) -> i32 {
    install_quiet_panic_hook();
    let report = Report::new(
        args,
        "exploration",
        "One case = one seeded history (6-14 ops quick, 8-24 thorough) of append / delete / update / merge_insert \
         (upsert, insert-only, partial schema) / compact_files or plan+execute+commit_compaction with random options / \
         create scalar index on a multi-fragment table with stable row ids; after every step the scan's id->_rowid map is \
         compared with the map recorded at the row's first appearance, injectivity is checked and take_rows of a random \
         list of live row ids (duplicates, sorted/unsorted, cached or fresh session) is compared with the model. \
         Non-trivial = >=1 applied update-like op or compaction after which previously recorded row ids were re-checked; \
         distinct by (storage version, file size, applied op kinds).",
        (85, 900),
    )
    .with_min_nontrivial(args.tier.pick(40, 400));
    let ops = Histo::default();
    let diag = Histo::default();
    let cx = Ctx {
        report: &report,
        ops: &ops,
        diag: &diag,
    };
    let selftest = selftest_requested(args);
    let thorough = args.tier == vmon::report::Tier::Thorough;
    let max_cases = if selftest { 60 } else { args.tier.pick(500, 40_000) };
    let st = std::sync::Mutex::new((0u64, 0u64));
    if let Some(i) = args.extra.get("case").and_then(|s| s.parse::<u64>().ok()) {
        let rt = tokio::runtime::Builder::new_current_thread().enable_all().build().unwrap();
        rt.block_on(run_case(&cx, args.seed, i, thorough, false));
    } else {
        run_parallel(&report, max_cases, 16, |i, rt| {
            let r = rt.block_on(run_case(&cx, args.seed, i, thorough, selftest));
            let mut g = st.lock().unwrap();
            g.0 += r.0;
            g.1 += r.1;
        });
    }
    if selftest {
        let g = st.lock().unwrap();
        println!("SELFTEST C18 corruptions_applied={} detected={}", g.0, g.1);
        return if g.0 > 0 && g.0 == g.1 { 0 } else { 2 };
    }
    report.set("ops_by_kind", ops.json());
    report.set("table_shapes", crate::hist::TABLE_SHAPES.json());
    report.set("op_failures_and_rejections", diag.json());
    report.assume("single writer; concurrent writers and restores are covered by E-CONC / C07");
    report.finish()
}
