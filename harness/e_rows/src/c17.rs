//! C17 — change data feed and version columns.
//!
//! Stable row ids, multi-fragment tables, histories of <= 9 operations (append, update, upsert,
//! partial-schema merge, insert-only merge, delete, compaction). After every step the scan of
//! `_rowid`, `_row_created_at_version`, `_row_last_updated_at_version` is compared with the model
//! (created = version in which the row's row id first appeared, last-updated = last version whose
//! update / upsert / column rewrite changed the row). At the end, for ALL version pairs (b, e):
//! `checkout(e).delta().with_begin_version(b).with_end_version(e)` -> `get_inserted_rows` /
//! `get_updated_rows` id sets == model.

use futures::TryStreamExt;
use lance::Dataset;
use serde_json::json;
use std::collections::{BTreeMap, BTreeSet};
use vmon::prng::{fnv_str, Rng};
use vmon::report::{Args, Report};

use crate::hist::{check_contents, observe, Finding, Hist, HistCfg, Obs, Outcome};
use crate::util::{guard, install_quiet_panic_hook, run_parallel, selftest_requested, Histo};

#[derive(Clone, Debug, Default)]
pub struct Prov {
    /// op kind that inserted the row ("create", "append", "upsert", "insert_only", "partial_upsert")
    pub origin: &'static str,
    /// rewritten by update / upsert (rows moved to a new fragment)
    pub rewritten_rows: bool,
    /// touched by a partial-schema merge (column rewrite in place)
    pub rewritten_cols: bool,
}

impl Prov {
    /// The row sits (or sat, before a compaction carried its versions along) in a fragment that
    /// was written by an `Operation::Update` transaction: a RewriteRows update / merge_insert
    /// update moved it there, or a merge_insert inserted it there.
    fn via_update_transaction(&self) -> bool {
        self.rewritten_rows || !matches!(self.origin, "create" | "append")
    }
    fn class(&self) -> String {
        if self.via_update_transaction() {
            return "row-written-by-update-transaction".into();
        }
        format!(
            "{}:{}",
            match self.origin {
                "create" | "append" => "written",
                _ => "merge-inserted",
            },
            match (self.rewritten_rows, self.rewritten_cols) {
                (false, false) => "never-rewritten",
                (true, false) => "rows-rewritten",
                (false, true) => "cols-rewritten",
                (true, true) => "rows+cols-rewritten",
            }
        )
    }
}

/// expected (created, updated) per id at one version
pub type Expect = BTreeMap<i64, (u64, u64)>;

/// Version-column oracle at one version. Returns findings; `class_of` gives the provenance class.
pub fn column_oracle(exp: &Expect, obs: &Obs, prov: &BTreeMap<i64, Prov>, after: &str) -> Vec<Finding> {
    let mut out = vec![];
    let mut bad_created: BTreeMap<String, Vec<(i64, u64, Option<u64>)>> = BTreeMap::new();
    let mut bad_updated: BTreeMap<String, Vec<(i64, u64, Option<u64>)>> = BTreeMap::new();
    for r in &obs.rows {
        let Some((c, u)) = exp.get(&r.id) else { continue };
        let class = prov.get(&r.id).map(|p| p.class()).unwrap_or_else(|| "?".into());
        if r.created != Some(*c) {
            // the confirmed defect (Update arm of build_manifest reading fragment row_id>>32 at
            // offset row_id) yields the created-at of fragment 0 / the default, i.e. 1 here
            let kind = if r.created == Some(1) { "created-at-is-1" } else { "created-at-wrong" };
            bad_created.entry(format!("{kind}:{class}")).or_default().push((r.id, *c, r.created));
        }
        if r.updated != Some(*u) {
            bad_updated.entry(class).or_default().push((r.id, *u, r.updated));
        }
    }
    for (class, v) in bad_created {
        out.push(Finding::new(
            class.clone(),
            format!(
                "{} rows ({class}) report a wrong _row_created_at_version at v{} (after {after}); e.g. id {} expected {} got {:?}",
                v.len(),
                obs.version,
                v[0].0,
                v[0].1,
                v[0].2
            ),
            json!({"version": obs.version, "after": after, "examples": v.iter().take(6).map(|x| json!({"id": x.0, "expected": x.1, "observed": x.2})).collect::<Vec<_>>()}),
        ));
    }
    for (class, v) in bad_updated {
        out.push(Finding::new(
            format!("last-updated-wrong:{class}"),
            format!(
                "{} rows ({class}) report a wrong _row_last_updated_at_version at v{} (after {after}); e.g. id {} expected {} got {:?}",
                v.len(),
                obs.version,
                v[0].0,
                v[0].1,
                v[0].2
            ),
            json!({"version": obs.version, "after": after, "examples": v.iter().take(6).map(|x| json!({"id": x.0, "expected": x.1, "observed": x.2})).collect::<Vec<_>>()}),
        ));
    }
    out
}

pub fn expected_delta(exp: &Expect, b: u64, e: u64) -> (BTreeSet<i64>, BTreeSet<i64>) {
    let mut ins = BTreeSet::new();
    let mut upd = BTreeSet::new();
    for (id, (c, u)) in exp {
        if *c > b && *c <= e {
            ins.insert(*id);
        } else if *c <= b && *u > b && *u <= e {
            upd.insert(*id);
        }
    }
    (ins, upd)
}

/// what the observed version columns at version e imply for the pair (b, e)
fn implied_delta(obs: &Obs, b: u64, e: u64) -> (BTreeSet<i64>, BTreeSet<i64>) {
    let mut ins = BTreeSet::new();
    let mut upd = BTreeSet::new();
    for r in &obs.rows {
        let (Some(c), Some(u)) = (r.created, r.updated) else { continue };
        if c > b && c <= e {
            ins.insert(r.id);
        } else if c <= b && u > b && u <= e {
            upd.insert(r.id);
        }
    }
    (ins, upd)
}

/// Delta oracle for one pair.
pub fn delta_oracle(
    exp: &Expect,
    obs_e: &Obs,
    b: u64,
    e: u64,
    got_ins: &BTreeSet<i64>,
    got_upd: &BTreeSet<i64>,
    column_classes: &BTreeSet<String>,
) -> Vec<Finding> {
    let mut out = vec![];
    let (ei, eu) = expected_delta(exp, b, e);
    let (ii, iu) = implied_delta(obs_e, b, e);
    for (name, want, implied, got) in [("inserted", &ei, &ii, got_ins), ("updated", &eu, &iu, got_upd)] {
        if want == got {
            continue;
        }
        let missing: Vec<&i64> = want.difference(got).take(8).collect();
        let extra: Vec<&i64> = got.difference(want).take(8).collect();
        let sig = if got == implied && !column_classes.is_empty() {
            // the stream is exactly the filter over the (wrong) version columns: same defect
            format!(
                "{name}-rows-delta-wrong-as-implied-by-version-columns[{}]",
                column_classes.iter().cloned().collect::<Vec<_>>().join(",")
            )
        } else if got == implied {
            format!("{name}-rows-delta-differs-from-model")
        } else {
            format!("{name}-rows-delta-inconsistent-with-version-columns")
        };
        out.push(Finding::new(
            sig,
            format!(
                "get_{name}_rows for ({b}, {e}] returned {} ids, the model says {} (missing {:?}, extra {:?})",
                got.len(),
                want.len(),
                missing,
                extra
            ),
            json!({"begin": b, "end": e, "missing": missing, "extra": extra}),
        ));
    }
    out
}

async fn stream_ids(s: lance::dataset::scanner::DatasetRecordBatchStream) -> lance::Result<(BTreeSet<i64>, usize, Vec<String>)> {
    let bs: Vec<arrow_array::RecordBatch> = s.try_collect().await?;
    let mut ids = BTreeSet::new();
    let mut n = 0;
    let mut names = vec![];
    for b in &bs {
        if names.is_empty() {
            names = b.schema().fields().iter().map(|f| f.name().clone()).collect();
        }
        if let Some(a) = b
            .column_by_name("id")
            .and_then(|c| c.as_any().downcast_ref::<arrow_array::Int64Array>().cloned())
        {
            n += a.len();
            ids.extend(a.values().iter().copied());
        }
    }
    Ok((ids, n, names))
}

async fn deltas(ds_e: &Dataset, b: u64, e: u64) -> lance::Result<(BTreeSet<i64>, BTreeSet<i64>, bool)> {
    let d = ds_e.delta().with_begin_version(b).with_end_version(e).build()?;
    let (ins, n_ins, names) = stream_ids(d.get_inserted_rows().await?).await?;
    let (upd, n_upd, _) = stream_ids(d.get_updated_rows().await?).await?;
    let dup = n_ins != ins.len() || n_upd != upd.len();
    let _ = names;
    Ok((ins, upd, dup))
}

struct Ctx<'a> {
    report: &'a Report,
    ops: &'a Histo,
    diag: &'a Histo,
}

const WEIGHTS: &[(u32, &str)] = &[
    (4, "append"),
    (5, "update"),
    (4, "upsert"),
    (2, "partial_upsert"),
    (1, "insert_only"),
    (3, "delete"),
    (3, "compact_any"),
];

async fn run_case(cx: &Ctx<'_>, seed: u64, idx: u64, selftest: bool) -> (u64, u64) {
    let mut rng = Rng::for_case(seed, idx);
    let mut cfg = HistCfg::random(&mut rng, Some(true));
    cfg.initial_rows = rng.urange(8, 30);
    cfg.initial_rows_per_file = *rng.pick(&[3usize, 4, 5, 8]);
    let mut h = match Hist::create(&mut rng, cfg.clone(), &format!("c17-{seed}-{idx}"), (idx % 4000) as usize + 1).await {
        Ok(h) => h,
        Err(e) => {
            cx.report.rejected();
            cx.diag.add(&format!("create:{}", e.brief().chars().take(160).collect::<String>()), 1);
            return (0, 0);
        }
    };
    let max_versions = 10u64;
    let mut prov: BTreeMap<i64, Prov> = h
        .model
        .rows
        .keys()
        .map(|id| (*id, Prov { origin: "create", ..Default::default() }))
        .collect();
    let mut rowid_first_seen: BTreeMap<u64, u64> = BTreeMap::new();
    let mut exp_at: BTreeMap<u64, Expect> = BTreeMap::new();
    let mut obs_at: BTreeMap<u64, Obs> = BTreeMap::new();
    let mut classes_at: BTreeMap<u64, BTreeSet<String>> = BTreeMap::new();
    let mut kinds: Vec<&'static str> = vec![];
    let mut last: &'static str = "create";
    let mut rows_compared = 0u64;
    let mut rowid_changed_rows = 0u64;
    let (mut applied, mut detected) = (0u64, 0u64);
    let mut findings_all: Vec<Finding> = vec![];
    let mut steps = 0usize;
    loop {
        // ---- monitor at this version
        let obs = match guard(observe(&h.ds, true)).await {
            Ok(o) => o,
            Err(e) => {
                cx.report.violation(
                    &format!("scan-of-version-columns-failed-after-{last}"),
                    "scan projecting the version columns fails",
                    json!({"seed": seed, "case": idx, "error": e.brief(), "history": h.log_json()}),
                );
                return (0, 0);
            }
        };
        let pre = check_contents(&h.model, &obs, last);
        if !pre.is_empty() {
            for f in pre {
                cx.report.violation(&f.sig, &f.what, json!({"seed": seed, "case": idx, "detail": f.detail, "history": h.log_json()}));
            }
            return (0, 0);
        }
        let v = obs.version;
        for r in &obs.rows {
            if let Some(rid) = r.rowid {
                rowid_first_seen.entry(rid).or_insert(v);
            }
        }
        // expected: created = version at which this row's row id first appeared;
        // updated = model (op based)
        let mut exp: Expect = BTreeMap::new();
        for r in &obs.rows {
            let m = &h.model.rows[&r.id];
            let created = r.rowid.and_then(|x| rowid_first_seen.get(&x).copied()).unwrap_or(m.created);
            if created != m.created {
                rowid_changed_rows += 1; // the row id changed during an update: C18's subject
            }
            exp.insert(r.id, (created, m.updated.max(created)));
        }
        if !selftest {
            let f = column_oracle(&exp, &obs, &prov, last);
            rows_compared += obs.rows.len() as u64;
            let mut cl = BTreeSet::new();
            for x in &f {
                cl.insert(x.sig.clone());
            }
            classes_at.insert(v, cl);
            findings_all.extend(f);
        }
        exp_at.insert(v, exp);
        obs_at.insert(v, obs);
        if v >= max_versions || steps >= 14 {
            break;
        }
        // ---- next op
        let before_model = h.model.clone();
        let op = h.gen_op(&mut rng, WEIGHTS);
        let out = h.apply(&mut rng, &op).await;
        cx.ops.add(op.kind(), 1);
        last = op.kind();
        match out {
            Outcome::Applied | Outcome::NoEffect => {
                if matches!(out, Outcome::Applied) {
                    kinds.push(op.kind());
                }
                for (id, m) in &h.model.rows {
                    match before_model.rows.get(id) {
                        None => {
                            prov.insert(*id, Prov { origin: op.kind(), ..Default::default() });
                        }
                        Some(b) => {
                            if b.updated != m.updated {
                                let p = prov.entry(*id).or_default();
                                if op.kind() == "partial_upsert" {
                                    p.rewritten_cols = true;
                                } else {
                                    p.rewritten_rows = true;
                                }
                            }
                        }
                    }
                }
            }
            Outcome::Rejected(f) => {
                cx.report.rejected();
                cx.diag.add(&format!("rejected:{}:{}", op.kind(), f.msg().chars().take(80).collect::<String>()), 1);
            }
            Outcome::Failed(f) => {
                cx.diag.add(&format!("failed:{}:{}", op.kind(), f.key()), 1)
            }
        }
        steps += 1;
    }
    // ---- deltas for ALL version pairs
    let versions: Vec<u64> = obs_at.keys().copied().collect();
    let mut pairs = 0u64;
    let mut nonempty_pairs = 0u64;
    for &e in &versions {
        let ds_e = match guard(h.ds.checkout_version(e)).await {
            Ok(d) => d,
            Err(err) => {
                cx.report.inconclusive(&format!("case {idx}: checkout v{e} failed: {}", err.brief()));
                continue;
            }
        };
        for &b in versions.iter().filter(|b| **b < e) {
            let r = guard(deltas(&ds_e, b, e)).await;
            match r {
                Err(err) => {
                    findings_all.push(Finding::new(
                        "delta-stream-failed",
                        format!("delta ({b}, {e}] failed: {}", err.brief()),
                        json!({"begin": b, "end": e}),
                    ));
                }
                Ok((mut ins, upd, dup)) => {
                    pairs += 1;
                    if dup {
                        findings_all.push(Finding::new(
                            "delta-returns-a-row-twice",
                            format!("delta ({b}, {e}] returned a row twice"),
                            json!({"begin": b, "end": e}),
                        ));
                    }
                    if selftest {
                        let (ei, _) = expected_delta(&exp_at[&e], b, e);
                        if ei == ins && !ins.is_empty() {
                            let first = *ins.iter().next().unwrap();
                            ins.remove(&first);
                            applied += 1;
                            if !delta_oracle(&exp_at[&e], &obs_at[&e], b, e, &ins, &upd, &BTreeSet::new()).is_empty() {
                                detected += 1;
                            }
                        }
                        continue;
                    }
                    if !ins.is_empty() || !upd.is_empty() {
                        nonempty_pairs += 1;
                    }
                    let classes = classes_at.get(&e).cloned().unwrap_or_default();
                    findings_all.extend(delta_oracle(&exp_at[&e], &obs_at[&e], b, e, &ins, &upd, &classes));
                }
            }
        }
    }
    if selftest {
        // version column corruption
        if let Some((v, o)) = obs_at.iter().next_back() {
            if !o.rows.is_empty() {
                let mut o2 = o.clone();
                o2.rows[0].created = o2.rows[0].created.map(|x| x + 1);
                applied += 1;
                if !column_oracle(&exp_at[v], &o2, &prov, "selftest").is_empty() {
                    detected += 1;
                }
                let mut o3 = o.clone();
                o3.rows[0].updated = None;
                applied += 1;
                if !column_oracle(&exp_at[v], &o3, &prov, "selftest").is_empty() {
                    detected += 1;
                }
            }
        }
        return (applied, detected);
    }
    cx.report.count("rows_compared_version_columns", rows_compared);
    cx.report.count("version_pairs_checked", pairs);
    cx.report.count("version_pairs_with_nonempty_delta", nonempty_pairs);
    cx.report.count("versions_observed", versions.len() as u64);
    cx.report.count("rows_whose_rowid_changed_in_an_update", rowid_changed_rows);
    // de-duplicate findings by signature, keep the first witness of each
    let mut seen = BTreeSet::new();
    for f in findings_all {
        if seen.insert(f.sig.clone()) {
            cx.report.violation(
                &f.sig,
                &f.what,
                json!({"seed": seed, "case": idx, "detail": f.detail, "history": h.log_json()}),
            );
        }
    }
    let rewrites = kinds.iter().filter(|k| matches!(**k, "update" | "upsert" | "partial_upsert")).count();
    let nontrivial = versions.len() >= 4 && rewrites >= 1 && nonempty_pairs >= 3 && h.ds.count_fragments() >= 2;
    let sig = format!("{:?}|{}|{}", cfg.version, cfg.initial_rows_per_file, kinds.join(","));
    cx.report.case(if nontrivial { Some(fnv_str(&sig)) } else { None });
    if nontrivial && cx.report.want_sample() {
        cx.report.sample(json!({"case": idx, "versions": versions, "pairs": pairs, "history": h.log_json()}));
    }
    (0, 0)
}

pub fn run(args: &Args) -> i32 {
    install_quiet_panic_hook();
    let report = Report::new(
        args,
        "exploration",
        "One case = a seeded history of <=9 applied operations (append, update, upsert, partial-schema merge, insert-only \
         merge, delete, compact_files / distributed compaction) on a multi-fragment table with stable row ids; at every \
         version the scan of _rowid/_row_created_at_version/_row_last_updated_at_version is compared with the model, and \
         for all version pairs (b,e) the id sets of get_inserted_rows / get_updated_rows (dataset checked out at e) with \
         the model's. Non-trivial = >=4 versions, >=1 update-like op, >=3 pairs with a non-empty delta, >=2 fragments; \
         distinct by (storage version, file size, applied op kinds).",
        (85, 900),
    )
    .with_min_nontrivial(args.tier.pick(15, 200));
    let ops = Histo::default();
    let diag = Histo::default();
    let cx = Ctx {
        report: &report,
        ops: &ops,
        diag: &diag,
    };
    let selftest = selftest_requested(args);
    let max_cases = if selftest { 40 } else { args.tier.pick(150, 30_000) };
    let st = std::sync::Mutex::new((0u64, 0u64));
    if let Some(i) = args.extra.get("case").and_then(|s| s.parse::<u64>().ok()) {
        let rt = tokio::runtime::Builder::new_current_thread().enable_all().build().unwrap();
        rt.block_on(run_case(&cx, args.seed, i, false));
    } else {
        run_parallel(&report, max_cases, 16, |i, rt| {
            let r = rt.block_on(run_case(&cx, args.seed, i, selftest));
            let mut g = st.lock().unwrap();
            g.0 += r.0;
            g.1 += r.1;
        });
    }
    if selftest {
        let g = st.lock().unwrap();
        println!("SELFTEST C17 corruptions_applied={} detected={}", g.0, g.1);
        return if g.0 > 0 && g.0 == g.1 { 0 } else { 2 };
    }
    report.set("ops_by_kind", ops.json());
    report.set("table_shapes", crate::hist::TABLE_SHAPES.json());
    report.set("op_failures_and_rejections", diag.json());
    report.assume("deltas are taken on the dataset checked out at the end version of the pair");
    report.finish()
}
