//! Engine binary `e_rows`: one module per property. See /verif/DESIGN.md.
use vmon::report::parse_args;

mod gen;
mod hist;
mod util;
mod c11;
mod probe;
mod c13;
mod c14;
mod c15;
mod c17;
mod c18;

fn main() {
    let args = parse_args();
    let code = match args.prop.as_str() {
        "PROBE" => probe::run(&args),
        "C11" => c11::run(&args),
        "C13" => c13::run(&args),
        "C14" => c14::run(&args),
        "C15" => c15::run(&args),
        "C17" => c17::run(&args),
        "C18" => c18::run(&args),
        other => {
            eprintln!("HARNESS-ERROR e_rows does not serve property '{other}'");
            2
        }
    };
    std::process::exit(code);
}
