//! Hand-written minimal reproductions used while triaging what the checks found
//! (`e_rows PROBE --name <probe>`). Not part of any check.
#![allow(dead_code)]

use arrow_array::builder::*;
use arrow_array::types::*;
use arrow_array::*;
use arrow_buffer::{NullBuffer, OffsetBuffer};
use arrow_schema::{DataType, Field, Schema};
use futures::TryStreamExt;
use lance::dataset::{WriteMode, WriteParams};
use lance::Dataset;
use lance_encoding::version::LanceFileVersion;
use std::sync::Arc;
use vmon::report::Args;
use vmon::table::{batch_to_rows, render_row};

use crate::util::guard;

pub async fn roundtrip(name: &str, batches: Vec<RecordBatch>, ver: LanceFileVersion, tune: impl Fn(&mut WriteParams)) {
    let schema = batches[0].schema();
    // URL-safe table name: anything else makes the URI unparseable and Lance falls back to a
    // *local path* relative to the cwd
    let safe: String = name.chars().map(|c| if c.is_ascii_alphanumeric() { c } else { '_' }).collect();
    let uri = format!("memory://probe-{safe}-{:x}-{ver:?}", vmon::prng::fnv_str(name));
    let mut p = WriteParams {
        mode: WriteMode::Create,
        data_storage_version: Some(ver),
        ..Default::default()
    };
    tune(&mut p);
    let written: Vec<String> = batches.iter().flat_map(batch_to_rows).map(|r| render_row(&r)).collect();
    let reader = RecordBatchIterator::new(batches.into_iter().map(Ok), schema);
    let ds = match guard(Dataset::write(reader, uri.as_str(), Some(p))).await {
        Ok(d) => d,
        Err(e) => {
            println!("[{name}] {ver:?} WRITE FAILED {}", e.brief());
            return;
        }
    };
    let r = guard(async {
        let mut s = ds.scan();
        s.scan_in_order(true);
        let bs: Vec<RecordBatch> = s.try_into_stream().await?.try_collect().await?;
        Ok(bs)
    })
    .await;
    match r {
        Err(e) => println!("[{name}] {ver:?} frags={} READ FAILED {}", ds.count_fragments(), e.brief()),
        Ok(bs) => {
            let read: Vec<String> = bs.iter().flat_map(batch_to_rows).map(|r| render_row(&r)).collect();
            if read == written {
                println!("[{name}] {ver:?} frags={} ok ({} rows)", ds.count_fragments(), read.len());
            } else {
                println!("[{name}] {ver:?} frags={} DIFFERS", ds.count_fragments());
                for (i, (w, r)) in written.iter().zip(read.iter()).enumerate() {
                    if w != r {
                        println!("   row {i}: written {w}   read {r}");
                    }
                }
                if written.len() != read.len() {
                    println!("   written {} rows, read {}", written.len(), read.len());
                }
            }
        }
    }
}

fn ids(from: i64, n: usize) -> ArrayRef {
    Arc::new(Int64Array::from((from..from + n as i64).collect::<Vec<_>>()))
}

fn list_u32(lens: &[usize], nullable_item: bool) -> ArrayRef {
    let total: usize = lens.iter().sum();
    let child = UInt32Array::from((0..total as u32).collect::<Vec<_>>());
    Arc::new(LargeListArray::new(
        Arc::new(Field::new("item", DataType::UInt32, nullable_item)),
        OffsetBuffer::from_lengths(lens.iter().copied()),
        Arc::new(child),
        None,
    ))
}

async fn probe_list_batches() {
    // several batches into one file, list column
    for ver in [LanceFileVersion::V2_0, LanceFileVersion::V2_1, LanceFileVersion::V2_2] {
        for (name, split, item_nullable) in [
            ("a", vec![vec![1usize, 2, 0], vec![3], vec![1]], true),
            ("b", vec![vec![1usize, 2, 0], vec![3], vec![1], vec![]], true),
            ("c", vec![vec![0usize, 0, 0], vec![0], vec![0]], true),
            ("d", vec![vec![1usize, 1, 1], vec![1], vec![1]], false),
            ("e", vec![vec![0usize, 2, 1], vec![0], vec![2]], false),
        ] {
            let schema = Arc::new(Schema::new(vec![
                Field::new("id", DataType::Int64, false),
                Field::new(
                    "l",
                    DataType::LargeList(Arc::new(Field::new("item", DataType::UInt32, item_nullable))),
                    false,
                ),
            ]));
            let mut from = 0;
            let mut batches = vec![];
            for lens in &split {
                batches.push(
                    RecordBatch::try_new(schema.clone(), vec![ids(from, lens.len()), list_u32(lens, item_nullable)])
                        .unwrap(),
                );
                from += lens.len() as i64;
            }
            roundtrip(&format!("list-{name}"), batches, ver, |_| {}).await;
        }
    }
}

fn list_u32_opt(rows: &[Vec<Option<u32>>]) -> ArrayRef {
    let lens: Vec<usize> = rows.iter().map(|r| r.len()).collect();
    let child = UInt32Array::from(rows.iter().flatten().copied().collect::<Vec<_>>());
    Arc::new(LargeListArray::new(
        Arc::new(Field::new("item", DataType::UInt32, true)),
        OffsetBuffer::from_lengths(lens),
        Arc::new(child),
        None,
    ))
}

async fn probe_list_itemnull() {
    let schema = Arc::new(Schema::new(vec![
        Field::new("id", DataType::Int64, false),
        Field::new(
            "l",
            DataType::LargeList(Arc::new(Field::new("item", DataType::UInt32, true))),
            false,
        ),
    ]));
    let data: Vec<Vec<Vec<Option<u32>>>> = vec![
        vec![vec![None, Some(9), Some(4)], vec![Some(0)], vec![Some(8), Some(10), Some(5)]],
        vec![vec![Some(9), Some(0)]],
        vec![vec![None, None, Some(0)]],
    ];
    for ver in [LanceFileVersion::V2_0, LanceFileVersion::V2_1, LanceFileVersion::V2_2] {
        let mut from = 0;
        let mut batches = vec![];
        for rows in &data {
            batches.push(RecordBatch::try_new(schema.clone(), vec![ids(from, rows.len()), list_u32_opt(rows)]).unwrap());
            from += rows.len() as i64;
        }
        let uri = format!("memory://probe-itemnull-{ver:?}");
        let reader = RecordBatchIterator::new(batches.clone().into_iter().map(Ok), schema.clone());
        let p = WriteParams { data_storage_version: Some(ver), ..Default::default() };
        let ds = Dataset::write(reader, uri.as_str(), Some(p)).await.unwrap();
        for bs in [1usize, 2, 3, 4, 5, 16] {
            for ordered in [false, true] {
                let r = guard(async {
                    let mut s = ds.scan();
                    s.batch_size(bs).scan_in_order(ordered);
                    let v: Vec<RecordBatch> = s.try_into_stream().await?.try_collect().await?;
                    Ok(v)
                })
                .await;
                match r {
                    Ok(v) => {
                        let rows: Vec<String> = v.iter().flat_map(batch_to_rows).map(|r| render_row(&r)).collect();
                        println!("{ver:?} batch_size={bs} ordered={ordered}: ok {}", rows.join(" ; "));
                    }
                    Err(e) => println!("{ver:?} batch_size={bs} ordered={ordered}: FAILED {}", e.brief().chars().take(220).collect::<String>()),
                }
            }
        }
    }
}

async fn probe_itemnull_min() {
    // variants: list nullable?, large?, data
    let datas: Vec<(&str, Vec<Vec<Vec<Option<u32>>>>)> = vec![
        ("one-row-[null]", vec![vec![vec![None]]]),
        ("one-row-[null,1]", vec![vec![vec![None, Some(1)]]]),
        ("one-row-[1,null]", vec![vec![vec![Some(1), None]]]),
        ("two-rows-[1],[null]", vec![vec![vec![Some(1)], vec![None]]]),
        ("two-rows-[null],[1]", vec![vec![vec![None], vec![Some(1)]]]),
        ("rows-[],[null]", vec![vec![vec![], vec![None]]]),
        ("no-nulls", vec![vec![vec![Some(2)], vec![Some(1)]]]),
        ("two-batches", vec![vec![vec![Some(1)]], vec![vec![None]]]),
    ];
    for ver in [LanceFileVersion::V2_1] {
        for list_nullable in [false, true] {
            for (name, data) in &datas {
                let schema = Arc::new(Schema::new(vec![
                    Field::new("id", DataType::Int64, false),
                    Field::new(
                        "l",
                        DataType::LargeList(Arc::new(Field::new("item", DataType::UInt32, true))),
                        list_nullable,
                    ),
                ]));
                let mut from = 0;
                let mut batches = vec![];
                for rows in data {
                    batches.push(
                        RecordBatch::try_new(schema.clone(), vec![ids(from, rows.len()), list_u32_opt(rows)]).unwrap(),
                    );
                    from += rows.len() as i64;
                }
                roundtrip(&format!("{name}/list_nullable={list_nullable}"), batches, ver, |_| {}).await;
            }
        }
    }
}

async fn probe_nulllist() {
    for ver in [LanceFileVersion::V2_0, LanceFileVersion::V2_1, LanceFileVersion::V2_2] {
        // C: a nullable list column whose page holds only null lists
        for (name, valid, lens) in [
            ("one-null-list(empty range)", vec![false], vec![0usize]),
            ("one-null-list(garbage range)", vec![false], vec![2usize]),
            ("null+valid", vec![false, true], vec![0usize, 2]),
            ("two-null-lists", vec![false, false], vec![0usize, 0]),
        ] {
            let total: usize = lens.iter().sum();
            let child = UInt32Array::from((0..total as u32).collect::<Vec<_>>());
            let l = Arc::new(ListArray::new(
                Arc::new(Field::new("item", DataType::UInt32, true)),
                OffsetBuffer::from_lengths(lens.clone()),
                Arc::new(child),
                Some(NullBuffer::from(valid.clone())),
            ));
            let schema = Arc::new(Schema::new(vec![
                Field::new("id", DataType::Int64, false),
                Field::new("l", l.data_type().clone(), true),
            ]));
            let b = RecordBatch::try_new(schema, vec![ids(0, valid.len()), l]).unwrap();
            roundtrip(name, vec![b], ver, |_| {}).await;
        }
        // B: fixed size list with null items
        for (name, dim, vals) in [
            ("fsl1-[null]", 1, vec![None]),
            ("fsl1-[1],[null]", 1, vec![Some(1.0f32), None]),
            ("fsl2-[null,null]", 2, vec![None, None]),
            ("fsl2-[null,1]", 2, vec![None, Some(1.0)]),
            ("fsl2-[1,2],[null,null]", 2, vec![Some(1.0), Some(2.0), None, None]),
        ] {
            let child = Float32Array::from(vals.clone());
            let f = Arc::new(FixedSizeListArray::new(
                Arc::new(Field::new("item", DataType::Float32, true)),
                dim,
                Arc::new(child),
                None,
            ));
            let schema = Arc::new(Schema::new(vec![
                Field::new("id", DataType::Int64, false),
                Field::new("v", f.data_type().clone(), false),
            ]));
            let b = RecordBatch::try_new(schema, vec![ids(0, vals.len() / dim as usize), f]).unwrap();
            roundtrip(name, vec![b], ver, |_| {}).await;
        }
    }
}

async fn probe_sliced_null_list() {
    for ver in [LanceFileVersion::V2_0, LanceFileVersion::V2_1, LanceFileVersion::V2_2] {
        for (name, valid, lens, slice) in [
            ("unsliced [1,2],NULL(empty),[3]", vec![true, false, true], vec![2usize, 0, 1], None),
            ("row1 of [1,2],NULL(empty),[3]", vec![true, false, true], vec![2usize, 0, 1], Some((1usize, 1usize))),
            ("row1 of [1,2],NULL(garbage 2),[3]", vec![true, false, true], vec![2usize, 2, 1], Some((1, 1))),
            ("row0 of NULL(garbage 2),[3]", vec![false, true], vec![2usize, 1], Some((0, 1))),
            ("row0 of NULL(empty),[3]", vec![false, true], vec![0usize, 1], Some((0, 1))),
            ("rows1-2 of [1,2],NULL,[3]", vec![true, false, true], vec![2usize, 0, 1], Some((1, 2))),
            ("single NULL(garbage 2) unsliced", vec![false], vec![2usize], None),
        ] {
            let total: usize = lens.iter().sum();
            let child = Int32Array::from((0..total as i32).collect::<Vec<_>>());
            let l = ListArray::new(
                Arc::new(Field::new("item", DataType::Int32, true)),
                OffsetBuffer::from_lengths(lens.clone()),
                Arc::new(child),
                Some(NullBuffer::from(valid.clone())),
            );
            let schema = Arc::new(Schema::new(vec![
                Field::new("id", DataType::Int64, false),
                Field::new("l", l.data_type().clone(), true),
            ]));
            let b = RecordBatch::try_new(schema, vec![ids(0, valid.len()), Arc::new(l)]).unwrap();
            let b = match slice {
                Some((o, n)) => b.slice(o, n),
                None => b,
            };
            roundtrip(name, vec![b], ver, |_| {}).await;
        }
    }
}

async fn probe_allnull_list() {
    for ver in [LanceFileVersion::V2_0, LanceFileVersion::V2_1, LanceFileVersion::V2_2] {
        for item_nullable in [true, false] {
            for (name, valid, lens, extra) in [
                ("one NULL list, empty range", vec![false], vec![0usize], 0usize),
                ("one NULL list, garbage range", vec![false], vec![2usize], 0),
                ("two NULL lists", vec![false, false], vec![0usize, 0], 0),
                ("NULL + [7]", vec![false, true], vec![0usize, 1], 0),
                ("NULL(g2),NULL(0)", vec![false, false], vec![2usize, 0], 0),
                ("NULL(0),NULL(g2)", vec![false, false], vec![0usize, 2], 0),
                ("NULL(g2),NULL(g1),NULL(0)", vec![false, false, false], vec![2usize, 1, 0], 0),
                ("one NULL list, 3 unreferenced trailing values", vec![false], vec![0usize], 3),
                ("[5], 3 unreferenced trailing values", vec![true], vec![1usize], 3),
                ("NULL,[5], 3 unreferenced trailing values", vec![false, true], vec![0usize, 1], 3),
            ] {
                let total: usize = lens.iter().sum::<usize>() + extra;
                let child = if item_nullable && name.contains("unreferenced") {
                    // unreferenced values, some of them NULL
                    Int32Array::from((0..total as i32).map(|i| if i % 2 == 0 { None } else { Some(i) }).collect::<Vec<_>>())
                } else {
                    Int32Array::from((0..total as i32).collect::<Vec<_>>())
                };
                let l = ListArray::new(
                    Arc::new(Field::new("item", DataType::Int32, item_nullable)),
                    OffsetBuffer::from_lengths(lens.clone()),
                    Arc::new(child),
                    Some(NullBuffer::from(valid.clone())),
                );
                let schema = Arc::new(Schema::new(vec![
                    Field::new("id", DataType::Int64, false),
                    Field::new("l", l.data_type().clone(), true),
                ]));
                let b = RecordBatch::try_new(schema, vec![ids(0, valid.len()), Arc::new(l)]).unwrap();
                roundtrip(&format!("x{name} item_nullable={item_nullable}"), vec![b], ver, |_| {}).await;
            }
        }
    }
}

async fn probe_nested_list() {
    // list<list<int32>>: outer lists given as Vec<Option<Vec<Option<i32>>>> (inner list may be NULL)
    type Outer = Vec<Option<Vec<Option<i32>>>>;
    let cases: Vec<(&str, Vec<Outer>)> = vec![
        ("[[NULL]]", vec![vec![Some(vec![None])]]),
        ("[NULL]", vec![vec![None]]),
        ("[NULL,[1]]", vec![vec![None, Some(vec![Some(1)])]]),
        ("[[1],NULL]", vec![vec![Some(vec![Some(1)]), None]]),
        ("[NULL,NULL,NULL]", vec![vec![None, None, None]]),
        ("[[1]],[NULL]", vec![vec![Some(vec![Some(1)])], vec![None]]),
        ("[[1,2],[3]]", vec![vec![Some(vec![Some(1), Some(2)]), Some(vec![Some(3)])]]),
        ("[NULL,NULL]", vec![vec![None, None]]),
        ("[[1],NULL,NULL]", vec![vec![Some(vec![Some(1)]), None, None]]),
        ("[NULL,NULL,[1]]", vec![vec![None, None, Some(vec![Some(1)])]]),
        ("[NULL,NULL],[[1]]", vec![vec![None, None], vec![Some(vec![Some(1)])]]),
        ("[NULL,NULL],[[]]", vec![vec![None, None], vec![Some(vec![])]]),
        ("[[],[]]", vec![vec![Some(vec![]), Some(vec![])]]),
        ("[[],[],[]],[[1]]", vec![vec![Some(vec![]), Some(vec![]), Some(vec![])], vec![Some(vec![Some(1)])]]),
    ];
    for ver in [LanceFileVersion::V2_0, LanceFileVersion::V2_1, LanceFileVersion::V2_2] {
        for (name, rows) in &cases {
            let mut b = ListBuilder::new(ListBuilder::new(Int32Builder::new()));
            for outer in rows {
                for inner in outer {
                    match inner {
                        None => b.values().append_null(),
                        Some(items) => {
                            for it in items {
                                b.values().values().append_option(*it);
                            }
                            b.values().append(true);
                        }
                    }
                }
                b.append(true);
            }
            let l = Arc::new(b.finish());
            let schema = Arc::new(Schema::new(vec![
                Field::new("id", DataType::Int64, false),
                Field::new("l", l.data_type().clone(), true),
            ]));
            let batch = RecordBatch::try_new(schema, vec![ids(0, rows.len()), l]).unwrap();
            roundtrip(&format!("nested {name}"), vec![batch], ver, |_| {}).await;
        }
    }
}

async fn probe_blobs() {
    for ver in [LanceFileVersion::V2_0, LanceFileVersion::V2_1] {
        let schema = Arc::new(Schema::new(vec![
            Field::new("id", DataType::Int64, false),
            Field::new("b", DataType::LargeBinary, true)
                .with_metadata([("lance-encoding:blob".to_string(), "true".to_string())].into_iter().collect()),
        ]));
        for (name, blobs) in [
            ("all-present", vec![Some(vec![1u8, 2, 3]), Some(vec![4u8; 700]), Some(vec![5u8; 3000])]),
            ("with-null", vec![Some(vec![1u8, 2, 3]), None, Some(vec![5u8; 3000])]),
            ("with-empty", vec![Some(vec![1u8, 2, 3]), Some(vec![]), Some(vec![5u8; 3000])]),
            ("all-null", vec![None, None, None]),
        ] {
            let b = RecordBatch::try_new(
                schema.clone(),
                vec![ids(0, blobs.len()), Arc::new(LargeBinaryArray::from_iter(blobs.iter().map(|x| x.as_deref())))],
            )
            .unwrap();
            let uri = format!("memory://probe-blob-{name}-{ver:?}");
            let reader = RecordBatchIterator::new(vec![Ok(b)], schema.clone());
            let p = WriteParams { data_storage_version: Some(ver), ..Default::default() };
            let ds = match guard(Dataset::write(reader, uri.as_str(), Some(p))).await {
                Ok(d) => Arc::new(d),
                Err(e) => {
                    println!("[{name}] {ver:?} write failed {}", e.brief());
                    continue;
                }
            };
            for keys in [vec![0u64], vec![1], vec![2], vec![0, 1, 2], vec![2, 0]] {
                let ds2 = ds.clone();
                let k2 = keys.clone();
                let r = guard(async move {
                    let files = ds2.take_blobs(&k2, "b").await?;
                    let mut out = vec![];
                    for f in files {
                        out.push((f.size(), f.read().await.map(|b| b.len()).map_err(|e| e.to_string().chars().take(80).collect::<String>())));
                    }
                    Ok(out)
                })
                .await;
                println!("[{name}] {ver:?} take_blobs({keys:?}) -> {:?}", r.map_err(|e| e.brief().chars().take(200).collect::<String>()));
            }
        }
    }
}

async fn probe_blobs21() {
    let schema = Arc::new(Schema::new(vec![
        Field::new("id", DataType::Int64, false),
        Field::new("b", DataType::LargeBinary, true)
            .with_metadata([("lance-encoding:blob".to_string(), "true".to_string())].into_iter().collect()),
    ]));
    let mut rng = vmon::prng::Rng::new(7);
    for (name, n, rows_per_file, sizes) in [
        ("small-only", 8usize, 100usize, vec![1usize, 5, 10]),
        ("mixed", 8, 100, vec![0, 5, 700, 3000]),
        ("mixed-multi-file", 12, 4, vec![0, 5, 700, 3000]),
        ("big-only", 8, 100, vec![700, 3000, 4000]),
        ("with-nulls", 8, 100, vec![usize::MAX, 5, 700]),
    ] {
        let blobs: Vec<Option<Vec<u8>>> = (0..n)
            .map(|_| {
                let s = *rng.pick(&sizes);
                if s == usize::MAX { None } else { Some(rng.bytes(s)) }
            })
            .collect();
        let b = RecordBatch::try_new(
            schema.clone(),
            vec![ids(0, n), Arc::new(LargeBinaryArray::from_iter(blobs.iter().map(|x| x.as_deref())))],
        )
        .unwrap();
        let uri = format!("memory://probe-blob21-{name}");
        let reader = RecordBatchIterator::new(vec![Ok(b)], schema.clone());
        let p = WriteParams { data_storage_version: Some(LanceFileVersion::V2_1), max_rows_per_file: rows_per_file, ..Default::default() };
        let ds = Arc::new(Dataset::write(reader, uri.as_str(), Some(p)).await.unwrap());
        let addrs: Vec<u64> = {
            let mut s = ds.scan();
            s.project(&["id"]).unwrap();
            s.with_row_address();
            let bs: Vec<RecordBatch> = s.try_into_stream().await.unwrap().try_collect().await.unwrap();
            bs.iter().flat_map(|b| b.column_by_name("_rowaddr").unwrap().as_any().downcast_ref::<UInt64Array>().unwrap().values().to_vec()).collect()
        };
        for (i, a) in addrs.iter().enumerate() {
            let ds2 = ds.clone();
            let a2 = *a;
            let r = guard(async move {
                let files = ds2.take_blobs(&[a2], "b").await?;
                Ok(files.iter().map(|f| f.size()).collect::<Vec<_>>())
            })
            .await;
            println!("[{name}] row {i} addr {a} written {:?} -> {:?}", blobs[i].as_ref().map(|b| b.len()), r.map_err(|e| e.brief().chars().take(120).collect::<String>()));
        }
    }
}

async fn probe_fsl_wide() {
    // FixedSizeList of 16-byte (decimal128) / 8-byte values, various dimensions
    for ver in [LanceFileVersion::V2_0, LanceFileVersion::V2_1, LanceFileVersion::V2_2] {
        for (tname, child_dt) in [("dec128", DataType::Decimal128(18, 3)), ("i64", DataType::Int64), ("f32", DataType::Float32)] {
            for dim in [1i32, 2, 7, 8, 9, 17, 33] {
                for nullable in [false, true] {
                    for rows in [1usize, 3] {
                        let n = rows * dim as usize;
                        let child: ArrayRef = match &child_dt {
                            DataType::Decimal128(p, s) => Arc::new(
                                Decimal128Array::from((0..n as i128).collect::<Vec<_>>()).with_precision_and_scale(*p, *s).unwrap(),
                            ),
                            DataType::Int64 => Arc::new(Int64Array::from((0..n as i64).collect::<Vec<_>>())),
                            _ => Arc::new(Float32Array::from((0..n).map(|x| x as f32).collect::<Vec<_>>())),
                        };
                        let f = FixedSizeListArray::new(
                            Arc::new(Field::new("item", child_dt.clone(), true)),
                            dim,
                            child,
                            None,
                        );
                        let schema = Arc::new(Schema::new(vec![
                            Field::new("id", DataType::Int64, false),
                            Field::new("v", f.data_type().clone(), nullable),
                        ]));
                        let b = RecordBatch::try_new(schema, vec![ids(0, rows), Arc::new(f)]).unwrap();
                        roundtrip(&format!("fsl-{tname}-dim{dim}-nullable{nullable}-rows{rows}"), vec![b], ver, |_| {}).await;
                    }
                }
            }
        }
    }
}

async fn probe_fsl_dec() {
    let w: Vec<i128> = vec![9, 12, -2, 1, 9, 4, -1, 8, -3, 4, 8, 11, 1, 3, -3, 1, 8];
    let cases: Vec<(&str, Vec<i128>)> = vec![
        ("witness", w.clone()),
        ("witness-abs", w.iter().map(|x| x.abs()).collect()),
        ("one-negative", (0..17).map(|i| if i == 3 { -1 } else { i as i128 }).collect()),
        ("all-negative", (0..17).map(|i| -(i as i128) - 1).collect()),
        ("dim2-neg", vec![-1, 5]),
        ("dim1-neg", vec![-1]),
        ("dim8-neg", vec![1, 2, 3, -4, 5, 6, 7, 8]),
        ("dim9-neg", vec![1, 2, 3, -4, 5, 6, 7, 8, 9]),
    ];
    for ver in [LanceFileVersion::V2_0, LanceFileVersion::V2_1, LanceFileVersion::V2_2] {
        for (name, vals) in &cases {
            for (tname, as_i64) in [("dec128", false), ("i64", true)] {
                let dim = vals.len() as i32;
                let (child, dt): (ArrayRef, DataType) = if as_i64 {
                    (Arc::new(Int64Array::from(vals.iter().map(|x| *x as i64).collect::<Vec<_>>())), DataType::Int64)
                } else {
                    (
                        Arc::new(Decimal128Array::from(vals.clone()).with_precision_and_scale(18, 8).unwrap()),
                        DataType::Decimal128(18, 8),
                    )
                };
                let f = FixedSizeListArray::new(Arc::new(Field::new("item", dt, true)), dim, child, None);
                let schema = Arc::new(Schema::new(vec![
                    Field::new("id", DataType::Int64, false),
                    Field::new("v", f.data_type().clone(), true),
                ]));
                for (iname, id0) in [("id0", 0i64), ("bigid", 470590976688129i64)] {
                    let b = RecordBatch::try_new(schema.clone(), vec![ids(id0, 1), Arc::new(f.clone())]).unwrap();
                    roundtrip(&format!("fsldec-{name}-{tname}-{iname}"), vec![b], ver, |_| {}).await;
                }
            }
        }
    }
}

pub fn run(args: &Args) -> i32 {
    crate::util::install_quiet_panic_hook();
    let rt = tokio::runtime::Builder::new_current_thread().enable_all().build().unwrap();
    let name = args.extra.get("name").cloned().unwrap_or_default();
    rt.block_on(async {
        match name.as_str() {
            "list" => probe_list_batches().await,
            "itemnull" => probe_list_itemnull().await,
            "nulllist" => probe_nulllist().await,
            "blobs" => probe_blobs().await,
            "fsldec" => probe_fsl_dec().await,
            "fslwide" => probe_fsl_wide().await,
            "blobs21" => probe_blobs21().await,
            "nestedlist" => probe_nested_list().await,
            "allnulllist" => probe_allnull_list().await,
            "slicednull" => probe_sliced_null_list().await,
            "itemnull_min" => probe_itemnull_min().await,
            other => println!("unknown probe {other}"),
        }
    });
    let _ = (NullBuffer::new_null(1), StringBuilder::new(), Int8Type::DATA_TYPE);
    0
}
