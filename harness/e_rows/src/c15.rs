//! C15 — random access agrees with scanning.
//!
//! After a seeded history (appends, deletes, updates, upserts, compactions; stable row ids on/off)
//! the ordered scan with `_rowid` and `_rowaddr` is the reference. Compared against it:
//! `take(offsets)`, `take_rows(row ids)`, `TakeBuilder::try_new_from_addresses(row addresses)`
//! (with and without the address column), `take_scan(ranges)`, each under a random projection and
//! with key lists that contain duplicates, unsorted keys, contiguous runs, first/last row and
//! fragment boundaries. Lists with keys that do not resolve (deleted, out of range, unknown
//! fragment) must fail cleanly or return exactly the resolvable subsequence ("absent").

use arrow_array::RecordBatch;
use futures::TryStreamExt;
use lance::dataset::{ProjectionRequest, TakeBuilder};
use lance::Dataset;
use serde_json::{json, Value};
use std::collections::{BTreeMap, BTreeSet};
use std::sync::Arc;
use vmon::prng::{fnv_str, Rng};
use vmon::report::{Args, Report};
use vmon::table::{cell_at, render_row, Cell, Row};

use crate::hist::{check_contents, observe, Finding, Hist, HistCfg, ORow, Obs, Outcome, ROWADDR, ROWID};
use crate::util::{guard, install_quiet_panic_hook, run_parallel, selftest_requested, Fail, Histo};

#[derive(Clone, Copy, Debug, PartialEq, Eq)]
pub enum Api {
    TakeOffsets,
    TakeRowIds,
    TakeAddrs,
    TakeAddrsWithAddr,
    TakeScan,
}

impl Api {
    fn name(&self) -> &'static str {
        match self {
            Api::TakeOffsets => "take(offsets)",
            Api::TakeRowIds => "take_rows(rowids)",
            Api::TakeAddrs => "take_builder(addresses)",
            Api::TakeAddrsWithAddr => "take_builder(addresses,with_row_address)",
            Api::TakeScan => "take_scan(ranges)",
        }
    }
    fn tag(&self) -> &'static str {
        match self {
            Api::TakeOffsets => "take-offsets",
            Api::TakeRowIds => "take-rowids",
            Api::TakeAddrs => "take-addresses",
            Api::TakeAddrsWithAddr => "take-addresses-with-addr",
            Api::TakeScan => "take-scan",
        }
    }
}

/// One random-access result: column names of the returned batch(es) and the rows.
pub struct Taken {
    pub names: Vec<String>,
    pub rows: Vec<Row>,
}

fn to_taken(batches: &[RecordBatch]) -> Taken {
    let names = batches
        .first()
        .map(|b| b.schema().fields().iter().map(|f| f.name().clone()).collect())
        .unwrap_or_default();
    let mut rows = vec![];
    for b in batches {
        for i in 0..b.num_rows() {
            rows.push(b.columns().iter().map(|c| cell_at(c.as_ref(), i)).collect());
        }
    }
    Taken { names, rows }
}

/// expected cells of `row` under the result's column list
fn project(obs: &Obs, row: &ORow, names: &[String]) -> Row {
    names
        .iter()
        .map(|n| {
            if n == ROWID {
                row.rowid.map(|x| Cell::Int(x as i128)).unwrap_or(Cell::Null)
            } else if n == ROWADDR {
                row.rowaddr.map(|x| Cell::Int(x as i128)).unwrap_or(Cell::Null)
            } else {
                match obs.names.iter().position(|m| m == n) {
                    Some(p) => row.cells[p].clone(),
                    None => Cell::Other(format!("<unexpected column {n}>")),
                }
            }
        })
        .collect()
}

/// The deciding oracle: `expected` = for every requested key the scanned row it resolves to (None
/// if it does not resolve). `all_resolve` lists must come back complete and in order; lists with
/// unresolvable keys, when they succeed, must equal the resolvable subsequence.
pub fn oracle(api: Api, obs: &Obs, expected: &[Option<&ORow>], got: &Taken, requested_cols: &[String]) -> Vec<Finding> {
    let mut out = vec![];
    let tag = api.tag();
    let want: Vec<&ORow> = expected.iter().flatten().copied().collect();
    let hostile = want.len() != expected.len();
    if !got.rows.is_empty() || !got.names.is_empty() {
        for c in requested_cols {
            if !got.names.contains(c) {
                out.push(Finding::new(
                    format!("{tag}-projected-column-missing"),
                    format!("{}: projected column {c} is not in the result {:?}", api.name(), got.names),
                    json!({}),
                ));
                return out;
            }
        }
    }
    if got.rows.len() != want.len() {
        // which rows came back?
        let idp = got.names.iter().position(|n| n == "id");
        let got_ids: Vec<Option<i64>> = got.rows.iter().map(|r| idp.and_then(|p| r[p].as_i64())).collect();
        let live: BTreeSet<i64> = obs.rows.iter().map(|r| r.id).collect();
        let returns_dead = got_ids.iter().flatten().any(|i| !live.contains(i));
        out.push(Finding::new(
            if returns_dead {
                format!("{tag}-returns-row-the-scan-does-not-show")
            } else if hostile {
                format!("{tag}-wrong-row-count-with-unresolvable-keys")
            } else {
                format!("{tag}-wrong-row-count")
            },
            format!(
                "{}: {} keys ({} resolvable) returned {} rows",
                api.name(),
                expected.len(),
                want.len(),
                got.rows.len()
            ),
            json!({"returned_ids": got_ids.iter().take(40).collect::<Vec<_>>(),
                   "expected_ids": want.iter().map(|r| r.id).take(40).collect::<Vec<_>>()}),
        ));
        return out;
    }
    for (i, (w, g)) in want.iter().zip(&got.rows).enumerate() {
        let e = project(obs, w, &got.names);
        if &e != g {
            let idp = got.names.iter().position(|n| n == "id");
            let same_row = idp.map(|p| g[p] == e[p]).unwrap_or(false);
            out.push(Finding::new(
                if same_row {
                    format!("{tag}-wrong-values")
                } else if hostile {
                    format!("{tag}-wrong-row-with-unresolvable-keys")
                } else {
                    format!("{tag}-wrong-row-or-order")
                },
                format!("{}: result row {i} differs from the scanned row for that key", api.name()),
                json!({"position": i, "columns": got.names, "expected": render_row(&e), "returned": render_row(g)}),
            ));
            break;
        }
    }
    out
}

fn boundaries(obs: &Obs) -> Vec<usize> {
    let mut b = vec![];
    for i in 1..obs.rows.len() {
        let f0 = obs.rows[i - 1].rowaddr.map(|a| a >> 32);
        let f1 = obs.rows[i].rowaddr.map(|a| a >> 32);
        if f0 != f1 {
            b.push(i - 1);
            b.push(i);
        }
    }
    b
}

/// positions into the ordered scan: duplicates, unsorted, contiguous runs, first / last, boundaries
fn gen_positions(rng: &mut Rng, n: usize, bounds: &[usize]) -> Vec<usize> {
    if n == 0 {
        return vec![];
    }
    let mut v = vec![];
    match rng.below(6) {
        0 => {
            // contiguous run (fast path of take)
            let a = rng.usize_below(n);
            let len = rng.urange(1, (n - a).min(12));
            v.extend(a..a + len);
        }
        1 => {
            // everything, in order
            v.extend(0..n);
        }
        _ => {
            let m = rng.urange(1, 24);
            for _ in 0..m {
                let p = match rng.below(8) {
                    0 => 0,
                    1 => n - 1,
                    2 | 3 if !bounds.is_empty() => *rng.pick(bounds),
                    _ => rng.usize_below(n),
                };
                v.push(p);
            }
            if rng.chance(1, 3) {
                let d = *rng.pick(&v);
                v.push(d);
                v.push(d);
            }
            match rng.below(3) {
                0 => v.sort(),
                1 => {
                    v.sort();
                    v.dedup();
                }
                _ => {}
            }
        }
    }
    v
}

fn gen_projection(rng: &mut Rng, obs: &Obs, allow_system: bool) -> Vec<String> {
    let mut cols: Vec<String> = vec![];
    if rng.chance(1, 3) {
        cols = obs.names.clone();
    } else {
        for n in &obs.names {
            if n == "id" || rng.bool() {
                cols.push(n.clone());
            }
        }
    }
    if allow_system && rng.chance(1, 3) {
        cols.push(ROWID.into());
    }
    if allow_system && rng.chance(1, 4) {
        cols.push(ROWADDR.into());
    }
    cols
}

struct Ctx<'a> {
    report: &'a Report,
    ops: &'a Histo,
    diag: &'a Histo,
    behaviour: &'a Histo,
    apis: &'a Histo,
}

const WEIGHTS: &[(u32, &str)] = &[
    (3, "append"),
    (4, "delete"),
    (3, "update"),
    (2, "upsert"),
    (1, "partial_upsert"),
    (3, "compact_any"),
];

async fn run_api(
    ds: &Arc<Dataset>,
    api: Api,
    keys: &[u64],
    cols: &[String],
) -> Result<Taken, Fail> {
    let proj = ProjectionRequest::from_columns(cols.iter(), ds.schema());
    match api {
        Api::TakeOffsets => {
            let b = guard(ds.take(keys, proj)).await?;
            Ok(to_taken(&[b]))
        }
        Api::TakeRowIds => {
            let b = guard(ds.take_rows(keys, proj)).await?;
            Ok(to_taken(&[b]))
        }
        Api::TakeAddrs | Api::TakeAddrsWithAddr => {
            let ds2 = ds.clone();
            let keys = keys.to_vec();
            let with = api == Api::TakeAddrsWithAddr;
            let b = guard(async move {
                let plan = Arc::new(proj.into_projection_plan(ds2.clone())?);
                TakeBuilder::try_new_from_addresses(ds2, keys, plan)?
                    .with_row_address(with)
                    .execute()
                    .await
            })
            .await?;
            Ok(to_taken(&[b]))
        }
        Api::TakeScan => {
            // keys = [start0, end0, start1, end1, ...]
            let ranges: Vec<lance::Result<std::ops::Range<u64>>> =
                keys.chunks(2).map(|c| Ok(c[0]..c[1])).collect();
            let schema = match proj {
                ProjectionRequest::Schema(s) => s,
                _ => unreachable!(),
            };
            let ds2 = ds.clone();
            let bs = guard(async move {
                let stream = ds2.take_scan(Box::pin(futures::stream::iter(ranges)), schema, 2);
                let v: Vec<RecordBatch> = stream.try_collect().await?;
                Ok(v)
            })
            .await?;
            Ok(to_taken(&bs))
        }
    }
}

fn corrupt(t: &mut Taken, rng: &mut Rng) -> bool {
    if t.rows.is_empty() {
        return false;
    }
    match rng.below(3) {
        0 if t.rows.len() >= 2 && t.rows[0] != t.rows[t.rows.len() - 1] => {
            let l = t.rows.len() - 1;
            t.rows.swap(0, l);
            true
        }
        1 => {
            t.rows.pop();
            true
        }
        _ => {
            let i = rng.usize_below(t.rows.len());
            let c = rng.usize_below(t.rows[i].len());
            t.rows[i][c] = Cell::Other("corrupted".into());
            true
        }
    }
}


// ---------------------------------------------------------------------------------------------
// blob columns: take_blobs / take_blobs_by_indices vs the bytes that were written
// ---------------------------------------------------------------------------------------------

/// pure oracle: files returned (size reported, bytes read) vs what was written for the requested
/// rows, in order. A NULL blob may be absent from the result or come back as a zero-length file
/// (both behaviours exist: blob.rs filters NULL descriptions, but NULL blobs are stored with a
/// non-NULL description of size 0); everything else must match exactly.
pub fn blob_oracle(api: &str, expected: &[Option<Vec<u8>>], got: &[(u64, Vec<u8>)]) -> Option<Finding> {
    fn align(e: &[Option<Vec<u8>>], g: &[(u64, Vec<u8>)]) -> bool {
        match e.first() {
            None => g.is_empty(),
            Some(Some(b)) => {
                !g.is_empty() && g[0].0 as usize == b.len() && &g[0].1 == b && align(&e[1..], &g[1..])
            }
            Some(None) => {
                align(&e[1..], g) || (!g.is_empty() && g[0].0 == 0 && g[0].1.is_empty() && align(&e[1..], &g[1..]))
            }
        }
    }
    if align(expected, got) {
        return None;
    }
    let non_null = expected.iter().flatten().count();
    let sig = if got.len() < non_null || got.len() > expected.len() {
        format!("{api}-wrong-blob-count")
    } else {
        format!("{api}-wrong-blob-bytes")
    };
    Some(Finding::new(
        sig,
        format!(
            "{api}: {} rows requested ({} non-NULL blobs), {} BlobFiles returned that do not match what was written",
            expected.len(),
            non_null,
            got.len()
        ),
        json!({"expected_sizes": expected.iter().map(|b| b.as_ref().map(|x| x.len())).collect::<Vec<_>>(),
               "returned_sizes": got.iter().map(|g| g.0).collect::<Vec<_>>()}),
    ))
}

async fn blob_case(cx: &Ctx<'_>, seed: u64, idx: u64, rng: &mut Rng) {
    use arrow_array::{Int64Array, LargeBinaryArray, RecordBatchIterator};
    use arrow_schema::{DataType, Field, Schema};
    use lance::dataset::WriteMode;
    use vmon::store::World;
    use vmon::table::Actor;
    let world = World::memory();
    let actor = Actor::new(world.new_actor(0));
    let uri = format!("memory://c15b-{seed}-{idx}");
    let stable = rng.bool();
    let version = *rng.pick(&[
        lance_encoding::version::LanceFileVersion::V2_0,
        lance_encoding::version::LanceFileVersion::V2_1,
    ]);
    let schema = Arc::new(Schema::new(vec![
        Field::new("id", DataType::Int64, false),
        Field::new("b", DataType::LargeBinary, true).with_metadata(
            [("lance-encoding:blob".to_string(), "true".to_string())].into_iter().collect(),
        ),
        Field::new("v", DataType::Int64, false),
    ]));
    let mut model: BTreeMap<i64, Option<Vec<u8>>> = BTreeMap::new();
    let mut next_id = (idx as i64 % 4000 + 1) << 40;
    let mut log: Vec<String> = vec![];
    let mut gen = |rng: &mut Rng, n: usize, model: &mut BTreeMap<i64, Option<Vec<u8>>>| {
        let ids: Vec<i64> = (0..n as i64).map(|i| next_id + i).collect();
        next_id += n as i64;
        let blobs: Vec<Option<Vec<u8>>> = (0..n)
            .map(|_| {
                let len = match rng.below(8) {
                    0 => return None,
                    1 => 0,
                    2 | 3 => rng.urange(1, 16),
                    4 | 5 => rng.urange(100, 600),
                    _ => rng.urange(1000, 5000),
                };
                Some(rng.bytes(len))
            })
            .collect();
        for (i, b) in ids.iter().zip(&blobs) {
            model.insert(*i, b.clone());
        }
        arrow_array::RecordBatch::try_new(
            schema.clone(),
            vec![
                Arc::new(Int64Array::from(ids.clone())),
                Arc::new(LargeBinaryArray::from_iter(blobs.iter().map(|b| b.as_deref()))),
                Arc::new(Int64Array::from(ids)),
            ],
        )
        .unwrap()
    };
    let n0 = rng.urange(6, 30);
    let b0 = gen(rng, n0, &mut model);
    let mut params = actor.write_params(WriteMode::Create);
    params.max_rows_per_file = *rng.pick(&[3usize, 5, 8, 1000]);
    params.enable_stable_row_ids = stable;
    params.data_storage_version = Some(version);
    let reader = RecordBatchIterator::new(vec![Ok(b0)], schema.clone());
    let mut ds = match guard(Dataset::write(reader, uri.as_str(), Some(params))).await {
        Ok(d) => d,
        Err(e) => {
            cx.report.rejected();
            cx.diag.add(&format!("blob-create:{}", e.key()), 1);
            return;
        }
    };
    log.push(format!("create {n0} rows with blob column, stable={stable}, {version:?}"));
    for _ in 0..rng.urange(1, 4) {
        match rng.below(3) {
            0 => {
                let n = rng.urange(1, 8);
                let b = gen(rng, n, &mut model);
                let mut p = actor.write_params(WriteMode::Append);
                p.max_rows_per_file = *rng.pick(&[2usize, 4, 1000]);
                let reader = RecordBatchIterator::new(vec![Ok(b)], schema.clone());
                let mut d = ds.clone();
                match guard(async {
                    d.append(reader, Some(p)).await?;
                    Ok(d)
                })
                .await
                {
                    Ok(d) => {
                        ds = d;
                        log.push(format!("append {n}"));
                    }
                    Err(e) => {
                        // the ids were put into the model by gen(): take them out again
                        let keep: Vec<i64> = model.keys().rev().take(n).copied().collect();
                        for k in keep {
                            model.remove(&k);
                        }
                        cx.diag.add(&format!("blob-append:{}", e.key()), 1);
                    }
                }
            }
            1 => {
                let m = rng.range(2, 5);
                let r = rng.range(0, m - 1);
                let mut d = ds.clone();
                let sql = format!("id % {m} = {r}");
                if let Ok(d) = guard(async {
                    d.delete(&sql).await?;
                    Ok(d)
                })
                .await
                {
                    ds = d;
                    model.retain(|id, _| id % m != r);
                    log.push(format!("delete where {sql}"));
                }
            }
            _ => {
                let mut d = ds.clone();
                let opts = lance::dataset::optimize::CompactionOptions {
                    target_rows_per_fragment: *rng.pick(&[4usize, 16, 1 << 20]),
                    materialize_deletions_threshold: 0.0,
                    ..Default::default()
                };
                match guard(async {
                    lance::dataset::optimize::compact_files(&mut d, opts, None).await?;
                    Ok(d)
                })
                .await
                {
                    Ok(d) => {
                        ds = d;
                        log.push("compact_files".into());
                    }
                    Err(e) => cx.diag.add(&format!("blob-compact:{}", e.key()), 1),
                }
            }
        }
    }
    // reference: ordered scan of id with row id / address
    let keys = guard(async {
        let mut s = ds.scan();
        s.project(&["id"])?;
        s.with_row_id().with_row_address().scan_in_order(true);
        let bs: Vec<RecordBatch> = s.try_into_stream().await?.try_collect().await?;
        let mut v = vec![];
        for b in &bs {
            for i in 0..b.num_rows() {
                let g = |n: &str| cell_at(b.column_by_name(n).unwrap().as_ref(), i);
                v.push((g("id").as_i64().unwrap_or(-1), g(ROWID), g(ROWADDR)));
            }
        }
        Ok(v)
    })
    .await;
    let Ok(keys) = keys else {
        cx.diag.add("blob-reference-scan-failed", 1);
        return;
    };
    let ids_scanned: BTreeSet<i64> = keys.iter().map(|k| k.0).collect();
    if ids_scanned != model.keys().copied().collect::<BTreeSet<_>>() {
        cx.report.violation(
            "blob-table-rows-differ-from-model",
            "the table with a blob column does not hold the rows that were written / not deleted",
            json!({"seed": seed, "case": idx, "history": log}),
        );
        return;
    }
    if keys.is_empty() {
        return;
    }
    let ds = Arc::new(ds);
    for round in 0..3 {
        let by_index = round % 2 == 1;
        let n = keys.len();
        let m = rng.urange(1, n.min(12));
        let mut pos: Vec<usize> = (0..m).map(|_| rng.usize_below(n)).collect();
        if rng.bool() {
            pos.sort();
            pos.dedup();
        }
        let expected: Vec<Option<Vec<u8>>> = pos.iter().map(|p| model[&keys[*p].0].clone()).collect();
        let req: Vec<u64> = pos
            .iter()
            .map(|p| {
                if by_index {
                    *p as u64
                } else {
                    match &keys[*p].1 {
                        Cell::Int(x) => *x as u64,
                        _ => 0,
                    }
                }
            })
            .collect();
        let api = if by_index { "take_blobs_by_indices" } else { "take_blobs" };
        let ds2 = ds.clone();
        let req2 = req.clone();
        let res = guard(async move {
            let files = if by_index {
                ds2.take_blobs_by_indices(&req2, "b").await?
            } else {
                ds2.take_blobs(&req2, "b").await?
            };
            let mut out: Vec<(u64, Result<Vec<u8>, String>)> = vec![];
            for f in files {
                match f.read().await {
                    Ok(bytes) => out.push((f.size(), Ok(bytes.to_vec()))),
                    Err(e) => out.push((f.size(), Err(e.to_string()))),
                }
            }
            Ok(out)
        })
        .await;
        // a BlobFile that cannot be read
        let res = match res {
            Ok(v) => {
                if let Some((size, Err(e))) = v.iter().find(|x| x.1.is_err()) {
                    let sig = if *size == 0 {
                        "empty-blob-cannot-be-read".to_string()
                    } else {
                        format!("{api}-blob-read-fails")
                    };
                    let new = cx.report.violation(
                        &sig,
                        &format!("BlobFile::read fails for a blob of size {size} returned by {api}"),
                        json!({"seed": seed, "case": idx, "keys": req, "error": e.chars().take(300).collect::<String>(),
                               "history": log, "stable_row_ids": stable}),
                    );
                    if new || v.iter().any(|x| x.1.is_err() && x.0 != 0) {
                        return;
                    }
                    // known class (zero-length read): go on with the other files
                }
                Ok(v.into_iter().map(|(s, b)| (s, b.unwrap_or_default())).collect::<Vec<_>>())
            }
            Err(e) => Err(e),
        };
        match res {
            Err(e) => {
                let sig = if by_index && stable {
                    // same root cause: addresses looked up as row ids -> nothing resolves -> the
                    // empty result lacks the address column blob.rs indexes into
                    "take_blobs_by_indices-loses-blobs:stable-row-ids".to_string()
                } else {
                    format!("{api}-fails-on-live-keys[{}]", crate::c11::err_site(&e.msg()))
                };
                cx.report.violation(
                    &sig,
                    &format!("{api} fails on keys the scan reported"),
                    json!({"seed": seed, "case": idx, "keys": req, "error": e.brief(), "history": log, "stable_row_ids": stable}),
                );
                return;
            }
            Ok(got) => {
                cx.report.count("blobs_compared", got.len() as u64);
                cx.apis.add(api, 1);
                if let Some(f) = blob_oracle(api, &expected, &got) {
                    let sig = if by_index && stable {
                        // take_blobs_by_indices hands row *addresses* to a lookup by row *id*
                        "take_blobs_by_indices-loses-blobs:stable-row-ids".to_string()
                    } else {
                        f.sig.clone()
                    };
                    cx.report.violation(
                        &sig,
                        &f.what,
                        json!({"seed": seed, "case": idx, "keys": req, "detail": f.detail, "history": log, "stable_row_ids": stable}),
                    );
                    return;
                }
            }
        }
    }
}

async fn run_case(cx: &Ctx<'_>, seed: u64, idx: u64, thorough: bool, selftest: bool) -> (u64, u64) {
    let mut rng = Rng::for_case(seed, idx);
    let cfg = HistCfg::random(&mut rng, None);
    let stable = cfg.stable;
    let mut h = match Hist::create(&mut rng, cfg.clone(), &format!("c15-{seed}-{idx}"), (idx % 4000) as usize + 1).await {
        Ok(h) => h,
        Err(e) => {
            cx.report.rejected();
            cx.diag.add(&format!("create:{}", e.brief().chars().take(160).collect::<String>()), 1);
            return (0, 0);
        }
    };
    let nsteps = if thorough { rng.urange(4, 14) } else { rng.urange(3, 9) };
    let mut kinds = vec![];
    let mut seen_rowids: BTreeSet<u64> = BTreeSet::new();
    let mut seen_addrs: BTreeSet<u64> = BTreeSet::new();
    let harvest = |o: &Obs, a: &mut BTreeSet<u64>, b: &mut BTreeSet<u64>| {
        for r in &o.rows {
            if let Some(x) = r.rowid {
                a.insert(x);
            }
            if let Some(x) = r.rowaddr {
                b.insert(x);
            }
        }
    };
    for _ in 0..nsteps {
        if let Ok(o) = guard(observe(&h.ds, stable)).await {
            harvest(&o, &mut seen_rowids, &mut seen_addrs);
        }
        let op = h.gen_op(&mut rng, WEIGHTS);
        let out = h.apply(&mut rng, &op).await;
        cx.ops.add(op.kind(), 1);
        match out {
            Outcome::Applied => kinds.push(op.kind()),
            Outcome::Rejected(f) | Outcome::Failed(f) => {
                cx.diag.add(&format!("{}:{}", op.kind(), f.key()), 1)
            }
            _ => {}
        }
    }
    // ---- reference: the ordered scan
    let ds = if rng.bool() {
        match guard(h.actor.fresh_session().open(&h.uri)).await {
            Ok(d) => d,
            Err(e) => {
                cx.report.inconclusive(&format!("case {idx}: reopen failed: {}", e.brief()));
                return (0, 0);
            }
        }
    } else {
        h.ds.clone()
    };
    let obs = match guard(observe(&ds, stable)).await {
        Ok(o) => o,
        Err(e) => {
            cx.report.inconclusive(&format!("case {idx}: reference scan failed: {}", e.brief()));
            return (0, 0);
        }
    };
    let pre = check_contents(&h.model, &obs, "history");
    if !pre.is_empty() {
        for f in pre {
            cx.report.violation(&f.sig, &f.what, json!({"seed": seed, "case": idx, "detail": f.detail, "history": h.log_json()}));
        }
        return (0, 0);
    }
    let ds = Arc::new(ds);
    let n = obs.rows.len();
    let bounds = boundaries(&obs);
    let by_rowid: BTreeMap<u64, &ORow> = obs.rows.iter().filter_map(|r| r.rowid.map(|x| (x, r))).collect();
    let by_addr: BTreeMap<u64, &ORow> = obs.rows.iter().filter_map(|r| r.rowaddr.map(|x| (x, r))).collect();
    if by_rowid.len() != n || by_addr.len() != n {
        cx.report.violation(
            "scan-reports-duplicate-rowid-or-rowaddr",
            "two scanned rows share a _rowid or _rowaddr",
            json!({"seed": seed, "case": idx, "rows": n, "distinct_rowids": by_rowid.len(), "distinct_addrs": by_addr.len(), "history": h.log_json()}),
        );
        return (0, 0);
    }
    harvest(&obs, &mut seen_rowids, &mut seen_addrs);
    let dead_rowids: Vec<u64> = seen_rowids.iter().filter(|x| !by_rowid.contains_key(x)).copied().collect();
    let dead_addrs: Vec<u64> = seen_addrs.iter().filter(|x| !by_addr.contains_key(x)).copied().collect();
    let max_frag = ds.get_fragments().iter().map(|f| f.id() as u64).max().unwrap_or(0);
    let (mut applied, mut detected) = (0u64, 0u64);
    let mut keys_checked = 0u64;
    let mut hostile_lists = 0u64;
    let mut apis_done: BTreeSet<&'static str> = BTreeSet::new();
    let rounds = if thorough { 14 } else { 8 };
    for round in 0..rounds {
        let api = *rng.pick(&[
            Api::TakeOffsets,
            Api::TakeOffsets,
            Api::TakeRowIds,
            Api::TakeRowIds,
            Api::TakeAddrs,
            Api::TakeAddrsWithAddr,
            Api::TakeScan,
        ]);
        let hostile = round >= 2 && rng.chance(1, 3) && api != Api::TakeScan;
        let mut cols = gen_projection(&mut rng, &obs, api != Api::TakeScan);
        if api == Api::TakeAddrsWithAddr {
            // asking for the address column twice is a usage error, not the subject here
            cols.retain(|c| c != ROWADDR);
        }
        // ---- keys and what they resolve to
        let mut keys: Vec<u64> = vec![];
        let mut expected: Vec<Option<&ORow>> = vec![];
        if api == Api::TakeScan {
            let nr = rng.urange(1, 3);
            for _ in 0..nr {
                if n == 0 {
                    break;
                }
                let a = rng.usize_below(n);
                let b = (a + rng.urange(0, 9)).min(n);
                keys.push(a as u64);
                keys.push(b as u64);
                for p in a..b {
                    expected.push(Some(&obs.rows[p]));
                }
            }
            if keys.is_empty() {
                continue;
            }
        } else {
            let pos = gen_positions(&mut rng, n, &bounds);
            for p in pos {
                let r = &obs.rows[p];
                keys.push(match api {
                    Api::TakeOffsets => p as u64,
                    Api::TakeRowIds => r.rowid.unwrap(),
                    _ => r.rowaddr.unwrap(),
                });
                expected.push(Some(r));
            }
            if hostile {
                let k = rng.urange(1, 3);
                for _ in 0..k {
                    let bad: u64 = match api {
                        Api::TakeOffsets => n as u64 + rng.below(5),
                        Api::TakeRowIds => {
                            if !dead_rowids.is_empty() && rng.chance(2, 3) {
                                *rng.pick(&dead_rowids)
                            } else if stable {
                                // never assigned: beyond the manifest's next_row_id
                                ds.manifest().next_row_id + rng.below(100)
                            } else {
                                ((max_frag + 1 + rng.below(3)) << 32) | rng.below(4)
                            }
                        }
                        _ => {
                            if !dead_addrs.is_empty() && rng.chance(2, 3) {
                                *rng.pick(&dead_addrs)
                            } else if rng.bool() {
                                ((max_frag + 1 + rng.below(3)) << 32) | rng.below(4)
                            } else {
                                (max_frag << 32) | (100_000 + rng.below(10))
                            }
                        }
                    };
                    let at = rng.usize_below(keys.len() + 1);
                    keys.insert(at, bad);
                    expected.insert(at, None);
                }
            }
            if keys.is_empty() {
                continue;
            }
        }
        let res = run_api(&ds, api, &keys, &cols).await;
        cx.apis.add(api.name(), 1);
        let witness = |extra: Value| {
            json!({"seed": seed, "case": idx, "api": api.name(), "keys": keys, "projection": cols, "stable_row_ids": stable,
                   "detail": extra, "history": h.log_json()})
        };
        match res {
            Err(e) => {
                if hostile {
                    // documented alternative to "absent": a clean error
                    cx.behaviour.add(&format!("{} with unresolvable key -> error {}", api.name(), e.class()), 1);
                    hostile_lists += 1;
                    if matches!(e, Fail::Panic(_)) {
                        let none_resolves = expected.iter().all(|x| x.is_none());
                        let sig = if none_resolves {
                            // one class for all APIs: the panic site decides
                            format!("take-panics-when-no-key-resolves[{}]", crate::c11::err_site(&e.msg()))
                        } else {
                            format!("{}-panics-on-unresolvable-key", api.tag())
                        };
                        cx.report.violation(
                            &sig,
                            "random access with a deleted / out-of-range key panics",
                            witness(json!({"error": e.brief()})),
                        );
                        return (applied, detected);
                    }
                } else {
                    cx.report.violation(
                        &format!("{}-fails-on-live-keys", api.tag()),
                        &format!("{} fails although every key was reported by the scan", api.name()),
                        witness(json!({"error": e.brief()})),
                    );
                    return (applied, detected);
                }
            }
            Ok(mut got) => {
                if hostile {
                    cx.behaviour.add(&format!("{} with unresolvable key -> ok (absent)", api.name()), 1);
                    hostile_lists += 1;
                }
                if selftest {
                    let mut crng = Rng::for_case(seed ^ 0xFEED, idx * 32 + round as u64);
                    if !hostile && corrupt(&mut got, &mut crng) {
                        applied += 1;
                        if !oracle(api, &obs, &expected, &got, &cols).is_empty() {
                            detected += 1;
                        }
                    }
                    continue;
                }
                let f = oracle(api, &obs, &expected, &got, &cols);
                keys_checked += keys.len() as u64;
                apis_done.insert(api.tag());
                if let Some(f) = f.into_iter().next() {
                    let sig = format!("{}{}", f.sig, if stable { "-stable-row-ids" } else { "" });
                    cx.report.violation(&sig, &f.what, witness(f.detail));
                    return (0, 0);
                }
            }
        }
    }
    if selftest {
        return (applied, detected);
    }
    // ---- every _rowid / _rowaddr the scan reports resolves back to the same row
    if n > 0 {
        let all_ids: Vec<u64> = obs.rows.iter().map(|r| r.rowid.unwrap()).collect();
        let all_addrs: Vec<u64> = obs.rows.iter().map(|r| r.rowaddr.unwrap()).collect();
        let exp: Vec<Option<&ORow>> = obs.rows.iter().map(Some).collect();
        let cols = vec!["id".to_string(), "v".to_string()];
        for (api, keys) in [(Api::TakeRowIds, &all_ids), (Api::TakeAddrs, &all_addrs)] {
            match run_api(&ds, api, keys, &cols).await {
                Err(e) => {
                    cx.report.violation(
                        &format!("{}-fails-on-live-keys", api.tag()),
                        "resolving every key the scan reported fails",
                        json!({"seed": seed, "case": idx, "error": e.brief(), "history": h.log_json()}),
                    );
                    return (0, 0);
                }
                Ok(got) => {
                    keys_checked += keys.len() as u64;
                    if let Some(f) = oracle(api, &obs, &exp, &got, &cols).into_iter().next() {
                        cx.report.violation(
                            &format!("scan-key-does-not-resolve-back-{}{}", f.sig, if stable { "-stable-row-ids" } else { "" }),
                            &f.what,
                            json!({"seed": seed, "case": idx, "detail": f.detail, "history": h.log_json()}),
                        );
                        return (0, 0);
                    }
                }
            }
        }
    }
    if rng.chance(1, 3) {
        blob_case(cx, seed, idx, &mut rng).await;
    }
    cx.report.count("keys_compared", keys_checked);
    cx.report.count("lists_with_unresolvable_keys", hostile_lists);
    cx.report.count("rows_in_reference_scans", n as u64);
    let deletions = ds.count_deleted_rows().await.unwrap_or(0);
    let nontrivial = n >= 2 && ds.count_fragments() >= 2 && apis_done.len() >= 2 && (deletions > 0 || kinds.iter().any(|k| k.starts_with("compact")));
    let sig = format!(
        "{:?}|{}|{}|{}|{}",
        cfg.version,
        stable,
        kinds.join(","),
        ds.count_fragments(),
        apis_done.iter().copied().collect::<Vec<_>>().join("+")
    );
    cx.report.case(if nontrivial { Some(fnv_str(&sig)) } else { None });
    if nontrivial && cx.report.want_sample() {
        cx.report.sample(json!({"case": idx, "rows": n, "fragments": ds.count_fragments(), "deleted_rows": deletions,
                                "apis": apis_done.iter().collect::<Vec<_>>(), "history": h.log_json()}));
    }
    (0, 0)
}

pub fn run(args: &Args) -> i32 {
    install_quiet_panic_hook();
    let report = Report::new(
        args,
        "exploration",
        "One case = a seeded history (3-9 ops quick: append/delete/update/upsert/partial merge/compaction; stable row ids \
         on/off; storage 2.0/2.1/2.2) followed by 8 (quick) random-access calls drawn from take(offsets), take_rows(row ids), \
         TakeBuilder(addresses)(+address column), take_scan(ranges) with random projections and key lists (duplicates, \
         unsorted, contiguous, first/last, fragment boundaries; one third with deleted / out-of-range keys), each compared \
         with the ordered scan; finally every _rowid and _rowaddr of the scan is resolved back. Non-trivial = >=2 fragments, \
         >=2 rows, deletions or a compaction in the history, >=2 APIs compared; distinct by (version, stable, op kinds, \
         fragment count, APIs).",
        (85, 900),
    )
    .with_min_nontrivial(args.tier.pick(40, 400));
    let ops = Histo::default();
    let diag = Histo::default();
    let behaviour = Histo::default();
    let apis = Histo::default();
    let cx = Ctx {
        report: &report,
        ops: &ops,
        diag: &diag,
        behaviour: &behaviour,
        apis: &apis,
    };
    let selftest = selftest_requested(args);
    let thorough = args.tier == vmon::report::Tier::Thorough;
    let max_cases = if selftest { 60 } else { args.tier.pick(700, 40_000) };
    let st = std::sync::Mutex::new((0u64, 0u64));
    if let Some(i) = args.extra.get("case").and_then(|s| s.parse::<u64>().ok()) {
        let rt = tokio::runtime::Builder::new_current_thread().enable_all().build().unwrap();
        rt.block_on(run_case(&cx, args.seed, i, thorough, false));
    } else {
        run_parallel(&report, max_cases, 16, |i, rt| {
            let r = rt.block_on(run_case(&cx, args.seed, i, thorough, selftest));
            let mut g = st.lock().unwrap();
            g.0 += r.0;
            g.1 += r.1;
        });
    }
    if selftest {
        let mut g = st.lock().unwrap();
        // blob oracle (pure): dropped file, flipped byte, wrong size
        let exp = vec![Some(vec![1u8, 2, 3]), None, Some(vec![]), Some(vec![9u8; 10])];
        let good: Vec<(u64, Vec<u8>)> = exp.iter().flatten().map(|b| (b.len() as u64, b.clone())).collect();
        assert!(blob_oracle("take_blobs", &exp, &good).is_none());
        let mut c1 = good.clone();
        c1.pop();
        let mut c2 = good.clone();
        c2[0].1[1] ^= 1;
        let mut c3 = good.clone();
        c3[2].0 = 9;
        for c in [c1, c2, c3] {
            g.0 += 1;
            if blob_oracle("take_blobs", &exp, &c).is_some() {
                g.1 += 1;
            }
        }
        println!("SELFTEST C15 corruptions_applied={} detected={}", g.0, g.1);
        return if g.0 > 0 && g.0 == g.1 { 0 } else { 2 };
    }
    report.set("ops_by_kind", ops.json());
    report.set("table_shapes", crate::hist::TABLE_SHAPES.json());
    report.set("api_calls", apis.json());
    report.set("behaviour_on_unresolvable_keys", behaviour.json());
    report.set("op_failures_and_rejections", diag.json());
    report.assume("the ordered full scan is the reference (its agreement with the written data is C11/C12's subject)");
    report.finish()
}
