//! Small shared helpers: parallel case driver (one tokio runtime per thread), quiet panic capture,
//! error classification, histogram counters.

use futures::FutureExt;
use std::collections::BTreeMap;
use std::future::Future;
use std::panic::AssertUnwindSafe;
use std::sync::atomic::{AtomicU64, Ordering};
use std::sync::Mutex;
use vmon::report::Report;

thread_local! {
    static LAST_PANIC: std::cell::RefCell<Option<String>> = const { std::cell::RefCell::new(None) };
}

/// Panics from Lance are caught per call; keep stderr readable and remember the message + location.
pub fn install_quiet_panic_hook() {
    if std::env::var("E_ROWS_LOUD").is_ok() {
        return; // keep the default hook (message + backtrace on stderr) for debugging
    }
    std::panic::set_hook(Box::new(|info| {
        let loc = info
            .location()
            .map(|l| format!("{}:{}", l.file(), l.line()))
            .unwrap_or_default();
        let msg = if let Some(s) = info.payload().downcast_ref::<&str>() {
            s.to_string()
        } else if let Some(s) = info.payload().downcast_ref::<String>() {
            s.clone()
        } else {
            "<non-string panic>".to_string()
        };
        let full = format!("{msg} @ {loc}");
        PANICS.lock().unwrap().push(full.clone());
        LAST_PANIC.with(|p| *p.borrow_mut() = Some(full));
    }));
}

static PANICS: Mutex<Vec<String>> = Mutex::new(Vec::new());

pub fn take_last_panic() -> Option<String> {
    let local = LAST_PANIC.with(|p| p.borrow_mut().take());
    if local.is_some() {
        return local;
    }
    // panic may have happened on another (Lance CPU pool) thread
    PANICS.lock().unwrap().last().cloned()
}

#[derive(Debug, Clone)]
pub enum Fail {
    /// an `Err` of Lance
    Err { class: String, msg: String },
    Panic(String),
}

impl Fail {
    pub fn class(&self) -> String {
        match self {
            Fail::Err { class, .. } => class.clone(),
            Fail::Panic(_) => "Panic".into(),
        }
    }
    pub fn msg(&self) -> String {
        match self {
            Fail::Err { msg, .. } => msg.clone(),
            Fail::Panic(m) => m.clone(),
        }
    }
    /// documented rejection classes: the API said "no" to the input
    pub fn is_clean_rejection(&self) -> bool {
        matches!(
            self.class().as_str(),
            "InvalidInput" | "NotSupported" | "SchemaMismatch" | "Schema" | "Arrow"
        )
    }
    /// class + head of the message + its tail (panic location) — for diagnostic histograms
    pub fn key(&self) -> String {
        let m = self.msg();
        let n = m.chars().count();
        if n <= 170 {
            format!("{}: {}", self.class(), m)
        } else {
            let head: String = m.chars().take(110).collect();
            let tail: String = m.chars().skip(n - 60).collect();
            format!("{}: {} … {}", self.class(), head, tail)
        }
    }
    pub fn brief(&self) -> String {
        let m = self.msg();
        let m: String = m.chars().take(300).collect();
        format!("{}: {}", self.class(), m)
    }
}

pub fn err_class(e: &lance::Error) -> String {
    use lance::Error::*;
    match e {
        InvalidInput { .. } => "InvalidInput",
        DatasetAlreadyExists { .. } => "DatasetAlreadyExists",
        SchemaMismatch { .. } => "SchemaMismatch",
        DatasetNotFound { .. } => "DatasetNotFound",
        CorruptFile { .. } => "CorruptFile",
        NotSupported { .. } => "NotSupported",
        CommitConflict { .. } => "CommitConflict",
        RetryableCommitConflict { .. } => "RetryableCommitConflict",
        TooMuchWriteContention { .. } => "TooMuchWriteContention",
        Internal { .. } => "Internal",
        PrerequisiteFailed { .. } => "PrerequisiteFailed",
        Arrow { .. } => "Arrow",
        Schema { .. } => "Schema",
        NotFound { .. } => "NotFound",
        IO { .. } => "IO",
        Index { .. } => "Index",
        IndexNotFound { .. } => "IndexNotFound",
        Execution { .. } => "Execution",
        Wrapped { .. } => "Wrapped",
        Cloned { .. } => "Cloned",
        VersionNotFound { .. } => "VersionNotFound",
        VersionConflict { .. } => "VersionConflict",
        _ => "Other",
    }
    .to_string()
}

/// Await a Lance call, catching panics.
pub async fn guard<T, F>(fut: F) -> Result<T, Fail>
where
    F: Future<Output = lance::Result<T>>,
{
    match AssertUnwindSafe(fut).catch_unwind().await {
        Ok(Ok(v)) => Ok(v),
        Ok(Err(e)) => {
            let msg = e.to_string();
            // a panic inside a spawned task surfaces as an error mentioning it
            Err(Fail::Err {
                class: err_class(&e),
                msg,
            })
        }
        Err(_) => Err(Fail::Panic(
            take_last_panic().unwrap_or_else(|| "<panic>".into()),
        )),
    }
}

/// Run cases `0..max_cases` on `threads` OS threads, each with its own tokio runtime, until the
/// report's time budget is used up. `f(case_index, runtime)` runs one case.
pub fn run_parallel<F>(report: &Report, max_cases: u64, threads: usize, f: F)
where
    F: Fn(u64, &tokio::runtime::Runtime) + Sync,
{
    let next = AtomicU64::new(0);
    // the lead caps worker threads through VERIF_THREADS when the machine is shared
    let threads = std::env::var("VERIF_THREADS")
        .ok()
        .and_then(|s| s.parse::<usize>().ok())
        .filter(|n| *n >= 1)
        .unwrap_or(threads);
    std::thread::scope(|s| {
        for t in 0..threads {
            let next = &next;
            let f = &f;
            std::thread::Builder::new()
                .name(format!("case-{t}"))
                .stack_size(16 << 20)
                .spawn_scoped(s, move || {
                    let rt = tokio::runtime::Builder::new_current_thread()
                        .enable_all()
                        .build()
                        .expect("runtime");
                    loop {
                        if !report.time_left() {
                            break;
                        }
                        let i = next.fetch_add(1, Ordering::SeqCst);
                        if i >= max_cases {
                            break;
                        }
                        let r = std::panic::catch_unwind(AssertUnwindSafe(|| f(i, &rt)));
                        if r.is_err() {
                            report.harness_error(&format!(
                                "case {i} panicked outside a guarded Lance call: {}",
                                take_last_panic().unwrap_or_default()
                            ));
                        }
                    }
                })
                .expect("spawn");
        }
    });
}

/// Thread-safe string histogram folded into the evidence at the end.
#[derive(Default)]
pub struct Histo(Mutex<BTreeMap<String, u64>>);

impl Histo {
    pub const fn new() -> Self {
        Self(Mutex::new(BTreeMap::new()))
    }
    pub fn add(&self, k: &str, n: u64) {
        *self.0.lock().unwrap().entry(k.to_string()).or_insert(0) += n;
    }
    pub fn json(&self) -> serde_json::Value {
        serde_json::to_value(&*self.0.lock().unwrap()).unwrap()
    }
    pub fn len(&self) -> usize {
        self.0.lock().unwrap().len()
    }
}

pub fn selftest_requested(args: &vmon::report::Args) -> bool {
    args.extra.contains_key("selftest") || std::env::args().any(|a| a == "--selftest")
}
