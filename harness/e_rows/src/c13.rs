//! C13 — compaction never changes table contents.
//!
//! Tables made of many small and partially deleted fragments (appends with tiny files, deletes,
//! updates, upserts), optionally a btree / bitmap index on `k` that covers only part of the
//! fragments; then compaction rounds with random `CompactionOptions` (materialise on/off and
//! threshold, batch size, byte limit, `defer_index_remap`) either through `compact_files` or
//! through `plan_compaction` -> `CompactionTask::execute` -> `commit_compaction` of random subsets
//! in random order. Before/after each round: multiset of rows, `count_rows`, with stable row ids the
//! map id -> (`_rowid`, created-at, last-updated), and a fixed battery of indexed queries.

use futures::TryStreamExt;
use lance::Dataset;
use serde_json::json;
use std::collections::BTreeMap;
use vmon::prng::{fnv_str, Rng};
use vmon::report::{Args, Report};
use vmon::table::render_row;

use crate::hist::{check_contents, observe, Finding, Hist, HistCfg, IdxKind, Model, Obs, Op, Outcome};
use crate::util::{guard, install_quiet_panic_hook, run_parallel, selftest_requested, Fail, Histo};

#[derive(Clone, Debug)]
pub struct Snap {
    pub obs: Obs,
    pub count: usize,
    /// (query, sorted ids, plan used the scalar index)
    pub queries: Vec<(String, Vec<i64>, bool)>,
}

pub fn battery() -> Vec<String> {
    vec![
        "k = 0".into(),
        "k = 3".into(),
        "k = 11".into(),
        "k = -2".into(),
        "k < 2".into(),
        "k >= 7".into(),
        "k > -1 AND k <= 4".into(),
        "k IN (1, 5, 9)".into(),
        "k BETWEEN 2 AND 6".into(),
        "k = 4 AND id % 2 = 0".into(),
        "k IS NULL".into(),
    ]
}

async fn query_ids(ds: &Dataset, q: &str) -> lance::Result<(Vec<i64>, bool)> {
    let mut s = ds.scan();
    s.filter(q)?;
    s.project(&["id"])?;
    let plan = s.explain_plan(false).await.unwrap_or_default();
    let used = plan.contains("ScalarIndexQuery") || plan.contains("MaterializeIndex");
    let bs: Vec<arrow_array::RecordBatch> = s.try_into_stream().await?.try_collect().await?;
    let mut ids = vec![];
    for b in &bs {
        let a = b
            .column_by_name("id")
            .and_then(|c| c.as_any().downcast_ref::<arrow_array::Int64Array>().cloned());
        if let Some(a) = a {
            ids.extend(a.values().iter().copied());
        }
    }
    ids.sort();
    Ok((ids, used))
}

pub async fn snapshot(ds: &Dataset, stable: bool, with_queries: bool) -> Result<Snap, Fail> {
    let obs = guard(observe(ds, stable)).await?;
    let count = guard(ds.count_rows(None)).await?;
    let mut queries = vec![];
    if with_queries {
        for q in battery() {
            let (ids, used) = guard(query_ids(ds, &q)).await?;
            queries.push((q, ids, used));
        }
    }
    Ok(Snap { obs, count, queries })
}

/// The deciding oracle: pure function of (snapshot before, snapshot after, model).
pub fn oracle(before: &Snap, after: &Snap, model: &Model, stable: bool, what: &str) -> Vec<Finding> {
    let mut out = vec![];
    // the table still equals the model (compaction has no row-level effect)
    out.extend(check_contents(model, &after.obs, what));
    // multiset of rows before == after
    let b = before.obs.by_id();
    let a = after.obs.by_id();
    if after.obs.rows.len() != a.len() {
        out.push(Finding::new(
            format!("duplicate-rows-after-{what}"),
            format!("{} rows but {} distinct ids after compaction", after.obs.rows.len(), a.len()),
            json!({}),
        ));
    }
    let lost: Vec<i64> = b.keys().filter(|k| !a.contains_key(k)).copied().collect();
    let gained: Vec<i64> = a.keys().filter(|k| !b.contains_key(k)).copied().collect();
    if !lost.is_empty() {
        out.push(Finding::new(
            format!("rows-lost-by-{what}"),
            format!("{} rows visible before compaction are gone", lost.len()),
            json!({"ids": lost.iter().take(20).collect::<Vec<_>>()}),
        ));
    }
    if !gained.is_empty() {
        out.push(Finding::new(
            format!("rows-resurrected-by-{what}"),
            format!("{} rows not visible before compaction appear after it", gained.len()),
            json!({"ids": gained.iter().take(20).collect::<Vec<_>>()}),
        ));
    }
    let mut rowid_changed = vec![];
    let mut created_changed = vec![];
    let mut updated_changed = vec![];
    for (id, rb) in &b {
        let Some(ra) = a.get(id) else { continue };
        if rb.cells != ra.cells {
            out.push(Finding::new(
                format!("row-values-changed-by-{what}"),
                format!("id {id} has different values after compaction"),
                json!({"id": id, "before": render_row(&rb.cells), "after": render_row(&ra.cells)}),
            ));
            break;
        }
        if stable {
            if rb.rowid != ra.rowid {
                rowid_changed.push((*id, rb.rowid, ra.rowid));
            }
            if rb.created != ra.created {
                created_changed.push((*id, rb.created, ra.created));
            }
            if rb.updated != ra.updated {
                updated_changed.push((*id, rb.updated, ra.updated));
            }
        }
    }
    if let Some(x) = rowid_changed.first() {
        out.push(Finding::new(
            format!("rowid-changed-by-{what}"),
            format!("{} rows changed _rowid; e.g. id {} {:?} -> {:?}", rowid_changed.len(), x.0, x.1, x.2),
            json!({"examples": rowid_changed.iter().take(5).map(|x| json!([x.0, x.1, x.2])).collect::<Vec<_>>()}),
        ));
    }
    if let Some(x) = created_changed.first() {
        out.push(Finding::new(
            format!("created-at-version-changed-by-{what}"),
            format!(
                "{} rows changed _row_created_at_version; e.g. id {} {:?} -> {:?}",
                created_changed.len(),
                x.0,
                x.1,
                x.2
            ),
            json!({"examples": created_changed.iter().take(5).map(|x| json!([x.0, x.1, x.2])).collect::<Vec<_>>()}),
        ));
    }
    if let Some(x) = updated_changed.first() {
        out.push(Finding::new(
            format!("last-updated-version-changed-by-{what}"),
            format!(
                "{} rows changed _row_last_updated_at_version; e.g. id {} {:?} -> {:?}",
                updated_changed.len(),
                x.0,
                x.1,
                x.2
            ),
            json!({"examples": updated_changed.iter().take(5).map(|x| json!([x.0, x.1, x.2])).collect::<Vec<_>>()}),
        ));
    }
    if before.count != after.count {
        out.push(Finding::new(
            format!("count-rows-changed-by-{what}"),
            format!("count_rows {} -> {}", before.count, after.count),
            json!({}),
        ));
    }
    // row addresses must stay unique
    let mut addrs: BTreeMap<u64, i64> = BTreeMap::new();
    for r in &after.obs.rows {
        if let Some(ad) = r.rowaddr {
            if let Some(o) = addrs.insert(ad, r.id) {
                out.push(Finding::new(
                    format!("rowaddr-shared-after-{what}"),
                    format!("_rowaddr {ad} reported for ids {o} and {}", r.id),
                    json!({}),
                ));
                break;
            }
        }
    }
    // indexed queries return the same rows
    for ((q, ib, _), (_, ia, used)) in before.queries.iter().zip(&after.queries) {
        if ib != ia {
            let lost: Vec<&i64> = ib.iter().filter(|x| !ia.contains(x)).take(10).collect();
            let extra: Vec<&i64> = ia.iter().filter(|x| !ib.contains(x)).take(10).collect();
            out.push(Finding::new(
                format!(
                    "index-query-answer-changed-by-{what}{}",
                    if lost.is_empty() { "-extra-rows" } else if extra.is_empty() { "-lost-rows" } else { "" }
                ),
                format!("`{q}` returned {} ids before and {} after (index used after: {used})", ib.len(), ia.len()),
                json!({"query": q, "lost": lost, "extra": extra, "index_used_after": used}),
            ));
            break;
        }
    }
    out
}

/// configuration class of a compaction round, part of every C13 signature
fn config_tag(stable: bool, defer: bool, fri_present: bool) -> &'static str {
    match (stable, defer, fri_present) {
        (true, true, _) | (true, _, true) => ":stable-row-ids+deferred-remap",
        (true, false, false) => ":stable-row-ids",
        (false, true, _) => ":deferred-remap",
        (false, false, true) => ":remap-after-deferred-remap",
        (false, false, false) => "",
    }
}

struct Ctx<'a> {
    report: &'a Report,
    ops: &'a Histo,
    diag: &'a Histo,
    opts: &'a Histo,
}

const PRE: &[(u32, &str)] = &[
    (4, "append"),
    (4, "delete"),
    (3, "update"),
    (2, "upsert"),
    (1, "partial_upsert"),
    (1, "insert_only"),
];

fn corrupt(s: &mut Snap, stable: bool, rng: &mut Rng) -> bool {
    if s.obs.rows.is_empty() {
        s.count += 1;
        return true;
    }
    let i = rng.usize_below(s.obs.rows.len());
    match rng.below(5) {
        0 => {
            s.obs.rows.remove(i);
            true
        }
        1 if stable => {
            s.obs.rows[i].rowid = s.obs.rows[i].rowid.map(|x| x + 7);
            true
        }
        2 if stable => {
            s.obs.rows[i].created = s.obs.rows[i].created.map(|x| x + 1);
            true
        }
        3 if stable => {
            s.obs.rows[i].updated = s.obs.rows[i].updated.map(|x| x + 1);
            true
        }
        _ => {
            if let Some(q) = s.queries.iter_mut().find(|q| !q.1.is_empty()) {
                q.1.pop();
            } else {
                s.count += 1;
            }
            true
        }
    }
}

async fn run_case(cx: &Ctx<'_>, seed: u64, idx: u64, thorough: bool, selftest: bool) -> (u64, u64) {
    let mut rng = Rng::for_case(seed, idx);
    let mut cfg = HistCfg::random(&mut rng, None);
    cfg.initial_rows_per_file = *rng.pick(&[2usize, 3, 4, 5, 7]);
    cfg.allow_defer_remap = true;
    cfg.allow_interleaved_delete = true;
    let mut h = match Hist::create(&mut rng, cfg.clone(), &format!("c13-{seed}-{idx}"), (idx % 4000) as usize + 1).await {
        Ok(h) => h,
        Err(e) => {
            cx.report.rejected();
            cx.diag.add(&format!("create:{}", e.brief().chars().take(160).collect::<String>()), 1);
            return (0, 0);
        }
    };
    let stable = cfg.stable;
    let with_index = rng.chance(2, 3);
    let idx_kind = if rng.bool() { IdxKind::BTree } else { IdxKind::Bitmap };
    let rounds = if thorough { rng.urange(1, 4) } else { rng.urange(1, 2) };
    let (mut applied_c, mut detected_c) = (0u64, 0u64);
    let mut nontrivial_rounds = 0u64;
    let mut sig_parts: Vec<String> = vec![format!("{:?}|stable={stable}|idx={}", cfg.version, if with_index { format!("{idx_kind:?}") } else { "none".into() })];
    let mut rows_compared = 0u64;
    let mut queries_compared = 0u64;
    let mut index_used = 0u64;
    // an earlier compaction of this table deferred the index remap (a fragment reuse index exists)
    let mut fri_present = false;
    for round in 0..rounds {
        // ---- build a layout of many small, partially deleted fragments
        let n_pre = rng.urange(3, 8);
        let index_at = if with_index && round == 0 { Some(rng.usize_below(n_pre)) } else { None };
        for j in 0..n_pre {
            if index_at == Some(j) {
                let op = Op::CreateIndex { col: "k".into(), kind: idx_kind };
                let out = h.apply(&mut rng, &op).await;
                cx.ops.add(op.kind(), 1);
                if let Outcome::Failed(f) | Outcome::Rejected(f) = out {
                    cx.diag.add(&format!("create_index:{}", f.key()), 1);
                }
            }
            let op = h.gen_op(&mut rng, PRE);
            let out = h.apply(&mut rng, &op).await;
        if let Some((kind, empty)) = h.stable_flag_lost {
            // the table silently stopped using stable row ids: everything the property says about
            // row ids is void from here on; one class, reported once per case
            if !selftest {
                cx.report.violation(
                    &format!("stable-row-id-flag-dropped-by-{kind}{}", if empty { "-on-empty-table" } else { "" }),
                    "a table created with stable row ids lost the feature flag: rows written from now on get address-style row ids that change on update / compaction",
                    json!({"seed": seed, "case": idx, "history": h.log_json()}),
                );
                cx.report.case(None);
            }
            return (applied_c, detected_c);
        }
            if std::env::var("C13_DEBUG").is_ok() {
                if let Ok(o) = observe(&h.ds, stable).await {
                    println!(
                        "DEBUG after {} (next_row_id {} uses_stable_row_ids {} fragments {}): {:?}",
                        op.brief().chars().take(60).collect::<String>(),
                        h.ds.manifest().next_row_id,
                        h.ds.manifest().uses_stable_row_ids(),
                        h.ds.count_fragments(),
                        o.rows.iter().map(|r| (r.id & 0xffff, r.rowid, r.rowaddr)).collect::<Vec<_>>()
                    );
                }
            }
            cx.ops.add(op.kind(), 1);
            match out {
                Outcome::Rejected(f) => {
                    cx.report.rejected();
                    cx.diag.add(&format!("rejected:{}:{}", op.kind(), f.msg().chars().take(80).collect::<String>()), 1);
                }
                Outcome::Failed(f) => {
                    cx.diag.add(&format!("failed:{}:{}", op.kind(), f.key()), 1)
                }
                _ => {}
            }
        }
        // ---- before
        let before = match snapshot(&h.ds, stable, h.indexed.is_some()).await {
            Ok(s) => s,
            Err(e) => {
                // reading the table before compaction fails: not C13's subject
                cx.diag.add(&format!("snapshot-before-failed:{}", e.brief().chars().take(120).collect::<String>()), 1);
                cx.report.inconclusive(&format!("case {idx}: snapshot before compaction failed: {}", e.brief()));
                return (applied_c, detected_c);
            }
        };
        let pre_findings = check_contents(&h.model, &before.obs, "history-before-compaction");
        if !pre_findings.is_empty() {
            // the table already differs from the model before compacting: report under its own
            // signature (it is not caused by compaction) and stop this case
            for f in pre_findings {
                cx.report.violation(
                    &f.sig,
                    &f.what,
                    json!({"seed": seed, "case": idx, "detail": f.detail, "history": h.log_json()}),
                );
            }
            return (applied_c, detected_c);
        }
        let frags_before: Vec<u64> = h.ds.get_fragments().iter().map(|f| f.id() as u64).collect();
        let deletions_before = h.ds.count_deleted_rows().await.unwrap_or(0);
        if std::env::var("C13_DEBUG").is_ok() {
            use lance_index::DatasetIndexExt;
            if let Ok(ix) = h.ds.load_indices().await {
                for i in ix.iter() {
                    println!("DEBUG index {} v{} bitmap {:?}", i.name, i.dataset_version, i.fragment_bitmap.as_ref().map(|b| b.iter().collect::<Vec<_>>()));
                }
            }
            println!("DEBUG fragments {:?}", h.ds.get_fragments().iter().map(|f| (f.id(), f.metadata().physical_rows, f.metadata().deletion_file.as_ref().map(|d| d.num_deleted_rows))).collect::<Vec<_>>());
        }
        // ---- compaction
        let spec = h.gen_compact(&mut rng, true);
        let op = Op::Compact(spec.clone());
        let what = op.kind();
        let out = h.apply(&mut rng, &op).await;
        cx.ops.add(what, 1);
        cx.opts.add(
            &format!(
                "mat={} defer={} dist={} batch={:?}",
                spec.materialize_deletions && spec.threshold < 1.0,
                spec.defer_index_remap,
                spec.distributed.is_some(),
                spec.batch_size
            ),
            1,
        );
        match &out {
            Outcome::Rejected(f) | Outcome::Failed(f) => {
                // a compaction that fails must not change anything either: fall through to the
                // comparison, and count the failure
                cx.diag.add(&format!("{what}:{}", f.key()), 1);
            }
            _ => {}
        }
        let frags_after: Vec<u64> = h.ds.get_fragments().iter().map(|f| f.id() as u64).collect();
        // rows removed by the concurrent delete are expected to be gone
        let mut before = before;
        // (only if that delete was really committed: a task that fails to execute ends the
        // compaction before the other writer gets its turn)
        if let (Some(p), true) = (&spec.interleaved_delete, h.interleaved_delete_done) {
            use vmon::table::Cell;
            before.obs.rows.retain(|r| !p.eval(r.id, &Cell::Null));
            before.count = before.obs.rows.len();
            for q in before.queries.iter_mut() {
                q.1.retain(|id| !p.eval(*id, &Cell::Null));
            }
            cx.report.count("compactions_with_concurrent_delete", 1);
        }
        // ---- after (fresh session half of the time: nothing may depend on caches)
        let ds_after = if rng.bool() {
            match guard(h.actor.fresh_session().open(&h.uri)).await {
                Ok(d) => d,
                Err(e) => {
                    cx.report.violation(
                        &format!("table-unreadable-after-{what}"),
                        "the table cannot be opened after compaction",
                        json!({"seed": seed, "case": idx, "error": e.brief(), "history": h.log_json()}),
                    );
                    return (applied_c, detected_c);
                }
            }
        } else {
            h.ds.clone()
        };
        let mut after = match snapshot(&ds_after, stable, h.indexed.is_some()).await {
            Ok(s) => s,
            Err(e) => {
                if std::env::var("C13_DEBUG").is_ok() {
                    println!("DEBUG error {}", e.msg());
                }
                cx.report.violation(
                    &format!(
                        "read-failed-after-compaction[{}]{}",
                        crate::c11::err_site(&e.msg()),
                        config_tag(stable, spec.defer_index_remap, fri_present)
                    ),
                    "scan / count / indexed query fails after compaction although it worked before",
                    json!({"seed": seed, "case": idx, "error": e.brief(), "compaction": spec.brief(), "history": h.log_json()}),
                );
                return (applied_c, detected_c);
            }
        };
        if selftest {
            let mut crng = Rng::for_case(seed ^ 0xD00D, idx * 8 + round as u64);
            if corrupt(&mut after, stable, &mut crng) {
                applied_c += 1;
                if !oracle(&before, &after, &h.model, stable, "compaction").is_empty() {
                    detected_c += 1;
                }
            }
            continue;
        }
        let findings = oracle(&before, &after, &h.model, stable, "compaction");
        rows_compared += after.obs.rows.len() as u64;
        queries_compared += after.queries.len() as u64;
        index_used += after.queries.iter().filter(|q| q.2).count() as u64;
        if let (Some(p), true, false) = (&spec.interleaved_delete, h.second_commit_round_accepted, findings.is_empty()) {
            // one class: rows deleted by the concurrent writer come back when leftover tasks are
            // committed in a second commit_compaction call
            use vmon::table::Cell;
            let b = before.obs.by_id();
            let back: Vec<i64> = after.obs.rows.iter().map(|r| r.id).filter(|id| !b.contains_key(id)).collect();
            if !back.is_empty() && back.iter().all(|id| p.eval(*id, &Cell::Null)) {
                cx.report.violation(
                    "concurrently-deleted-rows-resurrected-by-second-commit-compaction-round",
                    &format!(
                        "{} rows deleted by another writer between task execution and commit are visible again after the leftover compaction tasks were committed",
                        back.len()
                    ),
                    json!({"seed": seed, "case": idx, "round": round, "compaction": spec.brief(), "resurrected_ids": back,
                           "fragments_before": frags_before, "fragments_after": frags_after, "history": h.log_json()}),
                );
                return (0, 0);
            }
        }
        if !findings.is_empty() {
            for f in findings {
                let base = if f.sig.starts_with("index-query-answer-changed-by-compaction") {
                    "index-query-answer-changed-by-compaction".to_string()
                } else {
                    f.sig.clone()
                };
                let sig = format!(
                    "{base}{}{}",
                    config_tag(stable, spec.defer_index_remap, fri_present),
                    match (spec.interleaved_delete.as_ref().filter(|_| h.interleaved_delete_done), h.second_commit_round_accepted) {
                        (Some(_), true) => "+concurrent-delete+second-commit-round",
                        (Some(_), false) => "+concurrent-delete",
                        // a second commit round without a concurrent writer is not a class of
                        // its own (the round is recorded in the witness history)
                        (None, true) => "",
                        (None, false) => "",
                    }
                );
                cx.report.violation(
                    &sig,
                    &f.what,
                    json!({"seed": seed, "case": idx, "round": round, "compaction": spec.brief(), "detail": f.detail,
                           "fragments_before": frags_before, "fragments_after": frags_after, "history": h.log_json()}),
                );
            }
            return (0, 0);
        }
        if spec.defer_index_remap && frags_before != frags_after && h.indexed.is_some() {
            fri_present = true;
        }
        let order_kept = before.obs.rows.iter().map(|r| r.id).collect::<Vec<_>>()
            == after.obs.rows.iter().map(|r| r.id).collect::<Vec<_>>();
        cx.report.count(if order_kept { "rounds_order_preserved" } else { "rounds_order_changed" }, 1);
        if frags_before != frags_after && !after.obs.rows.is_empty() {
            nontrivial_rounds += 1;
            sig_parts.push(format!(
                "{}|{}->{}frags|del={}|{}",
                spec.brief(),
                frags_before.len(),
                frags_after.len(),
                deletions_before > 0,
                after.obs.rows.len() / 8
            ));
        }
    }
    if selftest {
        return (applied_c, detected_c);
    }
    cx.report.count("compaction_rounds_that_rewrote_fragments", nontrivial_rounds);
    cx.report.count("rows_compared", rows_compared);
    cx.report.count("index_queries_compared", queries_compared);
    cx.report.count("index_queries_that_used_the_index", index_used);
    let nontrivial = nontrivial_rounds > 0;
    cx.report.case(if nontrivial { Some(fnv_str(&sig_parts.join("#"))) } else { None });
    if nontrivial && cx.report.want_sample() {
        cx.report.sample(json!({"case": idx, "history": h.log_json()}));
    }
    (0, 0)
}

pub fn run(args: &Args) -> i32 {
    install_quiet_panic_hook();
    let report = Report::new(
        args,
        "exploration",
        "One case = a seeded table (stable row ids on/off, storage 2.0/2.1/2.2, files of 2-7 rows) + 3-8 random \
         appends/deletes/updates/upserts per round (index on k created at a random point), then a compaction with random \
         CompactionOptions through compact_files or plan/execute/commit of random task subsets in random order; snapshot \
         before vs after: rows by id, count_rows, (stable) id->(_rowid, created, updated), 11 indexed queries. \
         Non-trivial = the compaction replaced fragments of a non-empty table; distinct by (config, options, layout).",
        (85, 900),
    )
    .with_min_nontrivial(args.tier.pick(25, 250));
    let ops = Histo::default();
    let diag = Histo::default();
    let opts = Histo::default();
    let cx = Ctx {
        report: &report,
        ops: &ops,
        diag: &diag,
        opts: &opts,
    };
    let selftest = selftest_requested(args);
    let thorough = args.tier == vmon::report::Tier::Thorough;
    let max_cases = if selftest { 60 } else { args.tier.pick(250, 40_000) };
    let st = std::sync::Mutex::new((0u64, 0u64));
    if let Some(i) = args.extra.get("case").and_then(|s| s.parse::<u64>().ok()) {
        let rt = tokio::runtime::Builder::new_current_thread().enable_all().build().unwrap();
        rt.block_on(run_case(&cx, args.seed, i, thorough, false));
    } else {
        run_parallel(&report, max_cases, 16, |i, rt| {
            let r = rt.block_on(run_case(&cx, args.seed, i, thorough, selftest));
            let mut g = st.lock().unwrap();
            g.0 += r.0;
            g.1 += r.1;
        });
    }
    if selftest {
        let g = st.lock().unwrap();
        println!("SELFTEST C13 corruptions_applied={} detected={}", g.0, g.1);
        return if g.0 > 0 && g.0 == g.1 { 0 } else { 2 };
    }
    report.set("ops_by_kind", ops.json());
    report.set("table_shapes", crate::hist::TABLE_SHAPES.json());
    report.set("compaction_options_seen", opts.json());
    report.set("op_failures_and_rejections", diag.json());
    report.finish()
}
