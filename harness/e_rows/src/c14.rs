//! C14 — schema evolution preserves untouched data.
//!
//! Model: ordered column list (name, Arrow type taken from the dataset after each accepted step)
//! and BTreeMap<id, cells>. Operations: add_columns through SQL expressions (with a reference
//! evaluation), AllNulls, BatchUDF, Reader and Stream (row-aligned values f(id)), `Dataset::merge`
//! (left join on id, misses => NULL); alter_columns rename (top level and struct child), cast
//! (reference = arrow_cast with safe=false on the scanned column), nullability; drop_columns (top
//! level and struct child); re-adding a previously dropped name; interleaved with appends (in the
//! current schema), deletes and compaction. After every step: every column's values by id, column
//! names and order, row order unchanged by schema operations, all field ids unique.

use arrow_array::builder::{Int64Builder, StringBuilder};
use arrow_array::{Array, ArrayRef, Int64Array, RecordBatch, RecordBatchIterator};
use arrow_schema::{DataType, Field, Schema, SchemaRef};
use futures::TryStreamExt;
use lance::dataset::optimize::compact_files;
use lance::dataset::{BatchUDF, ColumnAlteration, NewColumnTransform, WriteMode};
use lance::Dataset;
use lance_encoding::version::LanceFileVersion;
use serde_json::json;
use std::collections::{BTreeMap, BTreeSet};
use std::sync::Arc;
use vmon::prng::{fnv_str, Rng};
use vmon::report::{Args, Report};
use vmon::store::World;
use vmon::table::{cell_at, gen_column, render_row, Actor, Cell, ColSpec, ColTy, IdAlloc, Row};

use crate::gen::{gen_array, type_tag};
use crate::hist::Finding;
use crate::util::{guard, install_quiet_panic_hook, run_parallel, selftest_requested, Fail, Histo};

#[derive(Clone, Debug)]
struct CCol {
    name: String,
    dt: DataType,
    nullable: bool,
    /// generator for appended rows (original columns); added columns use `gen_array`
    spec: Option<ColSpec>,
}

#[derive(Clone, Debug)]
pub struct M {
    names: Vec<String>,
    rows: BTreeMap<i64, Row>,
}

#[derive(Clone, Debug)]
pub struct Scan {
    pub names: Vec<String>,
    pub rows: Vec<Row>,
    pub field_ids: Vec<i32>,
}

async fn scan(ds: &Dataset) -> lance::Result<(Scan, Vec<RecordBatch>)> {
    let mut s = ds.scan();
    s.scan_in_order(true);
    let bs: Vec<RecordBatch> = s.try_into_stream().await?.try_collect().await?;
    let schema: Schema = ds.schema().into();
    let names: Vec<String> = schema.fields().iter().map(|f| f.name().clone()).collect();
    let mut rows = vec![];
    for b in &bs {
        for i in 0..b.num_rows() {
            rows.push(b.columns().iter().map(|c| cell_at(c.as_ref(), i)).collect());
        }
    }
    let field_ids: Vec<i32> = ds.schema().fields_pre_order().map(|f| f.id).collect();
    Ok((Scan { names, rows, field_ids }, bs))
}

/// The deciding oracle: pure function of (model, scan before the step, scan after, kind of step).
pub fn oracle(m: &M, before_order: Option<&[i64]>, after: &Scan, what: &str, schema_op: bool) -> Vec<Finding> {
    let mut out = vec![];
    if after.names != m.names {
        out.push(Finding::new(
            format!("columns-differ-from-model-after-{what}"),
            format!("columns {:?}, model {:?}", after.names, m.names),
            json!({}),
        ));
        return out;
    }
    let mut ids = BTreeSet::new();
    for f in &after.field_ids {
        if *f < 0 || !ids.insert(*f) {
            out.push(Finding::new(
                format!("field-id-not-unique-after-{what}"),
                format!("field id {f} occurs twice (or is unset) in the schema: {:?}", after.field_ids),
                json!({"field_ids": after.field_ids}),
            ));
            break;
        }
    }
    let mut seen = BTreeSet::new();
    let mut order = vec![];
    for r in &after.rows {
        let Some(id) = r[0].as_i64() else {
            out.push(Finding::new(format!("row-without-id-after-{what}"), "NULL id", json!({})));
            continue;
        };
        order.push(id);
        if !seen.insert(id) {
            out.push(Finding::new(format!("duplicate-row-after-{what}"), format!("id {id} twice"), json!({})));
            continue;
        }
        match m.rows.get(&id) {
            None => out.push(Finding::new(
                format!("row-resurrected-or-extra-after-{what}"),
                format!("id {id} is not in the model"),
                json!({"id": id}),
            )),
            Some(e) => {
                if e != r {
                    let c = e.iter().zip(r).position(|(a, b)| a != b).unwrap_or(0);
                    out.push(Finding::new(
                        format!("column-values-differ-after-{what}"),
                        format!("id {id}: column `{}` differs from the model", m.names[c]),
                        json!({"id": id, "column": m.names[c], "model": render_row(e), "scan": render_row(r)}),
                    ));
                    break;
                }
            }
        }
    }
    if seen.len() != m.rows.len() && out.is_empty() {
        let missing: Vec<&i64> = m.rows.keys().filter(|k| !seen.contains(k)).take(10).collect();
        out.push(Finding::new(
            format!("rows-missing-after-{what}"),
            format!("{} model rows missing", m.rows.len() - seen.len()),
            json!({"ids": missing}),
        ));
    }
    if schema_op {
        if let Some(b) = before_order {
            if b != order.as_slice() {
                out.push(Finding::new(
                    format!("row-order-changed-by-{what}"),
                    "a schema operation changed the order of rows in the ordered scan",
                    json!({"before": b.iter().take(30).collect::<Vec<_>>(), "after": order.iter().take(30).collect::<Vec<_>>()}),
                ));
            }
        }
    }
    out
}

struct St {
    actor: Actor,
    uri: String,
    ds: Dataset,
    cols: Vec<CCol>,
    m: M,
    ids: IdAlloc,
    vseq: i64,
    dropped_names: Vec<String>,
    dead_field_ids: BTreeSet<i32>,
    name_seq: usize,
    log: Vec<String>,
    version: LanceFileVersion,
}

fn f_of_id(id: i64, salt: i64) -> Option<i64> {
    // deterministic "precomputed" column: NULL for some ids
    let h = (id.wrapping_mul(0x9E37_79B9_7F4A_7C15u64 as i64) ^ salt) >> 7;
    if h % 5 == 0 {
        None
    } else {
        Some(h % 1000)
    }
}

impl St {
    fn schema(&self) -> SchemaRef {
        Arc::new(Schema::new(
            self.cols
                .iter()
                .map(|c| Field::new(&c.name, c.dt.clone(), c.nullable))
                .collect::<Vec<_>>(),
        ))
    }
    fn col(&self, name: &str) -> Option<usize> {
        self.cols.iter().position(|c| c.name == name)
    }
    fn fresh_name(&mut self, rng: &mut Rng) -> String {
        if !self.dropped_names.is_empty() && rng.chance(1, 2) {
            // re-add under a dropped name
            let i = rng.usize_below(self.dropped_names.len());
            let n = self.dropped_names[i].clone();
            if self.col(&n).is_none() {
                return n;
            }
        }
        self.name_seq += 1;
        format!("n{}", self.name_seq)
    }
    fn gen_rows(&mut self, rng: &mut Rng, ids: &[i64]) -> RecordBatch {
        let n = ids.len();
        let mut arrays: Vec<ArrayRef> = vec![];
        for (j, c) in self.cols.iter().enumerate() {
            if j == 0 {
                arrays.push(Arc::new(Int64Array::from(ids.to_vec())));
            } else if c.name == "v" && c.dt == DataType::Int64 {
                let vs: Vec<i64> = (0..n as i64).map(|i| 1_000_000 + self.vseq + i).collect();
                arrays.push(Arc::new(Int64Array::from(vs)));
            } else if let Some(spec) = &c.spec {
                let mut s = spec.clone();
                s.nullable = c.nullable;
                if s.ty == ColTy::StructIS {
                    // no struct-level NULLs (2.0 does not store them; see hist.rs)
                    s.null_eighths = 0;
                }
                arrays.push(gen_column(rng, &s, n));
            } else {
                let e8 = if matches!(c.dt, DataType::Struct(_)) { 0 } else { *rng.pick(&[0u8, 1, 4]) };
                arrays.push(gen_array(rng, &c.dt, n, c.nullable, e8, true));
            }
        }
        self.vseq += n as i64;
        RecordBatch::try_new(self.schema(), arrays).expect("append batch in evolved schema")
    }
    /// re-read column types / nullability from the dataset (names and order are the model's)
    fn refresh_types(&mut self) {
        let schema: Schema = self.ds.schema().into();
        for (c, f) in self.cols.iter_mut().zip(schema.fields()) {
            if &c.name == f.name() {
                if &c.dt != f.data_type() {
                    c.spec = None;
                }
                c.dt = f.data_type().clone();
                c.nullable = f.is_nullable();
            }
        }
    }
    fn note_dead_fields(&mut self, before: &lance::datatypes::Schema) {
        let now: BTreeSet<i32> = self.ds.schema().fields_pre_order().map(|f| f.id).collect();
        for f in before.fields_pre_order() {
            if !now.contains(&f.id) {
                self.dead_field_ids.insert(f.id);
            }
        }
    }
}

#[derive(Clone, Debug)]
enum Sql {
    VPlus(i64),
    IdMod(i64),
    CopyK,
    KIsNull,
    Lit(i64),
    StrLit(&'static str),
}

impl Sql {
    fn text(&self) -> String {
        match self {
            Sql::VPlus(c) => format!("v + {c}"),
            Sql::IdMod(m) => format!("id % {m}"),
            Sql::CopyK => "k".into(),
            Sql::KIsNull => "k IS NULL".into(),
            Sql::Lit(x) => format!("{x}"),
            Sql::StrLit(s) => format!("'{s}'"),
        }
    }
    fn needs(&self) -> Option<&'static str> {
        match self {
            Sql::VPlus(_) => Some("v"),
            Sql::CopyK | Sql::KIsNull => Some("k"),
            _ => None,
        }
    }
    fn eval(&self, id: i64, v: &Cell, k: &Cell) -> Cell {
        match self {
            // Int64 arithmetic of DataFusion wraps on overflow (the column named `v` may be a
            // renamed random Int64 column holding i64::MAX)
            Sql::VPlus(c) => match v {
                Cell::Int(x) => Cell::Int((*x as i64).wrapping_add(*c) as i128),
                _ => Cell::Null,
            },
            Sql::IdMod(m) => Cell::Int((id % m) as i128),
            Sql::CopyK => k.clone(),
            Sql::KIsNull => Cell::Bool(k.is_null()),
            Sql::Lit(x) => Cell::Int(*x as i128),
            Sql::StrLit(s) => Cell::Str(s.to_string()),
        }
    }
}

struct Ctx<'a> {
    report: &'a Report,
    ops: &'a Histo,
    diag: &'a Histo,
}

fn struct_rename(c: &Cell, from: &str, to: &str) -> Cell {
    match c {
        Cell::Struct(v) => Cell::Struct(
            v.iter()
                .map(|(k, x)| (if k == from { to.to_string() } else { k.clone() }, x.clone()))
                .collect(),
        ),
        other => other.clone(),
    }
}

fn struct_drop(c: &Cell, child: &str) -> Cell {
    match c {
        Cell::Struct(v) => Cell::Struct(v.iter().filter(|(k, _)| k != child).cloned().collect()),
        other => other.clone(),
    }
}

/// Executes one random step. Returns (op kind, is schema op, applied?) or a failure to classify.
async fn step(st: &mut St, rng: &mut Rng, before: &Scan, before_batches: &[RecordBatch]) -> (String, bool, Result<bool, Fail>) {
    let kind = *rng.pick_weighted(&[
        (3, "add_sql"),
        (2, "add_all_nulls"),
        (2, "add_udf"),
        (2, "add_reader"),
        (1, "add_stream"),
        (2, "merge_join"),
        (3, "rename"),
        (2, "rename_nested"),
        (3, "cast"),
        (1, "set_nullable"),
        (3, "drop"),
        (1, "drop_nested"),
        (4, "append"),
        (3, "delete"),
        (3, "compact"),
    ]);
    let ids_in_order: Vec<i64> = before.rows.iter().map(|r| r[0].as_i64().unwrap()).collect();
    let schema_before = st.ds.schema().clone();
    let mut d = st.ds.clone();
    match kind {
        "add_sql" => {
            let n = rng.urange(1, 2);
            let mut exprs = vec![];
            for _ in 0..n {
                let e = match rng.below(6) {
                    0 => Sql::VPlus(rng.range(-5, 5)),
                    1 => Sql::IdMod(rng.range(2, 9)),
                    2 => Sql::CopyK,
                    3 => Sql::KIsNull,
                    4 => Sql::Lit(rng.range(-3, 3)),
                    _ => Sql::StrLit(*rng.pick(&["abc", "", "é"])),
                };
                if let Some(c) = e.needs() {
                    let ok = match c {
                        "v" => st.col("v").map(|p| st.cols[p].dt == DataType::Int64).unwrap_or(false),
                        _ => st.col("k").map(|p| st.cols[p].dt == DataType::Int32).unwrap_or(false),
                    };
                    if !ok {
                        continue;
                    }
                }
                let name = st.fresh_name(rng);
                if exprs.iter().any(|(n, _): &(String, Sql)| n == &name) {
                    continue;
                }
                exprs.push((name, e));
            }
            if exprs.is_empty() {
                return (kind.into(), true, Ok(false));
            }
            let t = NewColumnTransform::SqlExpressions(exprs.iter().map(|(n, e)| (n.clone(), e.text())).collect());
            let bs = *rng.pick(&[None, Some(1u32), Some(3), Some(100)]);
            st.log.push(format!("add_columns SQL {:?} batch_size={bs:?}", exprs.iter().map(|(n, e)| format!("{n}={}", e.text())).collect::<Vec<_>>()));
            let r = guard(async {
                d.add_columns(t, None, bs).await?;
                Ok(d)
            })
            .await;
            match r {
                Err(e) => (kind.into(), true, Err(e)),
                Ok(d) => {
                    st.ds = d;
                    let (vp, kp) = (st.col("v"), st.col("k"));
                    for (id, row) in st.m.rows.iter_mut() {
                        let v = vp.map(|p| row[p].clone()).unwrap_or(Cell::Null);
                        let k = kp.map(|p| row[p].clone()).unwrap_or(Cell::Null);
                        for (_, e) in &exprs {
                            row.push(e.eval(*id, &v, &k));
                        }
                    }
                    for (n, _) in &exprs {
                        st.m.names.push(n.clone());
                        st.cols.push(CCol { name: n.clone(), dt: DataType::Null, nullable: true, spec: None });
                    }
                    (kind.into(), true, Ok(true))
                }
            }
        }
        "add_all_nulls" => {
            let name = st.fresh_name(rng);
            let dt = rng
                .pick(&[DataType::Int32, DataType::Utf8, DataType::Float64, DataType::Boolean, DataType::Int64])
                .clone();
            let sch = Arc::new(Schema::new(vec![Field::new(&name, dt.clone(), true)]));
            st.log.push(format!("add_columns AllNulls {name}:{}", type_tag(&dt)));
            let r = guard(async {
                d.add_columns(NewColumnTransform::AllNulls(sch), None, None).await?;
                Ok(d)
            })
            .await;
            match r {
                Err(e) => (kind.into(), true, Err(e)),
                Ok(d) => {
                    st.ds = d;
                    for row in st.m.rows.values_mut() {
                        row.push(Cell::Null);
                    }
                    st.m.names.push(name.clone());
                    st.cols.push(CCol { name, dt, nullable: true, spec: None });
                    (kind.into(), true, Ok(true))
                }
            }
        }
        "add_udf" => {
            let name = st.fresh_name(rng);
            let salt = rng.range(0, 1 << 20);
            let out_schema = Arc::new(Schema::new(vec![Field::new(&name, DataType::Int64, true)]));
            let os2 = out_schema.clone();
            let mapper = move |b: &RecordBatch| -> lance::Result<RecordBatch> {
                let ids = b
                    .column_by_name("id")
                    .and_then(|c| c.as_any().downcast_ref::<Int64Array>().cloned())
                    .expect("udf: id column requested through read_columns");
                let mut bld = Int64Builder::new();
                for i in 0..ids.len() {
                    bld.append_option(f_of_id(ids.value(i), salt));
                }
                Ok(RecordBatch::try_new(os2.clone(), vec![Arc::new(bld.finish())])?)
            };
            let udf = BatchUDF { mapper: Box::new(mapper), output_schema: out_schema, result_checkpoint: None };
            let bs = *rng.pick(&[None, Some(2u32), Some(7)]);
            st.log.push(format!("add_columns BatchUDF {name}=f(id,{salt}) batch_size={bs:?}"));
            let r = guard(async {
                d.add_columns(NewColumnTransform::BatchUDF(udf), Some(vec!["id".into()]), bs).await?;
                Ok(d)
            })
            .await;
            match r {
                Err(e) => (kind.into(), true, Err(e)),
                Ok(d) => {
                    st.ds = d;
                    for (id, row) in st.m.rows.iter_mut() {
                        row.push(f_of_id(*id, salt).map(|x| Cell::Int(x as i128)).unwrap_or(Cell::Null));
                    }
                    st.m.names.push(name.clone());
                    st.cols.push(CCol { name, dt: DataType::Int64, nullable: true, spec: None });
                    (kind.into(), true, Ok(true))
                }
            }
        }
        "add_reader" | "add_stream" => {
            // row-aligned values in the order of the ordered scan, random batch boundaries
            let name = st.fresh_name(rng);
            let salt = rng.range(0, 1 << 20);
            let use_str = rng.chance(1, 3);
            let dt = if use_str { DataType::Utf8 } else { DataType::Int64 };
            let out_schema = Arc::new(Schema::new(vec![Field::new(&name, dt.clone(), true)]));
            let mut batches = vec![];
            let mut at = 0;
            while at < ids_in_order.len() {
                let take = rng.urange(1, (ids_in_order.len() - at).min(9));
                let arr: ArrayRef = if use_str {
                    let mut b = StringBuilder::new();
                    for id in &ids_in_order[at..at + take] {
                        b.append_option(f_of_id(*id, salt).map(|x| format!("s{x}")));
                    }
                    Arc::new(b.finish())
                } else {
                    let mut b = Int64Builder::new();
                    for id in &ids_in_order[at..at + take] {
                        b.append_option(f_of_id(*id, salt));
                    }
                    Arc::new(b.finish())
                };
                batches.push(Ok(RecordBatch::try_new(out_schema.clone(), vec![arr]).unwrap()));
                at += take;
            }
            if batches.is_empty() {
                return (kind.into(), true, Ok(false));
            }
            let reader = RecordBatchIterator::new(batches, out_schema);
            let t = if kind == "add_reader" {
                NewColumnTransform::Reader(Box::new(reader))
            } else {
                NewColumnTransform::Stream(lance_datafusion::utils::reader_to_stream(Box::new(reader)))
            };
            st.log.push(format!("add_columns {kind} {name}=f(id,{salt}) as {}", type_tag(&dt)));
            let r = guard(async {
                d.add_columns(t, None, None).await?;
                Ok(d)
            })
            .await;
            match r {
                Err(e) => (kind.into(), true, Err(e)),
                Ok(d) => {
                    st.ds = d;
                    for (id, row) in st.m.rows.iter_mut() {
                        row.push(match f_of_id(*id, salt) {
                            None => Cell::Null,
                            Some(x) if use_str => Cell::Str(format!("s{x}")),
                            Some(x) => Cell::Int(x as i128),
                        });
                    }
                    st.m.names.push(name.clone());
                    st.cols.push(CCol { name, dt, nullable: true, spec: None });
                    (kind.into(), true, Ok(true))
                }
            }
        }
        "merge_join" => {
            // right side: a subset of the live ids + ids that do not exist, shuffled
            let name = st.fresh_name(rng);
            let salt = rng.range(0, 1 << 20);
            let mut right: Vec<i64> = ids_in_order.iter().filter(|_| rng.chance(2, 3)).copied().collect();
            right.push(i64::MAX - rng.range(1, 1000));
            rng.shuffle(&mut right);
            let sch = Arc::new(Schema::new(vec![
                Field::new("id", DataType::Int64, false),
                Field::new(&name, DataType::Int64, true),
            ]));
            let vals: Vec<Option<i64>> = right.iter().map(|id| f_of_id(*id, salt)).collect();
            let hit: BTreeMap<i64, Option<i64>> = right.iter().copied().zip(vals.iter().copied()).collect();
            let b = RecordBatch::try_new(
                sch.clone(),
                vec![Arc::new(Int64Array::from(right.clone())), Arc::new(Int64Array::from(vals))],
            )
            .unwrap();
            let reader = RecordBatchIterator::new(vec![Ok(b)], sch);
            st.log.push(format!("merge on id: {name}=f(id,{salt}) for {} of {} rows (+1 unknown id)", right.len() - 1, ids_in_order.len()));
            let r = guard(async {
                d.merge(reader, "id", "id").await?;
                Ok(d)
            })
            .await;
            match r {
                Err(e) => (kind.into(), true, Err(e)),
                Ok(d) => {
                    st.ds = d;
                    for (id, row) in st.m.rows.iter_mut() {
                        row.push(match hit.get(id) {
                            Some(Some(x)) => Cell::Int(*x as i128),
                            _ => Cell::Null, // miss (or NULL on the right side) => NULL
                        });
                    }
                    st.m.names.push(name.clone());
                    st.cols.push(CCol { name, dt: DataType::Int64, nullable: true, spec: None });
                    (kind.into(), true, Ok(true))
                }
            }
        }
        "rename" => {
            if st.cols.len() < 2 {
                return (kind.into(), true, Ok(false));
            }
            let j = rng.urange(1, st.cols.len() - 1);
            let old = st.cols[j].name.clone();
            let new = st.fresh_name(rng);
            st.log.push(format!("alter_columns rename {old} -> {new}"));
            let alt = ColumnAlteration::new(old.clone()).rename(new.clone());
            let r = guard(async {
                d.alter_columns(&[alt]).await?;
                Ok(d)
            })
            .await;
            match r {
                Err(e) => (kind.into(), true, Err(e)),
                Ok(d) => {
                    st.ds = d;
                    st.cols[j].name = new.clone();
                    st.m.names[j] = new;
                    st.dropped_names.push(old);
                    (kind.into(), true, Ok(true))
                }
            }
        }
        "rename_nested" | "drop_nested" => {
            let Some(j) = st.cols.iter().position(|c| matches!(&c.dt, DataType::Struct(f) if f.len() >= 2)) else {
                return (kind.into(), true, Ok(false));
            };
            let DataType::Struct(fields) = st.cols[j].dt.clone() else { unreachable!() };
            let child = fields[rng.usize_below(fields.len())].name().clone();
            let path = format!("{}.{}", st.cols[j].name, child);
            if kind == "rename_nested" {
                st.name_seq += 1;
                let new = format!("c{}", st.name_seq);
                st.log.push(format!("alter_columns rename {path} -> {new}"));
                let alt = ColumnAlteration::new(path).rename(new.clone());
                let r = guard(async {
                    d.alter_columns(&[alt]).await?;
                    Ok(d)
                })
                .await;
                match r {
                    Err(e) => (kind.into(), true, Err(e)),
                    Ok(d) => {
                        st.ds = d;
                        for row in st.m.rows.values_mut() {
                            row[j] = struct_rename(&row[j], &child, &new);
                        }
                        (kind.into(), true, Ok(true))
                    }
                }
            } else {
                st.log.push(format!("drop_columns [{path}]"));
                let r = guard(async {
                    d.drop_columns(&[path.as_str()]).await?;
                    Ok(d)
                })
                .await;
                match r {
                    Err(e) => (kind.into(), true, Err(e)),
                    Ok(d) => {
                        st.ds = d;
                        for row in st.m.rows.values_mut() {
                            row[j] = struct_drop(&row[j], &child);
                        }
                        st.cols[j].spec = None;
                        (kind.into(), true, Ok(true))
                    }
                }
            }
        }
        "cast" => {
            // candidates: (column, target type)
            let mut cands: Vec<(usize, DataType)> = vec![];
            for (j, c) in st.cols.iter().enumerate().skip(1) {
                let targets: Vec<DataType> = match &c.dt {
                    t if t.is_integer() => vec![DataType::Int8, DataType::Int16, DataType::Int32, DataType::Int64, DataType::UInt16, DataType::UInt64],
                    DataType::Float32 => vec![DataType::Float64, DataType::Float16],
                    DataType::Float64 => vec![DataType::Float32],
                    DataType::Utf8 => vec![DataType::LargeUtf8],
                    DataType::LargeUtf8 => vec![DataType::Utf8],
                    DataType::Binary => vec![DataType::LargeBinary],
                    DataType::Date32 => vec![DataType::Date64],
                    DataType::Timestamp(_, tz) => vec![
                        DataType::Timestamp(arrow_schema::TimeUnit::Millisecond, tz.clone()),
                        DataType::Timestamp(arrow_schema::TimeUnit::Nanosecond, tz.clone()),
                        DataType::Timestamp(arrow_schema::TimeUnit::Second, tz.clone()),
                    ],
                    _ => vec![],
                };
                for t in targets {
                    if t != c.dt {
                        cands.push((j, t));
                    }
                }
            }
            if cands.is_empty() {
                return (kind.into(), true, Ok(false));
            }
            let (j, target) = rng.pick(&cands).clone();
            let name = st.cols[j].name.clone();
            // reference cast on the scanned column (== model, verified before the step)
            let mut expected: BTreeMap<i64, Cell> = BTreeMap::new();
            let mut ref_fails = false;
            for b in before_batches {
                let col = b.column(j);
                match arrow_cast::cast_with_options(
                    col,
                    &target,
                    &arrow_cast::CastOptions { safe: false, ..Default::default() },
                ) {
                    Ok(a) => {
                        for i in 0..b.num_rows() {
                            let id = cell_at(b.column(0).as_ref(), i).as_i64().unwrap();
                            expected.insert(id, cell_at(a.as_ref(), i));
                        }
                    }
                    Err(_) => ref_fails = true,
                }
            }
            st.log.push(format!(
                "alter_columns cast {name}: {} -> {} (reference cast {})",
                type_tag(&st.cols[j].dt),
                type_tag(&target),
                if ref_fails { "is lossy => expect rejection" } else { "ok" }
            ));
            let alt = ColumnAlteration::new(name.clone()).cast_to(target.clone());
            let r = guard(async {
                d.alter_columns(&[alt]).await?;
                Ok(d)
            })
            .await;
            match r {
                Err(e) => (if ref_fails { "cast_lossy".into() } else { kind.into() }, true, Err(e)),
                Ok(d) => {
                    st.ds = d;
                    if ref_fails {
                        // Lance accepted a cast that the reference (safe=false) refuses
                        st.log.push("   accepted although the reference cast fails".into());
                        return (
                            "cast_lossy_accepted".into(),
                            true,
                            Err(Fail::Err { class: "HarnessMarker".into(), msg: format!("lossy cast of {name} to {target:?} accepted") }),
                        );
                    }
                    for (id, row) in st.m.rows.iter_mut() {
                        if let Some(c) = expected.get(id) {
                            row[j] = c.clone();
                        }
                    }
                    st.cols[j].dt = target;
                    st.cols[j].spec = None;
                    (kind.into(), true, Ok(true))
                }
            }
        }
        "set_nullable" => {
            let j = rng.urange(1, st.cols.len() - 1);
            let to = rng.chance(3, 4);
            let name = st.cols[j].name.clone();
            st.log.push(format!("alter_columns {name} nullable={to} (was {})", st.cols[j].nullable));
            let alt = ColumnAlteration::new(name).set_nullable(to);
            let r = guard(async {
                d.alter_columns(&[alt]).await?;
                Ok(d)
            })
            .await;
            match r {
                Err(e) => (kind.into(), true, Err(e)),
                Ok(d) => {
                    st.ds = d;
                    (kind.into(), true, Ok(true))
                }
            }
        }
        "drop" => {
            if st.cols.len() <= 2 {
                return (kind.into(), true, Ok(false));
            }
            let n = rng.urange(1, 2.min(st.cols.len() - 2));
            let mut which: Vec<usize> = rng.sample_indices(st.cols.len() - 1, n).into_iter().map(|i| i + 1).collect();
            which.sort();
            let names: Vec<String> = which.iter().map(|j| st.cols[*j].name.clone()).collect();
            st.log.push(format!("drop_columns {names:?}"));
            let r = guard(async {
                let refs: Vec<&str> = names.iter().map(|s| s.as_str()).collect();
                d.drop_columns(&refs).await?;
                Ok(d)
            })
            .await;
            match r {
                Err(e) => (kind.into(), true, Err(e)),
                Ok(d) => {
                    st.ds = d;
                    for j in which.iter().rev() {
                        st.cols.remove(*j);
                        st.m.names.remove(*j);
                        for row in st.m.rows.values_mut() {
                            row.remove(*j);
                        }
                    }
                    st.dropped_names.extend(names);
                    (kind.into(), true, Ok(true))
                }
            }
        }
        "append" => {
            let n = rng.urange(1, 10);
            let ids = st.ids.take(n);
            let b = st.gen_rows(rng, &ids);
            let mut params = st.actor.write_params(WriteMode::Append);
            params.max_rows_per_file = *rng.pick(&[2usize, 4, 1000]);
            st.log.push(format!("append {n} rows in the current schema"));
            let reader = RecordBatchIterator::new(vec![Ok(b.clone())], b.schema());
            let r = guard(async {
                d.append(reader, Some(params)).await?;
                Ok(d)
            })
            .await;
            match r {
                Err(e) => (kind.into(), false, Err(e)),
                Ok(d) => {
                    st.ds = d;
                    for i in 0..b.num_rows() {
                        let row: Row = b.columns().iter().map(|c| cell_at(c.as_ref(), i)).collect();
                        st.m.rows.insert(row[0].as_i64().unwrap(), row);
                    }
                    (kind.into(), false, Ok(true))
                }
            }
        }
        "delete" => {
            if ids_in_order.is_empty() {
                return (kind.into(), false, Ok(false));
            }
            let m = rng.range(2, 5);
            let r0 = rng.range(0, m - 1);
            let pred = format!("id % {m} = {r0}");
            st.log.push(format!("delete where {pred}"));
            let r = guard(async {
                d.delete(&pred).await?;
                Ok(d)
            })
            .await;
            match r {
                Err(e) => (kind.into(), false, Err(e)),
                Ok(d) => {
                    st.ds = d;
                    st.m.rows.retain(|id, _| id % m != r0);
                    (kind.into(), false, Ok(true))
                }
            }
        }
        _ => {
            let opts = lance::dataset::optimize::CompactionOptions {
                target_rows_per_fragment: *rng.pick(&[4usize, 16, 1 << 20]),
                materialize_deletions_threshold: *rng.pick(&[0.0f32, 0.1, 0.5]),
                batch_size: *rng.pick(&[None, Some(3usize)]),
                ..Default::default()
            };
            st.log.push(format!("compact_files target={} thr={}", opts.target_rows_per_fragment, opts.materialize_deletions_threshold));
            let r = guard(async {
                compact_files(&mut d, opts, None).await?;
                Ok(d)
            })
            .await;
            let _ = schema_before;
            match r {
                Err(e) => ("compact".into(), false, Err(e)),
                Ok(d) => {
                    st.ds = d;
                    ("compact".into(), false, Ok(true))
                }
            }
        }
    }
}

fn corrupt(s: &mut Scan, rng: &mut Rng) -> bool {
    if s.rows.len() < 2 {
        return false;
    }
    match rng.below(4) {
        0 => {
            // two rows swap the value of the last column (an "untouched" column changed)
            let c = s.names.len() - 1;
            if s.rows[0][c] == s.rows[1][c] {
                s.rows[0][c] = Cell::Other("corrupted".into());
            } else {
                let t = s.rows[0][c].clone();
                s.rows[0][c] = s.rows[1][c].clone();
                s.rows[1][c] = t;
            }
            true
        }
        1 => {
            s.rows.swap(0, 1);
            true
        }
        2 => {
            if s.field_ids.len() >= 2 {
                s.field_ids[1] = s.field_ids[0];
                true
            } else {
                false
            }
        }
        _ => {
            s.rows.pop();
            true
        }
    }
}

async fn run_case(cx: &Ctx<'_>, seed: u64, idx: u64, thorough: bool, selftest: bool) -> (u64, u64) {
    let mut rng = Rng::for_case(seed, idx);
    let version = *rng.pick_weighted(&[(3, LanceFileVersion::V2_0), (3, LanceFileVersion::V2_1), (1, LanceFileVersion::V2_2)]);
    let stable = rng.bool();
    // ---- initial schema: id, v, k, s, st{a,s} (nested), + 0..2 scalars
    let mut specs: Vec<ColSpec> = vec![
        ColSpec { name: "v".into(), ty: ColTy::I64, nullable: false, null_eighths: 0, small_domain: false },
        ColSpec { name: "k".into(), ty: ColTy::I32, nullable: true, null_eighths: 2, small_domain: true },
        ColSpec { name: "s".into(), ty: ColTy::Utf8, nullable: true, null_eighths: 2, small_domain: true },
    ];
    if rng.chance(2, 3) {
        specs.push(ColSpec { name: "st".into(), ty: ColTy::StructIS, nullable: false, null_eighths: 0, small_domain: true });
    }
    let pool = {
        let mut p = ColTy::scalar_pool();
        p.extend([ColTy::Dec128(12, 3), ColTy::FslF32(4), ColTy::DictUtf8]);
        p
    };
    for i in 0..rng.urange(0, 2) {
        specs.push(ColSpec {
            name: format!("x{i}"),
            ty: rng.pick(&pool).clone(),
            nullable: rng.bool(),
            null_eighths: *rng.pick(&[0u8, 1, 4]),
            small_domain: rng.bool(),
        });
    }
    for sp in &specs {
        crate::hist::TABLE_SHAPES.add(&format!("column:{:?}", sp.ty), 1);
    }
    crate::hist::TABLE_SHAPES.add(&format!("storage:{version:?}"), 1);
    crate::hist::TABLE_SHAPES.add(if stable { "row-ids:stable" } else { "row-ids:address" }, 1);
    let mut cols = vec![CCol { name: "id".into(), dt: DataType::Int64, nullable: false, spec: None }];
    for s in &specs {
        cols.push(CCol { name: s.name.clone(), dt: s.ty.arrow(), nullable: s.nullable, spec: Some(s.clone()) });
    }
    let world = World::memory();
    let actor = Actor::new(world.new_actor(0));
    let uri = format!("memory://c14-{seed}-{idx}");
    // placeholder state to use gen_rows before the dataset exists
    let mut ids = IdAlloc::new((idx % 4000) as usize + 1);
    let n0 = rng.urange(6, 30);
    let first = ids.take(n0);
    let names: Vec<String> = cols.iter().map(|c| c.name.clone()).collect();
    let schema = Arc::new(Schema::new(cols.iter().map(|c| Field::new(&c.name, c.dt.clone(), c.nullable)).collect::<Vec<_>>()));
    let mut arrays: Vec<ArrayRef> = vec![Arc::new(Int64Array::from(first.clone()))];
    arrays.push(Arc::new(Int64Array::from((0..n0 as i64).map(|i| 1_000_000 + i).collect::<Vec<_>>())));
    for s in specs.iter().skip(1) {
        arrays.push(gen_column(&mut rng, s, n0));
    }
    let b0 = RecordBatch::try_new(schema.clone(), arrays).unwrap();
    let mut params = actor.write_params(WriteMode::Create);
    params.max_rows_per_file = *rng.pick(&[3usize, 5, 8, 1000]);
    params.enable_stable_row_ids = stable;
    params.data_storage_version = Some(version);
    let reader = RecordBatchIterator::new(vec![Ok(b0.clone())], schema);
    let ds = match guard(Dataset::write(reader, uri.as_str(), Some(params))).await {
        Ok(d) => d,
        Err(e) => {
            cx.report.harness_error(&format!("case {idx}: create failed: {}", e.brief()));
            return (0, 0);
        }
    };
    let mut rows = BTreeMap::new();
    for i in 0..b0.num_rows() {
        let row: Row = b0.columns().iter().map(|c| cell_at(c.as_ref(), i)).collect();
        rows.insert(row[0].as_i64().unwrap(), row);
    }
    let mut st = St {
        actor,
        uri,
        ds,
        cols,
        m: M { names, rows },
        ids,
        vseq: n0 as i64,
        dropped_names: vec![],
        dead_field_ids: BTreeSet::new(),
        name_seq: 0,
        log: vec![format!("create {n0} rows version={version:?} stable={stable} cols={}", specs.iter().map(|s| format!("{}:{:?}", s.name, s.ty)).collect::<Vec<_>>().join(","))],
        version,
    };
    let nsteps = if thorough { rng.urange(6, 20) } else { rng.urange(5, 12) };
    let mut kinds: Vec<String> = vec![];
    let mut cells_compared = 0u64;
    let mut schema_ops = 0u64;
    let mut readd = 0u64;
    let (mut applied, mut detected) = (0u64, 0u64);
    let (mut before, mut before_batches) = match guard(scan(&st.ds)).await {
        Ok(x) => x,
        Err(e) => {
            cx.report.inconclusive(&format!("case {idx}: first scan failed: {}", e.brief()));
            return (0, 0);
        }
    };
    for stepno in 0..nsteps {
        let names_before: BTreeSet<String> = st.m.names.iter().cloned().collect();
        let lschema_before = st.ds.schema().clone();
        let m_before = st.m.clone();
        let cols_before = st.cols.clone();
        let (kind, schema_op, res) = step(&mut st, &mut rng, &before, &before_batches).await;
        cx.ops.add(&kind, 1);
        let witness = |st: &St, extra: serde_json::Value| json!({"seed": seed, "case": idx, "step": stepno, "op": kind, "detail": extra, "history": st.log});
        match res {
            Ok(false) => continue,
            Ok(true) => {
                st.refresh_types();
                st.note_dead_fields(&lschema_before);
                kinds.push(kind.clone());
                if schema_op {
                    schema_ops += 1;
                }
                if st.m.names.iter().any(|n| !names_before.contains(n) && st.dropped_names.contains(n)) {
                    readd += 1;
                }
            }
            Err(f) => {
                st.log.push(format!("   -> {}", f.brief().chars().take(200).collect::<String>()));
                st.m = m_before;
                st.cols = cols_before;
                if f.class() == "HarnessMarker" {
                    cx.report.violation(
                        "lossy-cast-accepted",
                        "alter_columns accepted a cast that arrow_cast with safe=false rejects",
                        witness(&st, json!({"what": f.msg()})),
                    );
                    return (applied, detected);
                }
                if f.is_clean_rejection() {
                    cx.report.rejected();
                    cx.diag.add(&format!("rejected:{kind}:{}", f.msg().chars().take(90).collect::<String>()), 1);
                } else {
                    cx.diag.add(&format!("failed:{kind}:{}", f.key()), 1);
                }
                // no effect expected: re-open and fall through to the comparison with the old model
                match guard(st.actor.open(&st.uri)).await {
                    Ok(d) => st.ds = d,
                    Err(e) => {
                        cx.report.violation(
                            &format!("table-unreadable-after-failed-{kind}"),
                            "the table cannot be opened after a rejected schema operation",
                            witness(&st, json!({"error": e.brief()})),
                        );
                        return (applied, detected);
                    }
                }
            }
        }
        let ds_after = if rng.chance(1, 3) {
            match guard(st.actor.fresh_session().open(&st.uri)).await {
                Ok(d) => d,
                Err(_) => st.ds.clone(),
            }
        } else {
            st.ds.clone()
        };
        let (mut after, after_batches) = match guard(scan(&ds_after)).await {
            Ok(x) => x,
            Err(e) => {
                cx.report.violation(
                    &format!("scan-failed-after-{kind}"),
                    "the table cannot be scanned after a schema evolution step",
                    witness(&st, json!({"error": e.brief()})),
                );
                return (applied, detected);
            }
        };
        let order_before: Vec<i64> = before.rows.iter().filter_map(|r| r[0].as_i64()).collect();
        if selftest {
            let mut crng = Rng::for_case(seed ^ 0xABCD, idx * 64 + stepno as u64);
            let mut a2 = after.clone();
            if corrupt(&mut a2, &mut crng) {
                applied += 1;
                if !oracle(&st.m, Some(&order_before), &a2, &kind, true).is_empty() {
                    detected += 1;
                }
            }
        } else {
            let f = oracle(&st.m, Some(&order_before), &after, &kind, schema_op);
            cells_compared += (after.rows.len() * after.names.len()) as u64;
            if let Some(f) = f.into_iter().next() {
                cx.report.violation(&f.sig, &f.what, witness(&st, f.detail));
                return (0, 0);
            }
            // diagnostic only: a dropped field id that comes back
            if after.field_ids.iter().any(|f| st.dead_field_ids.contains(f)) {
                cx.report.count("field_id_of_dropped_column_reused", 1);
                if std::env::var("C14_DEBUG").is_ok() {
                    println!("DEBUG reuse case {idx} step {stepno} {kind}: ids now {:?} dead {:?}\n  {}", after.field_ids, st.dead_field_ids, st.log.join("\n  "));
                }
            }
        }
        after.field_ids.clear();
        before = after;
        before_batches = after_batches;
    }
    if selftest {
        return (applied, detected);
    }
    let _ = st.version;
    cx.report.count("cells_compared", cells_compared);
    cx.report.count("schema_ops_applied", schema_ops);
    cx.report.count("columns_readded_under_dropped_name", readd);
    let nontrivial = schema_ops >= 2 && !st.m.rows.is_empty() && st.ds.count_fragments() >= 1;
    let sig = format!("{version:?}|{stable}|{}", kinds.join(","));
    cx.report.case(if nontrivial { Some(fnv_str(&sig)) } else { None });
    if nontrivial && cx.report.want_sample() {
        cx.report.sample(json!({"case": idx, "history": st.log, "final_columns": st.m.names}));
    }
    (0, 0)
}

pub fn run(args: &Args) -> i32 {
    install_quiet_panic_hook();
    let report = Report::new(
        args,
        "exploration",
        "One case = a seeded table (id, v, k, s, optional struct st{a,s}, 0-2 random scalar/FSL/dictionary columns; storage \
         2.0/2.1/2.2; stable row ids on/off) and 5-12 random steps from add_columns (SQL with reference evaluation, AllNulls, \
         BatchUDF, Reader, Stream), Dataset::merge on id (misses => NULL), alter_columns (rename top-level / struct child, \
         cast checked against arrow_cast safe=false, nullability), drop_columns (top-level / struct child), re-adding dropped \
         names, append in the evolved schema, delete, compact_files; after every step all columns by id, column list, row \
         order (schema ops), unique field ids. Non-trivial = >=2 applied schema operations on a non-empty table; distinct by \
         (version, stable, applied step kinds).",
        (85, 900),
    )
    .with_min_nontrivial(args.tier.pick(40, 400));
    let ops = Histo::default();
    let diag = Histo::default();
    let cx = Ctx { report: &report, ops: &ops, diag: &diag };
    let selftest = selftest_requested(args);
    let thorough = args.tier == vmon::report::Tier::Thorough;
    let max_cases = if selftest { 60 } else { args.tier.pick(1_500, 40_000) };
    let stt = std::sync::Mutex::new((0u64, 0u64));
    if let Some(i) = args.extra.get("case").and_then(|s| s.parse::<u64>().ok()) {
        let rt = tokio::runtime::Builder::new_current_thread().enable_all().build().unwrap();
        rt.block_on(run_case(&cx, args.seed, i, thorough, false));
    } else {
        run_parallel(&report, max_cases, 16, |i, rt| {
            let r = rt.block_on(run_case(&cx, args.seed, i, thorough, selftest));
            let mut g = stt.lock().unwrap();
            g.0 += r.0;
            g.1 += r.1;
        });
    }
    if selftest {
        let g = stt.lock().unwrap();
        println!("SELFTEST C14 corruptions_applied={} detected={}", g.0, g.1);
        return if g.0 > 0 && g.0 == g.1 { 0 } else { 2 };
    }
    report.set("steps_by_kind", ops.json());
    report.set("table_shapes", crate::hist::TABLE_SHAPES.json());
    report.set("rejections_and_failures", diag.json());
    report.finish()
}
