//! Recursive Arrow type / array generator for C11 (wider than vmon's `ColTy` pool: every leaf
//! type Arrow has a stable layout for, nested list / large list / fixed size list / struct /
//! dictionary to depth 2, garbage behind nulls, all-null columns, empty batches).

use arrow_array::builder::*;
use arrow_array::types::*;
use arrow_array::*;
use arrow_buffer::{i256, NullBuffer, OffsetBuffer};
use arrow_schema::{DataType, Field, Fields, IntervalUnit, Schema, SchemaRef, TimeUnit};
use std::sync::Arc;
use vmon::prng::Rng;
use vmon::table::{gen_f64, gen_string, ColTy};

#[derive(Clone, Debug)]
pub struct XCol {
    pub name: String,
    pub ty: DataType,
    pub nullable: bool,
    pub null_eighths: u8,
    pub small: bool,
}

#[derive(Clone, Debug)]
pub struct XSpec {
    pub cols: Vec<XCol>,
    /// generate no null at any nesting level
    pub no_nulls: bool,
}

fn unit(rng: &mut Rng) -> TimeUnit {
    *rng.pick(&[
        TimeUnit::Second,
        TimeUnit::Millisecond,
        TimeUnit::Microsecond,
        TimeUnit::Nanosecond,
    ])
}

pub fn random_leaf(rng: &mut Rng) -> DataType {
    match rng.below(34) {
        0 => DataType::Int8,
        1 => DataType::Int16,
        2 => DataType::Int32,
        3 => DataType::Int64,
        4 => DataType::UInt8,
        5 => DataType::UInt16,
        6 => DataType::UInt32,
        7 => DataType::UInt64,
        8 => DataType::Float16,
        9 => DataType::Float32,
        10 => DataType::Float64,
        11 | 12 => DataType::Boolean,
        13 | 14 => DataType::Utf8,
        15 => DataType::LargeUtf8,
        16 => DataType::Binary,
        17 => DataType::LargeBinary,
        18 => DataType::FixedSizeBinary(*rng.pick(&[1, 3, 8, 16])),
        19 => DataType::Date32,
        20 => DataType::Date64,
        21 => DataType::Time32(*rng.pick(&[TimeUnit::Second, TimeUnit::Millisecond])),
        22 => DataType::Time64(*rng.pick(&[TimeUnit::Microsecond, TimeUnit::Nanosecond])),
        23 | 24 => {
            let tz = match rng.below(3) {
                0 => None,
                1 => Some(Arc::from("UTC")),
                _ => Some(Arc::from("+08:00")),
            };
            DataType::Timestamp(unit(rng), tz)
        }
        25 => DataType::Duration(unit(rng)),
        26 | 27 => {
            let p = *rng.pick(&[1u8, 5, 18, 38]);
            let s = rng.range(0, p.min(10) as i64) as i8;
            DataType::Decimal128(p, s)
        }
        28 => {
            let p = *rng.pick(&[1u8, 20, 40, 76]);
            let s = rng.range(0, p.min(10) as i64) as i8;
            DataType::Decimal256(p, s)
        }
        29 => DataType::Null,
        30 => DataType::Interval(*rng.pick(&[
            IntervalUnit::YearMonth,
            IntervalUnit::DayTime,
            IntervalUnit::MonthDayNano,
        ])),
        31 => DataType::Utf8View,
        32 => DataType::BinaryView,
        _ => DataType::Int32,
    }
}

/// nested positions never hold the Null type: `list<null>`, `list<struct<null>>`, `fsl<null>` … are
/// accepted by the writer but not decodable by the 2.1+ readers (NOTES.md); Null stays a top-level
/// column type only
fn nested_type(rng: &mut Rng, depth: u32) -> DataType {
    loop {
        let t = random_type(rng, depth);
        if !matches!(t, DataType::Null) {
            return t;
        }
    }
}

fn child_field(rng: &mut Rng, name: &str, dt: DataType) -> Arc<Field> {
    let nullable = matches!(dt, DataType::Null) || rng.chance(3, 4);
    Arc::new(Field::new(name, dt, nullable))
}

pub fn random_type(rng: &mut Rng, depth: u32) -> DataType {
    if depth == 0 || rng.chance(3, 5) {
        return random_leaf(rng);
    }
    match rng.below(8) {
        0 | 1 => {
            let c = list_child(rng, depth - 1);
            DataType::List(child_field(rng, "item", c))
        }
        2 => {
            let c = list_child(rng, depth - 1);
            DataType::LargeList(child_field(rng, "item", c))
        }
        3 | 4 => {
            let c = if rng.chance(2, 3) {
                rng.pick(&[
                    DataType::Float32,
                    DataType::Float64,
                    DataType::Float16,
                    DataType::UInt8,
                    DataType::Int8,
                    DataType::Int32,
                ])
                .clone()
            } else {
                // fixed-width children only: the writer also accepts FSL<utf8>, FSL<null>,
                // FSL<list<..>> ... which no reader version can decode (todo!() / unreachable!()
                // in lance-encoding decoder.rs) -- recorded in NOTES.md, kept out of the pool
                fsl_child(rng, depth - 1)
            };
            let k = *rng.pick(&[1, 2, 3, 4, 8, 17]);
            DataType::FixedSizeList(child_field(rng, "item", c), k)
        }
        5 | 6 => {
            let n = rng.urange(1, 3);
            let fields: Vec<Arc<Field>> = (0..n)
                .map(|i| {
                    let c = nested_type(rng, depth - 1);
                    child_field(rng, &format!("f{i}"), c)
                })
                .collect();
            DataType::Struct(Fields::from(fields))
        }
        _ => {
            let k = rng
                .pick(&[
                    DataType::Int8,
                    DataType::Int16,
                    DataType::Int32,
                    DataType::Int64,
                    DataType::UInt8,
                    DataType::UInt16,
                    DataType::UInt32,
                ])
                .clone();
            let v = rng
                .pick(&[
                    DataType::Utf8,
                    DataType::Utf8,
                    DataType::Utf8,
                    DataType::LargeUtf8,
                    DataType::Binary,
                    DataType::Int32,
                    DataType::Float64,
                ])
                .clone();
            DataType::Dictionary(Box::new(k), Box::new(v))
        }
    }
}

/// list items of type Null are accepted by the writer but no 2.1+ reader path decodes them
/// (several distinct failures, see NOTES.md) -- kept out of the pool
fn list_child(rng: &mut Rng, depth: u32) -> DataType {
    loop {
        let t = random_type(rng, depth);
        if !matches!(t, DataType::Null) {
            return t;
        }
    }
}

fn fsl_child(rng: &mut Rng, depth: u32) -> DataType {
    if depth > 0 && rng.chance(1, 3) {
        let c = fsl_child(rng, depth - 1);
        let k = *rng.pick(&[1, 2, 3]);
        return DataType::FixedSizeList(child_field(rng, "item", c), k);
    }
    loop {
        let t = random_leaf(rng);
        if t.primitive_width().is_some() || matches!(t, DataType::Boolean) {
            return t;
        }
    }
}

/// compact printable tag for type histograms
pub fn type_tag(dt: &DataType) -> String {
    match dt {
        DataType::List(f) => format!("list<{}>", type_tag(f.data_type())),
        DataType::LargeList(f) => format!("largelist<{}>", type_tag(f.data_type())),
        DataType::FixedSizeList(f, _) => format!("fsl<{}>", type_tag(f.data_type())),
        DataType::Struct(fs) => format!(
            "struct<{}>",
            fs.iter()
                .map(|f| type_tag(f.data_type()))
                .collect::<Vec<_>>()
                .join(",")
        ),
        DataType::Dictionary(k, v) => format!("dict<{},{}>", type_tag(k), type_tag(v)),
        DataType::Timestamp(u, tz) => format!(
            "ts[{}{}]",
            unit_tag(u),
            if tz.is_some() { ",tz" } else { "" }
        ),
        DataType::Duration(u) => format!("dur[{}]", unit_tag(u)),
        DataType::Time32(u) => format!("time32[{}]", unit_tag(u)),
        DataType::Time64(u) => format!("time64[{}]", unit_tag(u)),
        DataType::Decimal128(_, _) => "dec128".into(),
        DataType::Decimal256(_, _) => "dec256".into(),
        DataType::FixedSizeBinary(_) => "fsb".into(),
        DataType::Interval(_) => "interval".into(),
        other => format!("{other:?}").to_lowercase(),
    }
}

fn unit_tag(u: &TimeUnit) -> &'static str {
    match u {
        TimeUnit::Second => "s",
        TimeUnit::Millisecond => "ms",
        TimeUnit::Microsecond => "us",
        TimeUnit::Nanosecond => "ns",
    }
}

/// top-level kind for coarse histograms
pub fn kind_tag(dt: &DataType) -> String {
    match dt {
        DataType::List(_) => "list".into(),
        DataType::LargeList(_) => "largelist".into(),
        DataType::FixedSizeList(_, _) => "fsl".into(),
        DataType::Struct(_) => "struct".into(),
        DataType::Dictionary(_, _) => "dict".into(),
        other => type_tag(other),
    }
}

impl XSpec {
    pub fn random(rng: &mut Rng, ncols: usize, depth: u32) -> Self {
        let mut cols = vec![];
        for i in 0..ncols {
            let ty = random_type(rng, depth);
            let nullable = matches!(ty, DataType::Null) || rng.bool();
            cols.push(XCol {
                name: format!("c{i}"),
                ty,
                nullable,
                null_eighths: *rng.pick(&[0u8, 1, 4, 8]),
                small: rng.chance(1, 2),
            });
        }
        Self { cols, no_nulls: false }
    }
    /// the vmon pool (ColTy) expressed as an XSpec
    pub fn from_colty(rng: &mut Rng, ncols: usize) -> Self {
        let mut pool = ColTy::scalar_pool();
        pool.extend([
            ColTy::Dec128(12, 3),
            ColTy::FslF32(4),
            ColTy::ListI32,
            ColTy::StructIS,
            ColTy::DictUtf8,
        ]);
        let mut cols = vec![];
        for i in 0..ncols {
            let ty = rng.pick(&pool).arrow();
            cols.push(XCol {
                name: format!("c{i}"),
                ty,
                nullable: rng.bool(),
                null_eighths: *rng.pick(&[0u8, 1, 4, 8]),
                small: rng.chance(1, 2),
            });
        }
        Self { cols, no_nulls: false }
    }
    pub fn schema(&self) -> SchemaRef {
        let mut f = vec![Field::new("id", DataType::Int64, false)];
        for c in &self.cols {
            f.push(Field::new(&c.name, c.ty.clone(), c.nullable));
        }
        Arc::new(Schema::new(f))
    }
    pub fn describe(&self) -> String {
        self.cols
            .iter()
            .map(|c| {
                format!(
                    "{}:{}{}",
                    c.name,
                    type_tag(&c.ty),
                    if c.nullable {
                        format!("?{}", c.null_eighths)
                    } else {
                        "".into()
                    }
                )
            })
            .collect::<Vec<_>>()
            .join(",")
    }
    pub fn batch(&self, rng: &mut Rng, ids: &[i64]) -> RecordBatch {
        let n = ids.len();
        let mut arrays: Vec<ArrayRef> = vec![Arc::new(Int64Array::from(ids.to_vec()))];
        NO_NULLS.with(|c| c.set(self.no_nulls));
        for c in &self.cols {
            arrays.push(gen_array(rng, &c.ty, n, c.nullable, c.null_eighths, c.small));
        }
        NO_NULLS.with(|c| c.set(false));
        RecordBatch::try_new(self.schema(), arrays).expect("generated batch")
    }
    /// Legacy (0.1) format: no null support, one dictionary per file, empty string == null,
    /// list items always read back nullable (docs/src/format/file/versioning.md: null support
    /// arrived with 2.0; the format is deprecated). Flat non-nullable scalar columns and
    /// fixed size lists only, no null data.
    pub fn legacy(rng: &mut Rng, ncols: usize) -> Self {
        let mut pool = ColTy::scalar_pool();
        pool.extend([ColTy::Dec128(12, 3), ColTy::FslF32(4)]);
        let cols = (0..ncols)
            .map(|i| XCol {
                name: format!("c{i}"),
                ty: rng.pick(&pool).arrow(),
                nullable: false,
                null_eighths: 0,
                small: rng.bool(),
            })
            .collect();
        Self { cols, no_nulls: true }
    }
    pub fn has_dictionary(&self) -> bool {
        fn has(dt: &DataType) -> bool {
            match dt {
                DataType::Dictionary(_, _) => true,
                DataType::List(c) | DataType::LargeList(c) | DataType::FixedSizeList(c, _) => has(c.data_type()),
                DataType::Struct(cs) => cs.iter().any(|c| has(c.data_type())),
                _ => false,
            }
        }
        self.cols.iter().any(|c| has(&c.ty))
    }
}

thread_local! {
    /// generator switch: produce no null anywhere (legacy format)
    static NO_NULLS: std::cell::Cell<bool> = const { std::cell::Cell::new(false) };
}

fn gen_valid(rng: &mut Rng, n: usize, nullable: bool, eighths: u8) -> Vec<bool> {
    if NO_NULLS.with(|c| c.get()) {
        // keep the random stream aligned
        for _ in 0..n {
            if nullable {
                rng.below(8);
            }
        }
        return vec![true; n];
    }
    (0..n)
        .map(|_| !(nullable && rng.below(8) < eighths as u64))
        .collect()
}

fn nulls_of(valid: &[bool], nullable: bool) -> Option<NullBuffer> {
    if !nullable {
        return None;
    }
    if valid.iter().all(|v| *v) {
        // sometimes hand over an explicit all-valid buffer, sometimes none: both are legal Arrow
        return None;
    }
    Some(NullBuffer::from(valid.to_vec()))
}

fn gen_int(rng: &mut Rng, lo: i128, hi: i128, small: bool) -> i128 {
    if small {
        let v = rng.range(-3, 12) as i128;
        return v.clamp(lo, hi);
    }
    match rng.below(8) {
        0 => lo,
        1 => hi,
        2 => 0i128.clamp(lo, hi),
        3 => (lo + 1).min(hi),
        4 => (hi - 1).max(lo),
        _ => {
            let span = (hi - lo) as u128;
            let r = ((rng.next_u64() as u128) << 64 | rng.next_u64() as u128) % (span + 1);
            lo + r as i128
        }
    }
}

macro_rules! prim {
    ($rng:expr, $valid:expr, $nullable:expr, $t:ty, $dt:expr, $gen:expr) => {{
        let vals: Vec<<$t as ArrowPrimitiveType>::Native> =
            $valid.iter().map(|_| $gen).collect();
        let arr = PrimitiveArray::<$t>::new(vals.into(), nulls_of(&$valid, $nullable))
            .with_data_type($dt.clone());
        Arc::new(arr) as ArrayRef
    }};
}

/// Random array of logical type `dt` with `n` rows.
pub fn gen_array(
    rng: &mut Rng,
    dt: &DataType,
    n: usize,
    nullable: bool,
    eighths: u8,
    small: bool,
) -> ArrayRef {
    let valid = gen_valid(rng, n, nullable, eighths);
    macro_rules! int {
        ($t:ty, $n:ty) => {
            prim!(rng, valid, nullable, $t, dt, gen_int(rng, <$n>::MIN as i128, <$n>::MAX as i128, small) as $n)
        };
    }
    match dt {
        DataType::Null => Arc::new(NullArray::new(n)),
        DataType::Int8 => int!(Int8Type, i8),
        DataType::Int16 => int!(Int16Type, i16),
        DataType::Int32 => int!(Int32Type, i32),
        DataType::Int64 => int!(Int64Type, i64),
        DataType::UInt8 => int!(UInt8Type, u8),
        DataType::UInt16 => int!(UInt16Type, u16),
        DataType::UInt32 => int!(UInt32Type, u32),
        DataType::UInt64 => int!(UInt64Type, u64),
        DataType::Float16 => prim!(
            rng,
            valid,
            nullable,
            Float16Type,
            dt,
            half::f16::from_f64(gen_f64(rng, small))
        ),
        DataType::Float32 => prim!(rng, valid, nullable, Float32Type, dt, gen_f64(rng, small) as f32),
        DataType::Float64 => prim!(rng, valid, nullable, Float64Type, dt, gen_f64(rng, small)),
        DataType::Date32 => {
            prim!(rng, valid, nullable, Date32Type, dt, gen_int(rng, -100_000, 100_000, small) as i32)
        }
        DataType::Date64 => prim!(
            rng,
            valid,
            nullable,
            Date64Type,
            dt,
            gen_int(rng, -100_000, 100_000, small) as i64 * 86_400_000
        ),
        DataType::Time32(TimeUnit::Second) => {
            prim!(rng, valid, nullable, Time32SecondType, dt, gen_int(rng, 0, 86_399, small) as i32)
        }
        DataType::Time32(_) => prim!(
            rng,
            valid,
            nullable,
            Time32MillisecondType,
            dt,
            gen_int(rng, 0, 86_399_999, small) as i32
        ),
        DataType::Time64(TimeUnit::Microsecond) => prim!(
            rng,
            valid,
            nullable,
            Time64MicrosecondType,
            dt,
            gen_int(rng, 0, 86_399_999_999, small) as i64
        ),
        DataType::Time64(_) => prim!(
            rng,
            valid,
            nullable,
            Time64NanosecondType,
            dt,
            gen_int(rng, 0, 86_399_999_999_999, small) as i64
        ),
        DataType::Timestamp(u, _) => {
            let lim = 4_000_000_000i128;
            match u {
                TimeUnit::Second => prim!(rng, valid, nullable, TimestampSecondType, dt, gen_int(rng, -lim, lim, small) as i64),
                TimeUnit::Millisecond => prim!(rng, valid, nullable, TimestampMillisecondType, dt, gen_int(rng, -lim * 1000, lim * 1000, small) as i64),
                TimeUnit::Microsecond => prim!(rng, valid, nullable, TimestampMicrosecondType, dt, gen_int(rng, -lim * 1_000_000, lim * 1_000_000, small) as i64),
                TimeUnit::Nanosecond => prim!(rng, valid, nullable, TimestampNanosecondType, dt, gen_int(rng, -lim * 1_000_000_000, lim * 1_000_000_000, small) as i64),
            }
        }
        DataType::Duration(u) => match u {
            TimeUnit::Second => prim!(rng, valid, nullable, DurationSecondType, dt, gen_int(rng, i64::MIN as i128, i64::MAX as i128, small) as i64),
            TimeUnit::Millisecond => prim!(rng, valid, nullable, DurationMillisecondType, dt, gen_int(rng, i64::MIN as i128, i64::MAX as i128, small) as i64),
            TimeUnit::Microsecond => prim!(rng, valid, nullable, DurationMicrosecondType, dt, gen_int(rng, i64::MIN as i128, i64::MAX as i128, small) as i64),
            TimeUnit::Nanosecond => prim!(rng, valid, nullable, DurationNanosecondType, dt, gen_int(rng, i64::MIN as i128, i64::MAX as i128, small) as i64),
        },
        DataType::Interval(IntervalUnit::YearMonth) => {
            prim!(rng, valid, nullable, IntervalYearMonthType, dt, gen_int(rng, -1000, 1000, small) as i32)
        }
        DataType::Interval(IntervalUnit::DayTime) => prim!(
            rng,
            valid,
            nullable,
            IntervalDayTimeType,
            dt,
            IntervalDayTimeType::make_value(
                gen_int(rng, -1000, 1000, small) as i32,
                gen_int(rng, -100000, 100000, small) as i32
            )
        ),
        DataType::Interval(IntervalUnit::MonthDayNano) => prim!(
            rng,
            valid,
            nullable,
            IntervalMonthDayNanoType,
            dt,
            IntervalMonthDayNanoType::make_value(
                gen_int(rng, -100, 100, small) as i32,
                gen_int(rng, -1000, 1000, small) as i32,
                gen_int(rng, -1_000_000_000, 1_000_000_000, small) as i64
            )
        ),
        DataType::Decimal128(p, _) => {
            let max = 10i128.pow(*p as u32) - 1;
            prim!(rng, valid, nullable, Decimal128Type, dt, gen_int(rng, -max, max, small))
        }
        DataType::Decimal256(p, _) => {
            let max = 10i128.pow((*p as u32).min(38)) - 1;
            prim!(rng, valid, nullable, Decimal256Type, dt, {
                let v = i256::from_i128(gen_int(rng, -max, max, small));
                if *p > 60 && rng.chance(1, 4) {
                    v.wrapping_mul(i256::from_i128(10i128.pow(20)))
                } else {
                    v
                }
            })
        }
        DataType::Boolean => {
            let vals: Vec<bool> = valid.iter().map(|_| rng.bool()).collect();
            Arc::new(BooleanArray::new(vals.into(), nulls_of(&valid, nullable)))
        }
        DataType::Utf8 => {
            let mut b = StringBuilder::new();
            for v in &valid {
                if *v || !nullable {
                    b.append_value(gen_string(rng, small));
                } else {
                    b.append_null();
                }
            }
            Arc::new(b.finish())
        }
        DataType::LargeUtf8 => {
            let mut b = LargeStringBuilder::new();
            for v in &valid {
                if *v || !nullable {
                    b.append_value(gen_string(rng, small));
                } else {
                    b.append_null();
                }
            }
            Arc::new(b.finish())
        }
        DataType::Utf8View => {
            let mut b = StringViewBuilder::new();
            for v in &valid {
                if *v || !nullable {
                    // mix inline (<=12 bytes) and out-of-line strings
                    let mut s = gen_string(rng, small);
                    if rng.chance(1, 4) {
                        s.push_str("-a-long-suffix-beyond-twelve-bytes");
                    }
                    b.append_value(s);
                } else {
                    b.append_null();
                }
            }
            Arc::new(b.finish())
        }
        DataType::Binary => {
            let mut b = BinaryBuilder::new();
            for v in &valid {
                if *v || !nullable {
                    let len = if small { rng.urange(0, 3) } else { rng.urange(0, 40) };
                    b.append_value(rng.bytes(len));
                } else {
                    b.append_null();
                }
            }
            Arc::new(b.finish())
        }
        DataType::LargeBinary => {
            let mut b = LargeBinaryBuilder::new();
            for v in &valid {
                if *v || !nullable {
                    let len = if small { rng.urange(0, 3) } else { rng.urange(0, 40) };
                    b.append_value(rng.bytes(len));
                } else {
                    b.append_null();
                }
            }
            Arc::new(b.finish())
        }
        DataType::BinaryView => {
            let mut b = BinaryViewBuilder::new();
            for v in &valid {
                if *v || !nullable {
                    let len = if small { rng.urange(0, 3) } else { rng.urange(0, 40) };
                    b.append_value(rng.bytes(len));
                } else {
                    b.append_null();
                }
            }
            Arc::new(b.finish())
        }
        DataType::FixedSizeBinary(w) => {
            let mut b = FixedSizeBinaryBuilder::new(*w);
            for v in &valid {
                if *v || !nullable {
                    b.append_value(rng.bytes(*w as usize)).unwrap();
                } else {
                    b.append_null();
                }
            }
            Arc::new(b.finish())
        }
        DataType::List(f) => {
            let (lens, total) = list_lens(rng, &valid, nullable);
            let e8 = *rng.pick(&[0u8, 1, 4]);
            let child = gen_array(rng, f.data_type(), total, f.is_nullable(), e8, small);
            Arc::new(ListArray::new(
                f.clone(),
                OffsetBuffer::from_lengths(lens),
                child,
                nulls_of(&valid, nullable),
            ))
        }
        DataType::LargeList(f) => {
            let (lens, total) = list_lens(rng, &valid, nullable);
            let e8 = *rng.pick(&[0u8, 1, 4]);
            let child = gen_array(rng, f.data_type(), total, f.is_nullable(), e8, small);
            Arc::new(LargeListArray::new(
                f.clone(),
                OffsetBuffer::from_lengths(lens),
                child,
                nulls_of(&valid, nullable),
            ))
        }
        DataType::FixedSizeList(f, k) => {
            let e8 = *rng.pick(&[0u8, 0, 1, 4]);
            let child = gen_array(rng, f.data_type(), n * (*k as usize), f.is_nullable(), e8, small);
            Arc::new(FixedSizeListArray::new(
                f.clone(),
                *k,
                child,
                nulls_of(&valid, nullable),
            ))
        }
        DataType::Struct(fields) => {
            let children: Vec<ArrayRef> = fields
                .iter()
                .map(|f| {
                    let e8 = *rng.pick(&[0u8, 1, 4, 8]);
                    gen_array(rng, f.data_type(), n, f.is_nullable(), e8, small)
                })
                .collect();
            Arc::new(StructArray::new(
                fields.clone(),
                children,
                nulls_of(&valid, nullable),
            ))
        }
        DataType::Dictionary(k, v) => {
            let m = rng.urange(1, 6);
            // dictionary values: mostly non-null, distinct not required by Arrow
            let values = gen_array(rng, v, m, false, 0, small);
            macro_rules! dict {
                ($kt:ty, $kn:ty) => {{
                    let keys: Vec<$kn> = valid.iter().map(|_| rng.usize_below(m) as $kn).collect();
                    let keys = PrimitiveArray::<$kt>::new(keys.into(), nulls_of(&valid, nullable));
                    Arc::new(DictionaryArray::<$kt>::try_new(keys, values).expect("dict")) as ArrayRef
                }};
            }
            match k.as_ref() {
                DataType::Int8 => dict!(Int8Type, i8),
                DataType::Int16 => dict!(Int16Type, i16),
                DataType::Int32 => dict!(Int32Type, i32),
                DataType::Int64 => dict!(Int64Type, i64),
                DataType::UInt8 => dict!(UInt8Type, u8),
                DataType::UInt16 => dict!(UInt16Type, u16),
                DataType::UInt32 => dict!(UInt32Type, u32),
                _ => dict!(UInt64Type, u64),
            }
        }
        other => panic!("generator does not cover {other:?}"),
    }
}

/// list lengths; a null row may keep a non-empty (garbage) child range — legal Arrow that a
/// storage layer must not expose.
fn list_lens(rng: &mut Rng, valid: &[bool], nullable: bool) -> (Vec<usize>, usize) {
    let mut lens = Vec::with_capacity(valid.len());
    let mut total = 0;
    for v in valid {
        let l = if *v || !nullable {
            match rng.below(6) {
                0 => 0,
                1 => 1,
                2 => 2,
                3 => 3,
                4 => rng.urange(0, 9),
                _ => 1,
            }
        } else if rng.chance(1, 4) {
            rng.urange(1, 3)
        } else {
            0
        };
        total += l;
        lens.push(l);
    }
    (lens, total)
}
