//! C11 — write / append / overwrite / read returns exactly the rows written.
//!
//! Generator: random Arrow schemas (recursive type generator in `gen.rs` + the vmon `ColTy` pool),
//! random batch splits (including empty batches), random file / group / byte limits, every
//! storage version, histories of create / append / overwrite.
//! Oracle: model = concatenation of accepted batches since the last overwrite, keyed by the unique
//! `id`; after every accepted step: `count_rows`, full scan as a multiset, ordered scan as a
//! sequence, schema data types.

use arrow_array::{RecordBatch, RecordBatchIterator};
use arrow_schema::{DataType, Schema, SchemaRef};
use futures::TryStreamExt;
use lance::dataset::{WriteMode, WriteParams};
use lance::Dataset;
use lance_encoding::version::LanceFileVersion;
use serde_json::{json, Value};
use std::collections::BTreeMap;
use std::sync::Arc;
use vmon::prng::{fnv_str, Rng};
use vmon::report::{Args, Report};
use vmon::store::World;
use vmon::table::{batch_to_rows, render_row, Actor, Cell, IdAlloc, Row};

use crate::gen::{kind_tag, type_tag, XSpec};
use crate::util::{guard, install_quiet_panic_hook, run_parallel, selftest_requested, Fail, Histo};

#[derive(Clone, Debug)]
pub struct Finding {
    pub sig: String,
    pub what: String,
    pub detail: Value,
}

#[derive(Clone, Copy, Debug, PartialEq, Eq)]
pub enum Ver {
    Legacy,
    V2_0,
    V2_1,
    V2_2,
}

impl Ver {
    fn lance(&self) -> LanceFileVersion {
        match self {
            Ver::Legacy => LanceFileVersion::Legacy,
            Ver::V2_0 => LanceFileVersion::V2_0,
            Ver::V2_1 => LanceFileVersion::V2_1,
            Ver::V2_2 => LanceFileVersion::V2_2,
        }
    }
    fn name(&self) -> &'static str {
        match self {
            Ver::Legacy => "legacy",
            Ver::V2_0 => "2.0",
            Ver::V2_1 => "2.1",
            Ver::V2_2 => "2.2",
        }
    }
    /// docs/src/format/file/versioning.md: nulls in struct fields are supported from 2.1 on
    fn struct_validity_supported(&self) -> bool {
        matches!(self, Ver::V2_1 | Ver::V2_2)
    }
}

/// Observation of one dataset version.
pub struct Obs {
    pub count: usize,
    pub names: Vec<String>,
    pub unordered: Vec<Row>,
    pub ordered: Vec<Row>,
    pub dataset_schema: Schema,
    pub scan_schema: Option<SchemaRef>,
}

/// expected == observed up to the documented normalisations; records which were used.
fn cell_equiv(exp: &Cell, obs: &Cell, ver: Ver, norms: &mut Vec<&'static str>) -> bool {
    if exp == obs {
        return true;
    }
    match (exp, obs) {
        (Cell::Null, Cell::Struct(_)) if !ver.struct_validity_supported() => {
            norms.push("struct-validity-dropped(<2.1)");
            true
        }
        (Cell::List(a), Cell::List(b)) => {
            a.len() == b.len() && a.iter().zip(b).all(|(x, y)| cell_equiv(x, y, ver, norms))
        }
        (Cell::Struct(a), Cell::Struct(b)) => {
            a.len() == b.len()
                && a.iter()
                    .zip(b)
                    .all(|((ka, x), (kb, y))| ka == kb && cell_equiv(x, y, ver, norms))
        }
        _ => false,
    }
}

fn row_equiv(exp: &Row, obs: &Row, ver: Ver, norms: &mut Vec<&'static str>) -> Option<usize> {
    if exp.len() != obs.len() {
        return Some(usize::MAX);
    }
    for (i, (e, o)) in exp.iter().zip(obs).enumerate() {
        if !cell_equiv(e, o, ver, norms) {
            return Some(i);
        }
    }
    None
}

/// type equality up to documented normalisation. Returns Some(tag) when a normalisation applied.
///
/// The only normalisation accepted: the child field of a FixedSizeList comes back nullable. The
/// Lance schema stores a fixed size list as the *leaf* logical type string
/// `fixed_size_list:<inner>:<n>` (protos/file.proto `Field.logical_type`,
/// lance-core/src/datatypes.rs), which has no slot for the child's nullability; the reader always
/// rebuilds it as `("item", nullable = true)`.
fn type_equiv(exp: &DataType, obs: &DataType) -> Result<Option<String>, ()> {
    fn eq(e: &DataType, o: &DataType, widened: &mut bool) -> bool {
        use DataType::*;
        match (e, o) {
            (FixedSizeList(a, n), FixedSizeList(b, m)) => {
                if n != m || a.name() != b.name() {
                    return false;
                }
                if a.is_nullable() != b.is_nullable() {
                    if !a.is_nullable() && b.is_nullable() {
                        *widened = true;
                    } else {
                        return false;
                    }
                }
                eq(a.data_type(), b.data_type(), widened)
            }
            (List(a), List(b)) | (LargeList(a), LargeList(b)) => {
                a.name() == b.name()
                    && a.is_nullable() == b.is_nullable()
                    && eq(a.data_type(), b.data_type(), widened)
            }
            (Struct(a), Struct(b)) => {
                a.len() == b.len()
                    && a.iter().zip(b.iter()).all(|(x, y)| {
                        x.name() == y.name()
                            && x.is_nullable() == y.is_nullable()
                            && eq(x.data_type(), y.data_type(), widened)
                    })
            }
            (Dictionary(k1, v1), Dictionary(k2, v2)) => k1 == k2 && eq(v1, v2, widened),
            _ => e == o,
        }
    }
    let mut widened = false;
    if eq(exp, obs, &mut widened) {
        Ok(if widened {
            Some("fsl-child-field-nullable-widened".to_string())
        } else {
            None
        })
    } else {
        Err(())
    }
}

/// `/repo/rust/<file>:<line>` of the first in-repo frame / location mentioned by an error text
pub fn err_site(msg: &str) -> String {
    if let Some(p) = msg.find("/repo/rust/") {
        let rest = &msg[p + "/repo/rust/".len()..];
        let end = rest
            .find(|c: char| !(c.is_alphanumeric() || "/_-.:".contains(c)))
            .unwrap_or(rest.len());
        let site = &rest[..end];
        // drop a trailing column number (file.rs:12:34 -> file.rs:12)
        let parts: Vec<&str> = site.split(':').collect();
        if parts.len() >= 2 {
            return format!("{}:{}", parts[0], parts[1]);
        }
        return site.to_string();
    }
    "nosite".into()
}

/// The deciding oracle: pure function of (model, observation).
pub fn oracle(
    model: &[(i64, Row)],
    exp_schema: &Schema,
    obs: &Obs,
    ver: Ver,
    norms: &mut Vec<&'static str>,
    type_norms: &mut Vec<String>,
) -> Vec<Finding> {
    let mut out = vec![];
    let ncols = exp_schema.fields().len();
    // ---- count_rows
    if obs.count != model.len() {
        out.push(Finding {
            sig: "count-rows-differs-from-model".into(),
            what: format!("count_rows(None)={} but {} rows were written", obs.count, model.len()),
            detail: json!({"count_rows": obs.count, "model": model.len()}),
        });
    }
    // ---- schema: names, order, nullability, data types
    let check_schema = |s: &Schema, which: &str, out: &mut Vec<Finding>, type_norms: &mut Vec<String>| {
        if s.fields().len() != ncols {
            out.push(Finding {
                sig: format!("{which}-schema-column-count"),
                what: format!("{which} schema has {} columns, written {}", s.fields().len(), ncols),
                detail: json!({"observed": format!("{s:?}")}),
            });
            return;
        }
        for (e, o) in exp_schema.fields().iter().zip(s.fields()) {
            if e.name() != o.name() {
                out.push(Finding {
                    sig: format!("{which}-schema-column-name"),
                    what: format!("column {} came back as {}", e.name(), o.name()),
                    detail: json!({}),
                });
            }
            match type_equiv(e.data_type(), o.data_type()) {
                Ok(None) => {}
                Ok(Some(t)) => type_norms.push(t),
                Err(()) => out.push(Finding {
                    sig: format!(
                        "{which}-type-changed-{}-to-{}",
                        type_tag(e.data_type()),
                        type_tag(o.data_type())
                    ),
                    what: format!(
                        "column {} written as {:?} reads as {:?}",
                        e.name(),
                        e.data_type(),
                        o.data_type()
                    ),
                    detail: json!({}),
                }),
            }
            if e.is_nullable() != o.is_nullable() {
                out.push(Finding {
                    sig: format!("{which}-nullability-changed"),
                    what: format!(
                        "column {} nullable={} reads as nullable={}",
                        e.name(),
                        e.is_nullable(),
                        o.is_nullable()
                    ),
                    detail: json!({}),
                });
            }
        }
    };
    check_schema(&obs.dataset_schema, "dataset", &mut out, type_norms);
    if let Some(s) = &obs.scan_schema {
        check_schema(s, "scan", &mut out, type_norms);
    }
    if !out.is_empty() && out.iter().any(|f| f.sig.contains("schema-column")) {
        return out;
    }
    let idpos = obs.names.iter().position(|n| n == "id").unwrap_or(0);
    // ---- full scan == model as a multiset keyed by id
    let mut by_id: BTreeMap<i64, &Row> = BTreeMap::new();
    for r in &obs.unordered {
        let Some(id) = r.get(idpos).and_then(|c| c.as_i64()) else {
            out.push(Finding {
                sig: "scan-row-without-id".into(),
                what: "a scanned row has a NULL / non-integer id".into(),
                detail: json!({"row": render_row(r)}),
            });
            continue;
        };
        if by_id.insert(id, r).is_some() {
            out.push(Finding {
                sig: "scan-duplicate-row".into(),
                what: format!("id {id} returned twice by a full scan"),
                detail: json!({"id": id}),
            });
        }
    }
    let mut missing = vec![];
    let mut cell_diffs = 0usize;
    for (id, exp) in model {
        match by_id.remove(id) {
            None => missing.push(*id),
            Some(o) => {
                if let Some(col) = row_equiv(exp, o, ver, norms) {
                    cell_diffs += 1;
                    if cell_diffs == 1 {
                        let ty = if col < ncols {
                            kind_tag(exp_schema.field(col).data_type())
                        } else {
                            "?".into()
                        };
                        out.push(Finding {
                            sig: format!("scan-cell-differs-{ty}"),
                            what: format!(
                                "id {id}: column {} ({}) differs from what was written",
                                col,
                                if col < ncols { type_tag(exp_schema.field(col).data_type()) } else { "?".into() }
                            ),
                            detail: json!({"id": id, "col": col, "written": render_row(exp), "read": render_row(o)}),
                        });
                    }
                }
            }
        }
    }
    if !missing.is_empty() {
        out.push(Finding {
            sig: "scan-missing-rows".into(),
            what: format!("{} written rows are not returned by a full scan", missing.len()),
            detail: json!({"ids": missing.iter().take(20).collect::<Vec<_>>()}),
        });
    }
    if !by_id.is_empty() {
        out.push(Finding {
            sig: "scan-extra-rows".into(),
            what: format!("{} rows returned that were never written (or were overwritten)", by_id.len()),
            detail: json!({"ids": by_id.keys().take(20).collect::<Vec<_>>()}),
        });
    }
    // ---- ordered scan == insertion order
    let ord_ids: Vec<Option<i64>> = obs
        .ordered
        .iter()
        .map(|r| r.get(idpos).and_then(|c| c.as_i64()))
        .collect();
    let exp_ids: Vec<Option<i64>> = model.iter().map(|(i, _)| Some(*i)).collect();
    if ord_ids != exp_ids {
        let first = ord_ids
            .iter()
            .zip(&exp_ids)
            .position(|(a, b)| a != b)
            .unwrap_or(ord_ids.len().min(exp_ids.len()));
        let same_set = {
            let mut a = ord_ids.clone();
            let mut b = exp_ids.clone();
            a.sort();
            b.sort();
            a == b
        };
        out.push(Finding {
            sig: if same_set {
                "ordered-scan-not-in-insertion-order".into()
            } else {
                "ordered-scan-row-set-differs".into()
            },
            what: format!(
                "scan_in_order(true): position {first} has id {:?}, insertion order says {:?} ({} vs {} rows)",
                ord_ids.get(first),
                exp_ids.get(first),
                ord_ids.len(),
                exp_ids.len()
            ),
            detail: json!({"first_diff": first}),
        });
    } else {
        for ((id, exp), o) in model.iter().zip(&obs.ordered) {
            if let Some(col) = row_equiv(exp, o, ver, norms) {
                out.push(Finding {
                    sig: "ordered-scan-cell-differs".into(),
                    what: format!("ordered scan: id {id} column {col} differs from what was written"),
                    detail: json!({"id": id, "col": col, "written": render_row(exp), "read": render_row(o)}),
                });
                break;
            }
        }
    }
    out
}

#[derive(Clone, Debug)]
struct StepLog {
    kind: &'static str,
    rows: usize,
    batches: Vec<usize>,
    params: String,
    outcome: String,
    fragments: usize,
}

fn split_batches(rng: &mut Rng, n: usize) -> Vec<usize> {
    // random batch boundaries, with empty batches sprinkled in
    let mut sizes = vec![];
    let mut left = n;
    let style = rng.below(4);
    while left > 0 {
        let take = match style {
            0 => left,
            1 => rng.urange(1, left.min(7)),
            2 => rng.urange(1, left),
            _ => rng.urange(1, left.min(40)),
        };
        if rng.chance(1, 6) {
            sizes.push(0);
        }
        sizes.push(take);
        left -= take;
    }
    if sizes.is_empty() || rng.chance(1, 8) {
        sizes.push(0);
    }
    sizes
}

fn tune_params(rng: &mut Rng, p: &mut WriteParams, n: usize) -> String {
    let n1 = n.max(1);
    let mrf = *rng.pick(&[1usize, 2, 3, 7, n1 / 2 + 1, n1, n1 + 1, 1 << 20, 1 << 20]);
    let mrg = *rng.pick(&[1usize, 2, 5, 16, 64, 1024, 1024]);
    let mbf = *rng.pick(&[1usize, 64, 1000, 4096, 1 << 20, 90 << 30, 90 << 30]);
    p.max_rows_per_file = mrf;
    p.max_rows_per_group = mrg;
    p.max_bytes_per_file = mbf;
    format!("rows/file={mrf} rows/group={mrg} bytes/file={mbf}")
}

enum Place {
    Memory(Actor, String),
    Dir(tempfile::TempDir),
}

impl Place {
    fn uri(&self) -> String {
        match self {
            Place::Memory(_, u) => u.clone(),
            Place::Dir(d) => d.path().join("t.lance").to_string_lossy().to_string(),
        }
    }
    fn params(&self, mode: WriteMode) -> WriteParams {
        match self {
            Place::Memory(a, _) => a.write_params(mode),
            Place::Dir(_) => WriteParams {
                mode,
                ..Default::default()
            },
        }
    }
    async fn open(&self) -> lance::Result<Dataset> {
        match self {
            Place::Memory(a, u) => a.fresh_session().open(u).await,
            Place::Dir(_) => Dataset::open(&self.uri()).await,
        }
    }
}

async fn observe(ds: &Dataset, rng: &mut Rng) -> lance::Result<Obs> {
    let count = ds.count_rows(None).await?;
    let mut s = ds.scan();
    if rng.chance(1, 2) {
        s.batch_size(*rng.pick(&[1usize, 3, 16, 100, 8192]));
    }
    let un: Vec<RecordBatch> = s.try_into_stream().await?.try_collect().await?;
    let mut s = ds.scan();
    s.scan_in_order(true);
    if rng.chance(1, 2) {
        s.batch_size(*rng.pick(&[1usize, 2, 7, 50, 1024]));
    }
    if rng.chance(1, 3) {
        s.fragment_readahead(*rng.pick(&[1usize, 2, 8]));
    }
    if rng.chance(1, 3) {
        s.batch_readahead(*rng.pick(&[1usize, 4]));
    }
    let ord: Vec<RecordBatch> = s.try_into_stream().await?.try_collect().await?;
    let scan_schema = un.first().map(|b| b.schema());
    let dataset_schema: Schema = ds.schema().into();
    let names = dataset_schema
        .fields()
        .iter()
        .map(|f| f.name().clone())
        .collect();
    Ok(Obs {
        count,
        names,
        unordered: un.iter().flat_map(batch_to_rows).collect(),
        ordered: ord.iter().flat_map(batch_to_rows).collect(),
        dataset_schema,
        scan_schema,
    })
}

/// strip field metadata so that schema comparison is about names / types / nullability only
fn strip_meta(s: &Schema) -> Schema {
    fn f(field: &arrow_schema::Field) -> arrow_schema::Field {
        let dt = match field.data_type() {
            DataType::List(c) => DataType::List(Arc::new(f(c))),
            DataType::LargeList(c) => DataType::LargeList(Arc::new(f(c))),
            DataType::FixedSizeList(c, k) => DataType::FixedSizeList(Arc::new(f(c)), *k),
            DataType::Struct(cs) => DataType::Struct(cs.iter().map(|c| Arc::new(f(c))).collect()),
            other => other.clone(),
        };
        arrow_schema::Field::new(field.name(), dt, field.is_nullable())
    }
    Schema::new(s.fields().iter().map(|x| f(x)).collect::<Vec<_>>())
}


static SHRINK_N: std::sync::atomic::AtomicU64 = std::sync::atomic::AtomicU64::new(0);

/// Write `batches` as a fresh table (default parameters) and read it back through the same
/// oracle. None = round trip fine (or the write was refused), Some(description) = it fails.
async fn roundtrip_failure(batches: &[RecordBatch], ver: Ver, rng: &mut Rng) -> Option<String> {
    roundtrip_failure_with(batches, ver, rng, None).await
}

async fn roundtrip_failure_with(
    batches: &[RecordBatch],
    ver: Ver,
    rng: &mut Rng,
    rows_per_file: Option<usize>,
) -> Option<String> {
    let schema = batches.first()?.schema();
    let n = SHRINK_N.fetch_add(1, std::sync::atomic::Ordering::SeqCst);
    let uri = format!("memory://c11-shrink-{n}");
    let mut params = WriteParams {
        data_storage_version: Some(ver.lance()),
        ..Default::default()
    };
    if let Some(k) = rows_per_file {
        params.max_rows_per_file = k;
    }
    let reader = RecordBatchIterator::new(batches.to_vec().into_iter().map(Ok), schema.clone());
    let ds = guard(Dataset::write(reader, uri.as_str(), Some(params))).await.ok()?;
    let model: Vec<(i64, Row)> = batches
        .iter()
        .flat_map(|b| batch_to_rows(b).into_iter().map(|r| (r[0].as_i64().unwrap(), r)))
        .collect();
    match guard(observe(&ds, rng)).await {
        Err(e) => Some(format!("read-failed {} at {}", e.class(), err_site(&e.msg()))),
        Ok(mut obs) => {
            obs.dataset_schema = strip_meta(&obs.dataset_schema);
            obs.scan_schema = obs.scan_schema.map(|s| Arc::new(strip_meta(&s)));
            let (mut a, mut b) = (vec![], vec![]);
            let f = oracle(&model, &strip_meta(&schema), &obs, ver, &mut a, &mut b);
            f.first().map(|f| f.sig.clone())
        }
    }
}

/// Delta-debug a failing table: single culprit column, single batch, minimal rows.
async fn shrink(batches: &[RecordBatch], ver: Ver, rng: &mut Rng) -> (Value, Option<String>) {
    let mut batches: Vec<RecordBatch> = batches.iter().filter(|b| b.num_rows() > 0).cloned().collect();
    if batches.is_empty() {
        return (json!({"reproducible_as_single_create_with_default_params": false, "note": "empty table"}), None);
    }
    let mut full = roundtrip_failure(&batches, ver, rng).await;
    let mut how = "all batches, default parameters".to_string();
    if full.is_none() {
        // the failure may need a particular page / file content: try each written batch alone,
        // then the whole table split into small files (a failing file is then isolated by
        // slicing the concatenated table the same way)
        for (i, b) in batches.clone().iter().enumerate() {
            if let Some(f) = roundtrip_failure(&[b.clone()], ver, rng).await {
                full = Some(f);
                how = format!("written batch #{i} alone");
                batches = vec![b.clone()];
                break;
            }
        }
    }
    if full.is_none() {
        if let Ok(one) = arrow_select::concat::concat_batches(&batches[0].schema(), batches.iter()) {
            'outer: for k in [1usize, 2, 3, 5, 7, 16] {
                if roundtrip_failure_with(&[one.clone()], ver, rng, Some(k)).await.is_some() {
                    let mut at = 0;
                    while at < one.num_rows() {
                        let piece = one.slice(at, k.min(one.num_rows() - at));
                        if let Some(f) = roundtrip_failure(&[piece.clone()], ver, rng).await {
                            full = Some(f);
                            how = format!("rows {at}..{} of the table as one file", at + piece.num_rows());
                            batches = vec![piece];
                            break 'outer;
                        }
                        at += k;
                    }
                }
            }
        }
    }
    let Some(full) = full else {
        return (json!({"reproducible_as_single_create_with_default_params": false}), None);
    };
    let batches = &batches[..];
    let schema = batches[0].schema();
    let mut cur: Vec<RecordBatch> = batches.to_vec();
    let mut culprits = vec![];
    for j in 1..schema.fields().len() {
        let proj: Vec<RecordBatch> = batches.iter().map(|b| b.project(&[0, j]).unwrap()).collect();
        if let Some(why) = roundtrip_failure(&proj, ver, rng).await {
            culprits.push(json!({"column": schema.field(j).name(), "type": type_tag(schema.field(j).data_type()), "fails": why}));
            if culprits.len() == 1 {
                cur = proj;
            }
        }
    }
    let mut single = false;
    if let Ok(one) = arrow_select::concat::concat_batches(&cur[0].schema(), cur.iter()) {
        if roundtrip_failure(&[one.clone()], ver, rng).await.is_some() {
            cur = vec![one];
            single = true;
        }
    }
    if single {
        // ddmin over rows
        let mut b = cur[0].clone();
        let mut chunk = (b.num_rows() / 2).max(1);
        while b.num_rows() > 1 {
            let mut progressed = false;
            let mut start = 0;
            while start < b.num_rows() && b.num_rows() > 1 {
                let keep: Vec<u32> = (0..b.num_rows() as u32)
                    .filter(|i| (*i as usize) < start || (*i as usize) >= start + chunk)
                    .collect();
                if keep.is_empty() {
                    start += chunk;
                    continue;
                }
                let idx = arrow_array::UInt32Array::from(keep);
                let cand = arrow_select::take::take_record_batch(&b, &idx).unwrap();
                if roundtrip_failure(&[cand.clone()], ver, rng).await.is_some() {
                    b = cand;
                    progressed = true;
                } else {
                    start += chunk;
                }
            }
            if chunk == 1 && !progressed {
                break;
            }
            chunk = (chunk / 2).max(1);
        }
        cur = vec![b];
    }
    let why = roundtrip_failure(&cur, ver, rng).await;
    if std::env::var("C11_DUMP").is_ok() {
        for b in &cur {
            for c in b.columns() {
                let d = c.to_data();
                println!(
                    "SHRUNK column {:?} len={} offset={} nulls={:?} buffers={:?} children={:?}",
                    c.data_type(),
                    d.len(),
                    d.offset(),
                    d.nulls().map(|n| (n.len(), n.offset(), n.null_count())),
                    d.buffers().iter().map(|b| b.len()).collect::<Vec<_>>(),
                    d.child_data().iter().map(|c| (c.len(), c.offset(), c.null_count())).collect::<Vec<_>>()
                );
                if let Some(l) = c.as_any().downcast_ref::<arrow_array::ListArray>() {
                    println!("   list offsets {:?} values.len={} values={:?}", l.value_offsets(), l.values().len(), l.values());
                }
            }
        }
        // which read shape fails?
        let schema = cur[0].schema();
        let reader = RecordBatchIterator::new(cur.clone().into_iter().map(Ok), schema);
        let n = SHRINK_N.fetch_add(1, std::sync::atomic::Ordering::SeqCst);
        let p = WriteParams { data_storage_version: Some(ver.lance()), ..Default::default() };
        if let Ok(ds) = guard(Dataset::write(reader, format!("memory://c11-dump-{n}").as_str(), Some(p))).await {
            for bs in [None, Some(1usize), Some(2), Some(3), Some(16), Some(100), Some(8192)] {
                for ordered in [false, true] {
                    let r = guard(async {
                        let mut s = ds.scan();
                        if let Some(b) = bs {
                            s.batch_size(b);
                        }
                        s.scan_in_order(ordered);
                        let v: Vec<RecordBatch> = s.try_into_stream().await?.try_collect().await?;
                        Ok(v.iter().map(|b| b.num_rows()).sum::<usize>())
                    })
                    .await;
                    println!("SHRUNK read batch_size={bs:?} ordered={ordered}: {:?}", r.map_err(|e| e.brief().chars().take(160).collect::<String>()));
                }
            }
            println!("SHRUNK count_rows: {:?}", guard(ds.count_rows(None)).await.map_err(|e| e.brief()));
        }
    }
    let rows: Vec<String> = cur
        .iter()
        .flat_map(batch_to_rows)
        .take(12)
        .map(|r| render_row(&r))
        .collect();
    // narrow class of the minimal failing input: the data feature it exhibits, else its type
    let feats = data_features(&cur);
    let class = if !feats.is_empty() {
        // most specific feature first (see data_features)
        feats[0].to_string()
    } else {
        cur[0]
            .schema()
            .fields()
            .iter()
            .skip(1)
            .map(|f| type_tag(f.data_type()))
            .collect::<Vec<_>>()
            .join("+")
    };
    (json!({
        "reproducible_as_single_create_with_default_params": true,
        "class_of_minimal_input": class,
        "reproduced_with": how,
        "failure_of_full_table": full,
        "culprit_columns": culprits,
        "shrunk_schema": format!("{:?}", cur[0].schema().fields().iter().map(|f| format!("{}:{}{}", f.name(), type_tag(f.data_type()), if f.is_nullable() {"?"} else {""})).collect::<Vec<_>>()),
        "shrunk_batch_sizes": cur.iter().map(|b| b.num_rows()).collect::<Vec<_>>(),
        "shrunk_rows": rows,
        "shrunk_failure": why,
    }), Some(class))
}

/// Oracle-computed features of the written Arrow data that known defect classes depend on
/// (computed on the raw arrays, so that ranges hidden behind a null list are seen too).
fn data_features(batches: &[RecordBatch]) -> Vec<&'static str> {
    use arrow_array::cast::AsArray;
    use arrow_array::Array;
    #[derive(Default)]
    struct F {
        list_first_item_null: bool,
        fsl_all_items_null: bool,
        hidden_null_items: bool,
    }
    /// some child slot that no *valid* list refers to (garbage behind a NULL list, or values the
    /// offsets never reference, e.g. after `RecordBatch::slice`) is NULL
    fn hidden_nulls<O: arrow_array::OffsetSizeTrait>(l: &arrow_array::GenericListArray<O>) -> bool {
        fn has_null(c: &Cell) -> bool {
            match c {
                Cell::Null => true,
                Cell::List(v) => v.iter().any(has_null),
                Cell::Struct(v) => v.iter().any(|(_, x)| has_null(x)),
                _ => false,
            }
        }
        let child = l.values();
        let mut visible = vec![false; child.len()];
        let o = l.value_offsets();
        for i in 0..l.len() {
            if l.is_valid(i) {
                for p in o[i].as_usize()..o[i + 1].as_usize() {
                    visible[p] = true;
                }
            }
        }
        (0..child.len()).any(|p| !visible[p] && has_null(&vmon::table::cell_at(child.as_ref(), p)))
    }
    fn walk(a: &dyn Array, f: &mut F) {
        match a.data_type() {
            DataType::List(_) => {
                let l = a.as_list::<i32>();
                if hidden_nulls(l) {
                    f.hidden_null_items = true;
                }
                let o = l.value_offsets();
                for i in 0..l.len() {
                    if o[i + 1] > o[i] && l.values().is_null(o[i] as usize) {
                        f.list_first_item_null = true;
                    }
                }
                walk(l.values().as_ref(), f);
            }
            DataType::LargeList(_) => {
                let l = a.as_list::<i64>();
                if hidden_nulls(l) {
                    f.hidden_null_items = true;
                }
                let o = l.value_offsets();
                for i in 0..l.len() {
                    if o[i + 1] > o[i] && l.values().is_null(o[i] as usize) {
                        f.list_first_item_null = true;
                    }
                }
                walk(l.values().as_ref(), f);
            }
            DataType::FixedSizeList(_, _) => {
                let l = a.as_fixed_size_list();
                if l.values().len() > 0 && l.values().null_count() == l.values().len() {
                    f.fsl_all_items_null = true;
                }
                walk(l.values().as_ref(), f);
            }
            DataType::Struct(_) => {
                for c in a.as_struct().columns() {
                    walk(c.as_ref(), f);
                }
            }
            _ => {}
        }
    }
    /// number of leaf slots visible through valid lists (a NULL leaf item counts, a NULL / empty
    /// list contributes nothing); None if the type holds no variable-size list
    fn visible_leaves(dt: &DataType, c: &Cell) -> Option<usize> {
        match dt {
            DataType::List(f) | DataType::LargeList(f) => Some(match c {
                Cell::List(v) => v
                    .iter()
                    .map(|x| visible_leaves(f.data_type(), x).unwrap_or(1))
                    .sum(),
                _ => 0,
            }),
            DataType::Struct(fs) => {
                let mut total = None;
                for (i, fld) in fs.iter().enumerate() {
                    let child = match c {
                        Cell::Struct(v) => v.get(i).map(|x| x.1.clone()).unwrap_or(Cell::Null),
                        _ => Cell::Null,
                    };
                    if let Some(n) = visible_leaves(fld.data_type(), &child) {
                        total = Some(total.unwrap_or(0) + n);
                    }
                }
                total
            }
            _ => None,
        }
    }
    let mut f = F::default();
    /// some list-typed field path (every leaf column is its own page) has rows but no visible
    /// leaf item
    fn zero_item_path(dt: &DataType, cells: &[Cell]) -> bool {
        match dt {
            DataType::List(_) | DataType::LargeList(_) => {
                let total: usize = cells.iter().map(|c| visible_leaves(dt, c).unwrap_or(0)).sum();
                !cells.is_empty() && total == 0
            }
            DataType::Struct(fs) => fs.iter().enumerate().any(|(i, fld)| {
                let child: Vec<Cell> = cells
                    .iter()
                    .map(|c| match c {
                        Cell::Struct(v) => v.get(i).map(|x| x.1.clone()).unwrap_or(Cell::Null),
                        _ => Cell::Null,
                    })
                    .collect();
                zero_item_path(fld.data_type(), &child)
            }),
            _ => false,
        }
    }
    /// some FixedSizeList path whose visible items are all NULL (and there is at least one)
    fn fsl_all_null_path(dt: &DataType, cells: &[Cell]) -> bool {
        match dt {
            DataType::FixedSizeList(f, _) => {
                let items: Vec<Cell> = cells
                    .iter()
                    .flat_map(|c| match c {
                        Cell::List(v) => v.clone(),
                        _ => vec![],
                    })
                    .collect();
                if matches!(f.data_type(), DataType::FixedSizeList(_, _)) {
                    return fsl_all_null_path(f.data_type(), &items);
                }
                !items.is_empty() && items.iter().all(|x| x.is_null())
            }
            DataType::List(f) | DataType::LargeList(f) => {
                let items: Vec<Cell> = cells
                    .iter()
                    .flat_map(|c| match c {
                        Cell::List(v) => v.clone(),
                        _ => vec![],
                    })
                    .collect();
                fsl_all_null_path(f.data_type(), &items)
            }
            DataType::Struct(fs) => fs.iter().enumerate().any(|(i, fld)| {
                let child: Vec<Cell> = cells
                    .iter()
                    .map(|c| match c {
                        Cell::Struct(v) => v.get(i).map(|x| x.1.clone()).unwrap_or(Cell::Null),
                        _ => Cell::Null,
                    })
                    .collect();
                fsl_all_null_path(fld.data_type(), &child)
            }),
            _ => false,
        }
    }
    let mut zero_item_list_column = false;
    let mut fsl_visible_all_null = false;
    if let Some(b0) = batches.first() {
        for (j, fld) in b0.schema().fields().iter().enumerate() {
            let cells: Vec<Cell> = batches
                .iter()
                .flat_map(|b| (0..b.num_rows()).map(move |i| vmon::table::cell_at(b.column(j).as_ref(), i)))
                .collect();
            if zero_item_path(fld.data_type(), &cells) {
                zero_item_list_column = true;
            }
            if fsl_all_null_path(fld.data_type(), &cells) {
                fsl_visible_all_null = true;
            }
        }
    }
    for b in batches {
        for c in b.columns() {
            walk(c.as_ref(), &mut f);
        }
    }
    if zero_item_list_column {
        // dominant class: e_codec's C27 "zero-item page" (rows but no visible leaf item)
        return vec!["list-column-without-visible-leaf-items"];
    }
    let mut out = vec![];
    if f.fsl_all_items_null || fsl_visible_all_null {
        out.push("fsl-batch-with-all-items-null");
    }
    if f.list_first_item_null {
        out.push("list-starting-with-null-item");
    }
    if f.hidden_null_items {
        out.push("null-items-hidden-behind-null-list");
    }
    out
}

struct Ctx<'a> {
    report: &'a Report,
    types: &'a Histo,
    ops: &'a Histo,
    norm_h: &'a Histo,
    rejects: &'a Histo,
    diag: &'a Histo,
}

/// corrupt an observation (selftest): returns a description
fn corrupt(obs: &mut Obs, rng: &mut Rng) -> Option<&'static str> {
    if obs.unordered.is_empty() {
        obs.count += 1;
        return Some("count+1");
    }
    match rng.below(5) {
        0 => {
            let i = rng.usize_below(obs.unordered.len());
            obs.unordered.remove(i);
            Some("drop-row-unordered")
        }
        1 => {
            if obs.ordered.len() < 2 {
                obs.count += 1;
                return Some("count+1");
            }
            let i = rng.usize_below(obs.ordered.len() - 1);
            obs.ordered.swap(i, i + 1);
            Some("swap-ordered")
        }
        2 => {
            let i = rng.usize_below(obs.unordered.len());
            let r = obs.unordered[i].clone();
            obs.unordered.push(r);
            Some("dup-row")
        }
        3 => {
            // flip a cell of a non-id column to something else
            let i = rng.usize_below(obs.unordered.len());
            if obs.unordered[i].len() < 2 {
                obs.count += 1;
                return Some("count+1");
            }
            let c = 1 + rng.usize_below(obs.unordered[i].len() - 1);
            obs.unordered[i][c] = match &obs.unordered[i][c] {
                Cell::Null => Cell::Int(0),
                _ => Cell::Null,
            };
            // avoid the documented struct normalisation swallowing the flip
            if let Cell::Null = obs.unordered[i][c] {
                obs.unordered[i][c] = Cell::Other("corrupted".into());
            }
            Some("flip-cell")
        }
        _ => {
            obs.count = obs.count.wrapping_sub(1);
            Some("count-1")
        }
    }
}

async fn run_case(cx: &Ctx<'_>, seed: u64, idx: u64, selftest: bool) -> (u64, u64) {
    // returns (selftest corruptions applied, detected)
    let mut rng = Rng::for_case(seed, idx);
    let ver = *rng.pick_weighted(&[(1, Ver::Legacy), (4, Ver::V2_0), (4, Ver::V2_1), (2, Ver::V2_2)]);
    let ncols = rng.urange(1, 5);
    let mut spec = if rng.chance(1, 4) {
        XSpec::from_colty(&mut rng, ncols)
    } else {
        let depth = rng.below(3) as u32;
        XSpec::random(&mut rng, ncols, depth)
    };
    if ver == Ver::Legacy {
        // legacy: no null support, one dictionary per file (documented limits) -> keep the
        // generator inside what the format can represent
        spec = XSpec::legacy(&mut rng, ncols);
    }
    let world = World::memory();
    let place = if rng.chance(1, 6) {
        match tempfile::Builder::new().prefix("e_rows-c11-").tempdir_in("/tmp") {
            Ok(d) => Place::Dir(d),
            Err(e) => {
                cx.report.harness_error(&format!("tempdir: {e}"));
                return (0, 0);
            }
        }
    } else {
        Place::Memory(Actor::new(world.new_actor(0)), format!("memory://c11-{seed}-{idx}"))
    };
    let uri = place.uri();
    let stable = rng.chance(1, 3);
    let v2_paths = rng.bool();
    let mut ids = IdAlloc::new((idx % 1000) as usize + 1);
    let mut model: Vec<(i64, Row)> = vec![];
    let mut table_batches: Vec<RecordBatch> = vec![];
    let mut ds: Option<Dataset> = None;
    let nsteps = rng.urange(2, 6);
    let mut steps: Vec<StepLog> = vec![];
    let mut accepted = 0usize;
    let mut rows_compared = 0u64;
    let mut cells_compared = 0u64;
    let mut max_frags = 0usize;
    let mut multi_batch = false;
    let mut applied = 0u64;
    let mut detected = 0u64;

    for step in 0..nsteps {
        let kind: &'static str = if ds.is_none() {
            "create"
        } else if rng.chance(1, 4) {
            "overwrite"
        } else {
            "append"
        };
        let mut step_spec = spec.clone();
        if kind == "overwrite" && rng.chance(1, 2) {
            let ncols = rng.urange(1, 5);
            let depth = rng.below(3) as u32;
            step_spec = XSpec::random(&mut rng, ncols, depth);
            if ver == Ver::Legacy {
                step_spec = XSpec::legacy(&mut rng, ncols);
            }
        }
        let n = *rng.pick_weighted(&[(1, 0usize), (2, 1), (3, 5), (4, 33), (4, 100), (2, 257)]);
        let n = if n > 5 { rng.urange(n / 2, n) } else { n };
        let sizes = split_batches(&mut rng, n);
        let schema = step_spec.schema();
        let mut batches = vec![];
        for sz in &sizes {
            let idv = ids.take(*sz);
            batches.push(step_spec.batch(&mut rng, &idv));
        }
        if rng.chance(1, 10) {
            // a stream of zero batches is legal too
            if n == 0 {
                batches.clear();
            }
        }
        let new_rows: Vec<(i64, Row)> = batches
            .iter()
            .flat_map(|b| {
                let rows = batch_to_rows(b);
                rows.into_iter().map(|r| (r[0].as_i64().unwrap(), r))
            })
            .collect();
        let mode = match kind {
            "create" => WriteMode::Create,
            "append" => WriteMode::Append,
            _ => WriteMode::Overwrite,
        };
        let mut params = place.params(mode);
        let mut pdesc = tune_params(&mut rng, &mut params, n);
        let mut step_ver = ver;
        match kind {
            "create" => {
                params.data_storage_version = Some(ver.lance());
                params.enable_stable_row_ids = stable;
                params.enable_v2_manifest_paths = v2_paths;
            }
            "overwrite" => {
                if ver != Ver::Legacy && rng.chance(1, 3) {
                    step_ver = *rng.pick(&[Ver::V2_0, Ver::V2_1, Ver::V2_2]);
                    params.data_storage_version = Some(step_ver.lance());
                    pdesc.push_str(&format!(" version->{}", step_ver.name()));
                }
            }
            _ => {
                if rng.chance(1, 4) {
                    params.data_storage_version = Some(ver.lance());
                }
            }
        }
        if std::env::var("C11_DUMP").is_ok() {
            println!("--- step {step} {kind} {pdesc} ver={} schema={}", step_ver.name(), step_spec.describe());
            for b in &batches {
                println!("{}", arrow::util::pretty::pretty_format_batches(&[b.clone()]).unwrap());
            }
        }
        let reader = RecordBatchIterator::new(batches.clone().into_iter().map(Ok), schema.clone());
        let via_handle = kind == "append" && rng.bool();
        let res: Result<Dataset, Fail> = if via_handle {
            let mut d = ds.clone().unwrap();
            guard(async {
                d.append(reader, Some(params)).await?;
                Ok(d)
            })
            .await
        } else {
            guard(Dataset::write(reader, uri.as_str(), Some(params))).await
        };
        cx.ops.add(kind, 1);
        let mut log = StepLog {
            kind,
            rows: n,
            batches: sizes.clone(),
            params: pdesc,
            outcome: String::new(),
            fragments: 0,
        };
        match res {
            Err(f) => {
                log.outcome = f.brief();
                let key = format!(
                    "{}:{}:{}",
                    kind,
                    f.class(),
                    f.msg().chars().take(90).collect::<String>()
                );
                if f.is_clean_rejection() {
                    cx.report.rejected();
                    cx.rejects.add(&key, 1);
                } else {
                    // the writer did not accept the input but not with a documented rejection:
                    // counted diagnostic (C11 quantifies over accepted inputs)
                    cx.diag.add(&format!("write-failed:{key}"), 1);
                }
                // no observable effect: the table must still equal the model
                if ds.is_some() {
                    match guard(place.open()).await {
                        Ok(d) => ds = Some(d),
                        Err(e) => {
                            cx.report.violation(
                                "table-unreadable-after-rejected-write",
                                "after a rejected/failed write the table cannot be opened",
                                json!({"seed": seed, "case": idx, "step": step, "error": e.brief(), "write_error": f.brief(),
                                       "schema": step_spec.describe()}),
                            );
                            steps.push(log);
                            break;
                        }
                    }
                } else {
                    steps.push(log);
                    // creation rejected: try again with the ColTy pool so the case is not wasted
                    if step + 1 < nsteps {
                        let ncols = rng.urange(1, 4);
                        spec = XSpec::from_colty(&mut rng, ncols);
                        if ver == Ver::Legacy {
                            spec = XSpec::legacy(&mut rng, ncols);
                        }
                    }
                    continue;
                }
            }
            Ok(d) => {
                accepted += 1;
                log.outcome = format!("ok v{}", d.version().version);
                log.fragments = d.count_fragments();
                match kind {
                    "overwrite" => {
                        model = new_rows;
                        spec = step_spec.clone();
                        table_batches = batches.clone();
                    }
                    _ => {
                        model.extend(new_rows);
                        table_batches.extend(batches.clone());
                    }
                }
                if kind == "create" || kind == "overwrite" {
                    for c in &spec.cols {
                        cx.types.add(&format!("{}:{}", step_ver.name(), kind_tag(&c.ty)), 1);
                    }
                }
                ds = Some(if rng.bool() {
                    d
                } else {
                    match guard(place.open()).await {
                        Ok(d2) => d2,
                        Err(e) => {
                            cx.report.violation(
                                "table-unreadable-after-accepted-write",
                                "an accepted write produced a table that cannot be opened",
                                json!({"seed": seed, "case": idx, "step": step, "error": e.brief(), "schema": spec.describe()}),
                            );
                            steps.push(log);
                            break;
                        }
                    }
                });
            }
        }
        let d = ds.as_ref().unwrap();
        // effective storage version of the table (overwrite may or may not switch it)
        let eff_ver = match d.manifest().data_storage_format.lance_file_version() {
            Ok(LanceFileVersion::Legacy) => Ver::Legacy,
            Ok(LanceFileVersion::V2_0) => Ver::V2_0,
            Ok(LanceFileVersion::V2_1) => Ver::V2_1,
            Ok(LanceFileVersion::V2_2) => Ver::V2_2,
            _ => ver,
        };
        max_frags = max_frags.max(d.count_fragments());
        multi_batch |= sizes.iter().filter(|s| **s > 0).count() >= 2;
        steps.push(log);
        // ---- observe and decide
        let exp_schema = strip_meta(&spec.schema());
        match guard(observe(d, &mut rng)).await {
            Err(e) => {
                let ty = spec
                    .cols
                    .iter()
                    .map(|c| kind_tag(&c.ty))
                    .collect::<Vec<_>>()
                    .join("+");
                let (shrunk, class) = shrink(&table_batches, eff_ver, &mut rng).await;
                let feats = data_features(&table_batches);
                let sig = match class {
                    Some(c) => format!("accepted-write-unreadable:{c}:{}", eff_ver.name()),
                    // not reproducible outside the original file layout: the panic text of
                    // repdef.rs:1254 identifies the item-less page class
                    None if e.msg().contains("Expected repetition level but data didn't contain repetition")
                        || feats.contains(&"list-column-without-visible-leaf-items") =>
                    {
                        format!("accepted-write-unreadable:list-column-without-visible-leaf-items:{}", eff_ver.name())
                    }
                    None => format!(
                        "accepted-write-unreadable:unshrunk:{}:{}:{}",
                        e.class(),
                        err_site(&e.msg()),
                        eff_ver.name()
                    ),
                };
                cx.report.violation(
                    &sig,
                    "an accepted write cannot be read back (scan / count_rows error or panic)",
                    json!({"seed": seed, "case": idx, "step": step, "error": e.brief(), "schema": spec.describe(),
                           "types": ty, "version": eff_ver.name(), "uri": uri, "data_features": feats,
                           "steps": steps.iter().map(|s| format!("{s:?}")).collect::<Vec<_>>(), "shrunk": shrunk }),
                );
                break;
            }
            Ok(mut obs) => {
                obs.dataset_schema = strip_meta(&obs.dataset_schema);
                obs.scan_schema = obs.scan_schema.map(|s| Arc::new(strip_meta(&s)));
                if selftest {
                    let mut crng = Rng::for_case(seed ^ 0xC0FFEE, idx * 16 + step as u64);
                    if let Some(_what) = corrupt(&mut obs, &mut crng) {
                        applied += 1;
                        let mut n1 = vec![];
                        let mut n2 = vec![];
                        if !oracle(&model, &exp_schema, &obs, eff_ver, &mut n1, &mut n2).is_empty() {
                            detected += 1;
                        }
                    }
                    continue;
                }
                let mut norms = vec![];
                let mut tnorms = vec![];
                let findings = oracle(&model, &exp_schema, &obs, eff_ver, &mut norms, &mut tnorms);
                rows_compared += (obs.unordered.len() + obs.ordered.len()) as u64;
                cells_compared += ((obs.unordered.len() + obs.ordered.len()) * (spec.cols.len() + 1)) as u64;
                norms.sort();
                norms.dedup();
                for n in norms {
                    cx.norm_h.add(n, 1);
                }
                for n in tnorms {
                    cx.norm_h.add(&n, 1);
                }
                if !findings.is_empty() {
                    let (shrunk, class) = shrink(&table_batches, eff_ver, &mut rng).await;
                    for f in findings {
                        // a wrong cell whose minimal reproduction exhibits a known data feature is
                        // classified by that feature; everything else by the oracle's own signature
                        let sig = match (&class, f.sig.contains("cell-differs")) {
                            (Some(c), true) if c.contains("-") && !c.contains('<') => {
                                format!("accepted-write-reads-wrong-cell:{c}:{}", eff_ver.name())
                            }
                            _ => format!("{}-{}", f.sig, eff_ver.name()),
                        };
                        cx.report.violation(
                            &sig,
                            &f.what,
                            json!({"seed": seed, "case": idx, "step": step, "schema": spec.describe(),
                                   "version": eff_ver.name(), "stable_row_ids": stable, "detail": f.detail,
                                   "steps": steps.iter().map(|s| format!("{s:?}")).collect::<Vec<_>>(), "shrunk": shrunk }),
                        );
                    }
                    break;
                }
            }
        }
    }
    if selftest {
        return (applied, detected);
    }
    cx.report.count("steps_accepted", accepted as u64);
    cx.report.count("rows_compared", rows_compared);
    cx.report.count("cells_compared", cells_compared);
    // non-trivial: at least one accepted write, >=1 row compared, and the table was physically
    // split (>=2 fragments) or written from >=2 non-empty batches
    let nontrivial = accepted >= 1 && rows_compared > 0 && (max_frags >= 2 || multi_batch);
    let sig = format!(
        "{}|{}|{}|{}",
        ver.name(),
        spec.describe(),
        steps.iter().map(|s| s.kind).collect::<Vec<_>>().join(","),
        max_frags
    );
    cx.report.case(if nontrivial { Some(fnv_str(&sig)) } else { None });
    if nontrivial && cx.report.want_sample() {
        cx.report.sample(json!({
            "case": idx, "version": ver.name(), "schema": spec.describe(), "stable_row_ids": stable,
            "steps": steps.iter().map(|s| format!("{} rows={} batches={:?} [{}] -> {} frags={}", s.kind, s.rows, s.batches, s.params, s.outcome, s.fragments)).collect::<Vec<_>>(),
            "rows_compared": rows_compared,
        }));
    }
    (0, 0)
}

pub fn run(args: &Args) -> i32 {
    install_quiet_panic_hook();
    let report = Report::new(
        args,
        "exploration",
        "One case = one seeded history create/(append|overwrite)* on a fresh table with a random Arrow schema \
         (recursive type generator: all primitive widths, f16, temporals, decimals 128/256, (large) utf8/binary, views, \
         fixed size binary, null, list/large list/FSL/struct/dictionary nested to depth 2), random batch splits incl. empty \
         batches, random max_rows_per_file / max_rows_per_group / max_bytes_per_file and storage version legacy/2.0/2.1/2.2; \
         after every accepted write count_rows, the full scan (multiset keyed by id, cell equality) and the ordered scan \
         (sequence) are compared with the model. Non-trivial = >=1 accepted write with rows compared and a table of >=2 \
         fragments or a write of >=2 non-empty batches; distinct by (version, schema, op kinds, fragment count).",
        (85, 900),
    )
    .with_min_nontrivial(args.tier.pick(50, 500));
    let types = Histo::default();
    let ops = Histo::default();
    let norm_h = Histo::default();
    let rejects = Histo::default();
    let diag = Histo::default();
    let cx = Ctx {
        report: &report,
        types: &types,
        ops: &ops,
        norm_h: &norm_h,
        rejects: &rejects,
        diag: &diag,
    };
    let selftest = selftest_requested(args);
    let max_cases = if selftest { 200 } else { args.tier.pick(1_500, 120_000) };
    let st = std::sync::Mutex::new((0u64, 0u64));
    let single: Option<u64> = args.extra.get("case").and_then(|s| s.parse().ok());
    if let Some(i) = single {
        let rt = tokio::runtime::Builder::new_current_thread().enable_all().build().unwrap();
        rt.block_on(run_case(&cx, args.seed, i, false));
    } else {
        run_parallel(&report, max_cases, 16, |i, rt| {
            let r = rt.block_on(run_case(&cx, args.seed, i, selftest));
            let mut g = st.lock().unwrap();
            g.0 += r.0;
            g.1 += r.1;
        });
    }
    if selftest {
        let g = st.lock().unwrap();
        println!("SELFTEST C11 corruptions_applied={} detected={}", g.0, g.1);
        return if g.0 > 0 && g.0 == g.1 { 0 } else { 2 };
    }
    report.set("schemas_by_version_and_kind", types.json());
    report.set("ops_by_kind", ops.json());
    report.set("normalisations_seen", norm_h.json());
    report.set("rejections", rejects.json());
    report.set("writer_failures_not_counted_as_violations", diag.json());
    report.assume("object_store InMemory / LocalFileSystem implement put/get faithfully");
    report.finish()
}
