//! C27 kernels: nested shapes -> `RepDefBuilder` -> `serialize` -> `RepDefUnraveler` -> nested shapes,
//! compared on the *logical* structure (whatever sits behind a null ancestor is ignored; empty and
//! null lists are different values). Also the control-word iterator / parser round trip.
//!
//! The driver mimics what the structural encoders / decoders of lance-encoding do with this API
//! (list.rs, struct.rs, primitive.rs): encoders add layers outer -> inner, filter garbage behind
//! null lists out of the children when `add_offsets` says so, push struct nulls down into the
//! children; decoders unravel inner -> outer.
//!
//! Dependency-light (std, lance-encoding, arrow-buffer, the seeded Rng) so /verif/san can include it.
#![allow(dead_code)]

use crate::prng::{fnv, Rng};
use arrow_buffer::{BooleanBuffer, NullBuffer, OffsetBuffer, ScalarBuffer};
use lance_encoding::repdef::{
    build_control_word_iterator, CompositeRepDefUnraveler, ControlWordParser, DefinitionInterpretation, RepDefBuilder,
    RepDefUnraveler,
};
use std::panic::{catch_unwind, AssertUnwindSafe};
use std::sync::Arc;

#[derive(Debug, Clone)]
pub struct Failure {
    pub sig: String,
    pub what: String,
    pub detail: String,
}

#[derive(Clone, Copy, Debug, PartialEq, Eq, Hash)]
pub enum Kind {
    List,
    Fsl,
    Struct,
}

impl Kind {
    pub fn ch(&self) -> char {
        match self {
            Kind::List => 'L',
            Kind::Fsl => 'F',
            Kind::Struct => 'S',
        }
    }
}

/// One layer of a (canonical, garbage-free) nested shape. Layer k describes the array at depth k;
/// `validity.len()` = number of elements of that array.
#[derive(Clone, Debug)]
pub struct Layer {
    pub kind: Kind,
    /// None = no validity buffer at all
    pub validity: Option<Vec<bool>>,
    /// List: canonical lengths (null lists have length 0); Fsl: unused; Struct: unused
    pub lens: Vec<usize>,
    pub dim: usize,
    pub large: bool,
    /// number of elements
    pub n: usize,
}

#[derive(Clone, Debug)]
pub struct Shape {
    pub layers: Vec<Layer>,
    pub leaf_validity: Option<Vec<bool>>,
    pub leaf_n: usize,
}

impl Shape {
    pub fn kinds(&self) -> String {
        let mut s: String = self.layers.iter().map(|l| l.kind.ch()).collect();
        s.push('p');
        s
    }
}

/// logical value of one element
#[derive(Clone, Debug, PartialEq, Eq)]
pub enum Lv {
    Null,
    Item,
    List(Vec<Lv>),
    Fsl(Vec<Lv>),
    Struct(Box<Lv>),
}

fn render(v: &Lv, out: &mut String) {
    match v {
        Lv::Null => out.push('N'),
        Lv::Item => out.push('1'),
        Lv::List(c) => {
            out.push('[');
            c.iter().for_each(|x| render(x, out));
            out.push(']');
        }
        Lv::Fsl(c) => {
            out.push('<');
            c.iter().for_each(|x| render(x, out));
            out.push('>');
        }
        Lv::Struct(c) => {
            out.push('{');
            render(c, out);
            out.push('}');
        }
    }
}

pub fn render_rows(rows: &[Lv]) -> String {
    let mut s = String::new();
    for (i, r) in rows.iter().enumerate() {
        if i > 0 {
            s.push(' ');
        }
        render(r, &mut s);
    }
    s
}

/// what was decoded for one layer
#[derive(Clone, Debug)]
pub struct DecLayer {
    pub kind: Kind,
    pub validity: Option<Vec<bool>>,
    pub offsets: Vec<i64>,
    pub dim: usize,
}

fn logical_at(layers: &[(Kind, Option<&[bool]>, Option<&[i64]>, usize)], leaf: Option<&[bool]>, depth: usize, idx: usize) -> Result<Lv, String> {
    if depth == layers.len() {
        return match leaf {
            None => Ok(Lv::Item),
            Some(v) => v.get(idx).map(|b| if *b { Lv::Item } else { Lv::Null }).ok_or_else(|| format!("leaf index {idx} out of range {}", v.len())),
        };
    }
    let (kind, validity, offsets, dim) = &layers[depth];
    if let Some(v) = validity {
        match v.get(idx) {
            None => return Err(format!("depth {depth}: index {idx} out of validity range {}", v.len())),
            Some(false) => return Ok(Lv::Null),
            _ => {}
        }
    }
    match kind {
        Kind::Struct => Ok(Lv::Struct(Box::new(logical_at(layers, leaf, depth + 1, idx)?))),
        Kind::Fsl => {
            let mut c = vec![];
            for j in 0..*dim {
                c.push(logical_at(layers, leaf, depth + 1, idx * dim + j)?);
            }
            Ok(Lv::Fsl(c))
        }
        Kind::List => {
            let o = offsets.ok_or("missing offsets")?;
            if idx + 1 >= o.len() {
                return Err(format!("depth {depth}: list index {idx} out of offsets range {}", o.len()));
            }
            let (a, b) = (o[idx], o[idx + 1]);
            if a > b || a < 0 {
                return Err(format!("depth {depth}: offsets not monotone at {idx}: {a}..{b}"));
            }
            let mut c = vec![];
            for j in a..b {
                c.push(logical_at(layers, leaf, depth + 1, j as usize)?);
            }
            Ok(Lv::List(c))
        }
    }
}

pub fn shape_logical(s: &Shape) -> Vec<Lv> {
    let offs: Vec<Option<Vec<i64>>> = s
        .layers
        .iter()
        .map(|l| {
            if l.kind == Kind::List {
                let mut o = vec![0i64];
                for x in &l.lens {
                    o.push(o.last().unwrap() + *x as i64);
                }
                Some(o)
            } else {
                None
            }
        })
        .collect();
    let layers: Vec<(Kind, Option<&[bool]>, Option<&[i64]>, usize)> =
        s.layers.iter().zip(offs.iter()).map(|(l, o)| (l.kind, l.validity.as_deref(), o.as_deref(), l.dim)).collect();
    let rows = s.layers.first().map(|l| l.n).unwrap_or(s.leaf_n);
    (0..rows).map(|i| logical_at(&layers, s.leaf_validity.as_deref(), 0, i).expect("model shape is well formed")).collect()
}

// ---------------------------------------------------------------------------------------------
// choice-driven shape construction (exhaustive odometer or random)
// ---------------------------------------------------------------------------------------------

pub trait Chooser {
    /// a value in 0..arity
    fn choose(&mut self, arity: usize) -> usize;
}

/// Enumerates every path of the decision tree in lexicographic order.
#[derive(Default)]
pub struct Odometer {
    pub digits: Vec<(usize, usize)>, // (value, arity)
    pos: usize,
}
impl Odometer {
    pub fn start(&mut self) {
        self.pos = 0;
    }
    /// advance to the next path; false when exhausted
    pub fn advance(&mut self) -> bool {
        self.digits.truncate(self.pos);
        while let Some((v, a)) = self.digits.pop() {
            if v + 1 < a {
                self.digits.push((v + 1, a));
                return true;
            }
        }
        false
    }
}
impl Chooser for Odometer {
    fn choose(&mut self, arity: usize) -> usize {
        if self.pos == self.digits.len() {
            self.digits.push((0, arity));
        }
        let (v, a) = self.digits[self.pos];
        debug_assert_eq!(a, arity);
        self.pos += 1;
        v
    }
}
pub struct RandomChooser<'a>(pub &'a mut Rng);
impl Chooser for RandomChooser<'_> {
    fn choose(&mut self, arity: usize) -> usize {
        self.0.usize_below(arity)
    }
}

pub struct Limits {
    pub max_rows: usize,
    pub max_list_len: usize,
    /// max number of elements of any array below the top (choices that would exceed it are not offered)
    pub max_elems: usize,
    pub max_dim: usize,
}

/// Builds a canonical shape for the layer kinds `kinds` from choices. `hidden[i]` marks elements that
/// sit under a null struct (their nulls are pushed down like the struct encoder does) — under a null
/// FSL row the children stay arbitrary "valid" (don't care).
pub fn build_shape(kinds: &[Kind], lim: &Limits, ch: &mut dyn Chooser) -> Shape {
    let rows = ch.choose(lim.max_rows + 1);
    let mut n = rows;
    // pushed[i]: element i must be null because a struct ancestor is null; dead[i]: under null FSL (don't care)
    let mut pushed = vec![false; n];
    let mut dead = vec![false; n];
    let mut layers = vec![];
    for (depth, kind) in kinds.iter().enumerate() {
        let n_here = n;
        let force_validity = pushed.iter().any(|x| *x);
        let has_validity = force_validity || ch.choose(2) == 1;
        let mut validity = vec![true; n];
        let mut lens = vec![0usize; n];
        let mut dim = 1;
        let large = matches!(kind, Kind::List) && (depth % 2 == 1);
        match kind {
            Kind::Struct => {
                for i in 0..n {
                    if pushed[i] {
                        validity[i] = false;
                    } else if dead[i] {
                    } else if has_validity {
                        validity[i] = ch.choose(2) == 0;
                    }
                }
                // a null struct either pushes its nulls down into the children (what StructStructuralEncoder does) or
                // leaves them alone (plain RepDefBuilder use: e.g. nullable struct -> struct added with add_no_null ->
                // list -> items): then whatever sits below a null struct is "don't care" and stays arbitrary-valid
                let own_null = (0..n).any(|i| !validity[i] && !pushed[i]);
                let push = if own_null { ch.choose(2) == 0 } else { true };
                let np: Vec<bool> = (0..n).map(|i| pushed[i] || (push && !validity[i])).collect();
                let nd: Vec<bool> = (0..n).map(|i| dead[i] || (!push && !validity[i] && !pushed[i])).collect();
                pushed = np;
                dead = nd;
            }
            Kind::Fsl => {
                // the element limit applies to FSL children as well (dimension 1 is always allowed)
                let max_dim = lim.max_dim.min((lim.max_elems / n.max(1)).max(1));
                dim = 1 + ch.choose(max_dim);
                for i in 0..n {
                    if pushed[i] {
                        validity[i] = false;
                    } else if dead[i] {
                    } else if has_validity {
                        validity[i] = ch.choose(2) == 0;
                    }
                }
                let mut nd = Vec::with_capacity(n * dim);
                let mut np = Vec::with_capacity(n * dim);
                for i in 0..n {
                    for _ in 0..dim {
                        nd.push(dead[i] || !validity[i]);
                        np.push(false);
                    }
                }
                dead = nd;
                pushed = np;
                n *= dim;
            }
            Kind::List => {
                let mut total = 0usize;
                for i in 0..n {
                    if pushed[i] {
                        validity[i] = false;
                        continue;
                    }
                    if dead[i] {
                        // arbitrary: an empty valid list
                        continue;
                    }
                    let room = lim.max_elems.saturating_sub(total).min(lim.max_list_len);
                    // options: [null]? , len 0..=room
                    let nopt = room + 1 + has_validity as usize;
                    let c = ch.choose(nopt);
                    if has_validity && c == 0 {
                        validity[i] = false;
                    } else {
                        let l = c - has_validity as usize;
                        lens[i] = l;
                        total += l;
                    }
                }
                n = total;
                pushed = vec![false; n];
                dead = vec![false; n];
            }
        }
        layers.push(Layer {
            kind: *kind,
            validity: if has_validity { Some(validity) } else { None },
            lens,
            dim,
            large,
            n: n_here,
        });
    }
    // leaf
    let force_validity = pushed.iter().any(|x| *x);
    let has_validity = force_validity || ch.choose(2) == 1;
    let mut lv = vec![true; n];
    for i in 0..n {
        if pushed[i] {
            lv[i] = false;
        } else if dead[i] {
        } else if has_validity {
            lv[i] = ch.choose(2) == 0;
        }
    }
    Shape {
        layers,
        leaf_validity: if has_validity { Some(lv) } else { None },
        leaf_n: n,
    }
}

// ---------------------------------------------------------------------------------------------
// drive the real API
// ---------------------------------------------------------------------------------------------

fn nulls(v: &[bool]) -> NullBuffer {
    NullBuffer::new(BooleanBuffer::from(v.to_vec()))
}

pub struct Built {
    pub builder: RepDefBuilder,
    pub garbage_flags_ok: bool,
    pub garbage_injected: bool,
}

/// adds the layers of `s` to a fresh builder the way the encoders do. `garbage`: optional rng that
/// injects non-zero lengths behind null lists, non-zero first offsets (sliced list arrays).
pub fn feed_builder(s: &Shape, mut garbage: Option<&mut Rng>) -> Built {
    let mut b = RepDefBuilder::default();
    let mut flags_ok = true;
    let mut injected = false;
    for l in &s.layers {
        match l.kind {
            Kind::Struct => match &l.validity {
                Some(v) => b.add_validity_bitmap(nulls(v)),
                None => b.add_no_null(l.n),
            },
            Kind::Fsl => b.add_fsl(l.validity.as_ref().map(|v| nulls(v)), l.dim, l.n),
            Kind::List => {
                // physical offsets: canonical lengths, + garbage behind nulls, + a start offset
                let mut start = 0i64;
                let mut expect_flag = false;
                let mut lens: Vec<i64> = l.lens.iter().map(|x| *x as i64).collect();
                if let Some(r) = garbage.as_deref_mut() {
                    if r.chance(1, 2) {
                        start = r.range(1, 7);
                        injected = true;
                    }
                    if let Some(v) = &l.validity {
                        for (i, valid) in v.iter().enumerate() {
                            if !valid && r.chance(1, 2) {
                                lens[i] = r.range(1, 3);
                                expect_flag = true;
                                injected = true;
                            }
                        }
                    }
                }
                let mut offs = vec![start];
                for x in &lens {
                    offs.push(offs.last().unwrap() + x);
                }
                let validity = l.validity.as_ref().map(|v| nulls(v));
                let flag = if l.large {
                    b.add_offsets(OffsetBuffer::<i64>::new(ScalarBuffer::from(offs)), validity)
                } else {
                    b.add_offsets(OffsetBuffer::<i32>::new(ScalarBuffer::from(offs.iter().map(|x| *x as i32).collect::<Vec<_>>())), validity)
                };
                if flag != expect_flag {
                    flags_ok = false;
                }
            }
        }
    }
    match &s.leaf_validity {
        Some(v) => b.add_validity_bitmap(nulls(v)),
        None => b.add_no_null(s.leaf_n),
    }
    Built {
        builder: b,
        garbage_flags_ok: flags_ok,
        garbage_injected: injected,
    }
}

#[derive(Debug, Default, Clone)]
pub struct Obs {
    pub levels: usize,
    pub has_rep: bool,
    pub has_def: bool,
    pub rejected: Option<String>,
    pub meaning: String,
    pub expected: String,
}

fn nb_to_vec(n: Option<NullBuffer>, len: usize) -> Option<Vec<bool>> {
    n.map(|nb| (0..nb.len().max(len).min(nb.len())).map(|i| nb.is_valid(i)).collect())
}

fn meaning_str(m: &[DefinitionInterpretation]) -> String {
    m.iter()
        .map(|x| match x {
            DefinitionInterpretation::AllValidItem => "i",
            DefinitionInterpretation::AllValidList => "l",
            DefinitionInterpretation::NullableItem => "I",
            DefinitionInterpretation::NullableList => "N",
            DefinitionInterpretation::EmptyableList => "E",
            DefinitionInterpretation::NullableAndEmptyableList => "B",
        })
        .collect()
}

/// Full round trip of a sequence of shapes of identical kinds ("batches"). `pages`: how the batches are
/// grouped into separately serialized pages (each page -> one RepDefUnraveler of a composite).
/// `corrupt`: selftest, flips one observed level before unravelling.
pub fn roundtrip(shapes_in: &[Shape], pages_in: &[usize], mut garbage: Option<&mut Rng>, corrupt: bool) -> Result<Obs, Failure> {
    // pages without any row do not exist in files: drop zero-row batches (and pages that become empty)
    let mut shapes_v: Vec<Shape> = vec![];
    let mut pages_v: Vec<usize> = vec![];
    {
        let mut i = 0;
        for p in pages_in {
            let keep: Vec<Shape> = shapes_in[i..i + p].iter().filter(|s| s.layers.first().map(|l| l.n).unwrap_or(s.leaf_n) > 0).cloned().collect();
            i += p;
            if !keep.is_empty() {
                pages_v.push(keep.len());
                shapes_v.extend(keep);
            }
        }
    }
    if shapes_v.is_empty() {
        return Ok(Obs { rejected: Some("zero rows".into()), ..Default::default() });
    }
    let shapes: &[Shape] = &shapes_v;
    let pages: &[usize] = &pages_v;
    let kinds = shapes[0].kinds();
    let expected: Vec<Lv> = shapes.iter().flat_map(shape_logical).collect();
    let exp_s = render_rows(&expected);
    let mut obs = Obs {
        expected: exp_s.clone(),
        ..Default::default()
    };
    // known-defect preconditions, computed from what `serialize` returned (see NOTES.md / findings):
    //  (A: AllValidList with definition levels — fixed in /repo by c820773, no longer special-cased)
    //  B: several pages are unravelled together and, above a list, one page is AllValidItem where another is
    //     NullableItem (`append_n(num_items)` uses the leaf item count)
    //  C: a page without any visible leaf item whose (empty) leaf array still carries a validity buffer
    let flag_b = std::cell::Cell::new(false);
    let flag_c = std::cell::Cell::new(false);
    //  D: several pages, a page after the first has repetition but no definition levels (>= 2 list layers):
    //     `rep_levels.truncate(offsets.len() - 1)` counts the offsets of the earlier pages as well
    let flag_d = std::cell::Cell::new(false);
    let meanings_seen = std::cell::RefCell::new(String::new());
    let fail = |cls: &str, what: &str, detail: String| Failure {
        sig: {
            // one signature per root cause + symptom kind
            let kind = match cls {
                "panic" => "panic",
                "structure" | "validity" | "null-vs-empty" => "values",
                _ => "malformed",
            };
            if flag_c.get() {
                format!("repdef-zero-item-page-with-child-validity-{kind}")
            } else if flag_b.get() {
                format!("repdef-composite-allvaliditem-above-list-{kind}")
            } else if flag_d.get() {
                format!("repdef-composite-later-page-without-def-levels-{kind}")
            } else {
                format!("repdef-{cls}-{kinds}")
            }
        },
        what: what.to_string(),
        detail: format!("kinds {kinds} expected rows: {exp_s}; def_meaning(inner->outer, per page) {}; {detail}", meanings_seen.borrow()),
    };
    let has_f = shapes[0].layers.iter().any(|l| l.kind == Kind::Fsl);
    let has_l = shapes[0].layers.iter().any(|l| l.kind == Kind::List);
    if has_f && has_l {
        // documented as unsupported: `decimate` is todo!("Not yet supported FSL<...List<...>>")
        obs.rejected = Some("fixed-size-list layers together with list layers are not supported by the unraveler".into());
        return Ok(obs);
    }
    if has_f && pages.len() > 1 {
        obs.rejected = Some("structural FSL layers are only driven single-page (add_fsl has no production caller; decimate does not rescale num_items)".into());
        return Ok(obs);
    }
    if expected.is_empty() {
        obs.rejected = Some("zero rows".into());
        return Ok(obs);
    }
    let mut page_meanings: Vec<Vec<DefinitionInterpretation>> = vec![];
    let pm = std::cell::RefCell::new(&mut page_meanings);
    let r = catch_unwind(AssertUnwindSafe(|| {
        let mut unravelers = vec![];
        let mut idx = 0;
        let mut flags_ok = true;
        let mut meanings = String::new();
        let mut total_levels = 0usize;
        let mut has_rep = false;
        let mut has_def = false;
        let mut leaf_total = 0usize;
        for p in pages {
            let mut builders = vec![];
            let mut leaf_n = 0usize;
            for s in &shapes[idx..idx + p] {
                let b = feed_builder(s, garbage.as_deref_mut());
                flags_ok &= b.garbage_flags_ok;
                builders.push(b.builder);
                leaf_n += s.leaf_n;
            }
            idx += p;
            let ser = RepDefBuilder::serialize(builders);
            let rep = ser.repetition_levels.as_ref().map(|r| r.to_vec());
            let mut def = ser.definition_levels.as_ref().map(|r| r.to_vec());
            if let (Some(r), Some(d)) = (&rep, &def) {
                if r.len() != d.len() {
                    return Err(("level-lengths", format!("rep {} def {}", r.len(), d.len())));
                }
            }
            if corrupt {
                if let Some(d) = def.as_mut() {
                    if let Some(x) = d.iter_mut().find(|x| **x == 0) {
                        *x = 1;
                    } else if let Some(x) = d.first_mut() {
                        *x = 0;
                    }
                }
            }
            let n_levels = rep.as_ref().map(|r| r.len()).or(def.as_ref().map(|d| d.len())).unwrap_or(leaf_n);
            total_levels += n_levels;
            has_rep |= rep.is_some();
            has_def |= def.is_some();
            if !unravelers.is_empty() && ser.repetition_levels.is_some() && ser.definition_levels.is_none() && shapes[0].layers.iter().filter(|l| l.kind == Kind::List).count() >= 2 {
                flag_d.set(true);
            }
            if leaf_n == 0 && shapes[idx - p..idx].iter().any(|s| s.leaf_validity.is_some() || s.layers.iter().any(|l| l.n == 0 && l.validity.is_some())) {
                flag_c.set(true);
            }
            {
                let mut g = pm.borrow_mut();
                g.push(ser.def_meaning.clone());
                // B: compare with the earlier pages (def_meaning is inner -> outer)
                let last = g.len() - 1;
                for other in 0..last {
                    let (a, b) = (&g[other], &g[last]);
                    let mut list_below = false;
                    for j in 0..a.len().min(b.len()) {
                        let (x, y) = (a[j], b[j]);
                        if list_below && ((x == DefinitionInterpretation::AllValidItem && y == DefinitionInterpretation::NullableItem) || (y == DefinitionInterpretation::AllValidItem && x == DefinitionInterpretation::NullableItem)) {
                            flag_b.set(true);
                        }
                        if x.is_list() || y.is_list() {
                            list_below = true;
                        }
                    }
                }
            }
            if !meanings.is_empty() {
                meanings.push('/');
            }
            meanings.push_str(&meaning_str(&ser.def_meaning));
            *meanings_seen.borrow_mut() = meanings.clone();
            leaf_total += leaf_n;
            // like the page decoders: num_items = number of *visible* leaf items of the page
            unravelers.push(RepDefUnraveler::new(rep, def, Arc::from(ser.def_meaning.clone()), leaf_n as u64));
        }
        let mut comp = CompositeRepDefUnraveler::new(unravelers);
        // decode inner -> outer
        let leaf = nb_to_vec(comp.unravel_validity(leaf_total), leaf_total);
        let mut dec: Vec<DecLayer> = vec![];
        // element counts per layer (of the concatenated arrays) are known to the decoders from the children
        let mut child_len = leaf_total;
        for (depth, l0) in shapes[0].layers.iter().enumerate().rev() {
            match l0.kind {
                Kind::Struct => {
                    let v = nb_to_vec(comp.unravel_validity(child_len), child_len);
                    dec.push(DecLayer { kind: Kind::Struct, validity: v, offsets: vec![], dim: 1 });
                }
                Kind::Fsl => {
                    let dim = l0.dim;
                    let n: usize = shapes.iter().map(|s| s.layers[depth].n).sum();
                    let v = nb_to_vec(comp.unravel_fsl_validity(n, dim), n);
                    dec.push(DecLayer { kind: Kind::Fsl, validity: v, offsets: vec![], dim });
                    child_len = n;
                }
                Kind::List => {
                    let (offs, v): (Vec<i64>, Option<NullBuffer>) = if l0.large {
                        let (o, v) = comp.unravel_offsets::<i64>().map_err(|e| ("unravel-offsets-err", e.to_string()))?;
                        (o.iter().copied().collect(), v)
                    } else {
                        let (o, v) = comp.unravel_offsets::<i32>().map_err(|e| ("unravel-offsets-err", e.to_string()))?;
                        (o.iter().map(|x| *x as i64).collect(), v)
                    };
                    let n = offs.len().saturating_sub(1);
                    if offs.first().copied().unwrap_or(0) != 0 {
                        return Err(("offsets-start", format!("depth {depth}: first offset {:?}", offs.first())));
                    }
                    if offs.last().copied().unwrap_or(0) as usize != child_len {
                        return Err(("offsets-end", format!("depth {depth}: last offset {:?} but the child array has {child_len} elements", offs.last())));
                    }
                    let v = nb_to_vec(v, n);
                    if let Some(v) = &v {
                        if v.len() != n {
                            return Err(("validity-length", format!("depth {depth}: {} lists but validity of {}", n, v.len())));
                        }
                    }
                    dec.push(DecLayer { kind: Kind::List, validity: v, offsets: offs, dim: 1 });
                    child_len = n;
                }
            }
        }
        dec.reverse();
        Ok((dec, leaf, flags_ok, meanings, total_levels, has_rep, has_def, child_len))
    }));
    let (dec, leaf, flags_ok, meanings, total_levels, has_rep, has_def, rows) = match r {
        Err(p) => {
            let msg = panic_msg(p);
            if msg.contains("not yet supported") || msg.contains("not yet implemented") {
                obs.rejected = Some(msg);
                return Ok(obs);
            }
            return Err(fail("panic", "rep/def build / serialize / unravel panicked", msg));
        }
        Ok(Err((cls, d))) => return Err(fail(cls, "unravelled structure is malformed", d)),
        Ok(Ok(x)) => x,
    };
    obs.levels = total_levels;
    obs.has_rep = has_rep;
    obs.has_def = has_def;
    obs.meaning = meanings.clone();
    if !flags_ok {
        return Err(fail("garbage-flag", "add_offsets reported garbage-behind-nulls incorrectly", String::new()));
    }
    // logical comparison
    let exp_rows = expected.len();
    if shapes[0].layers.is_empty() {
        // leaf only
    }
    let layers: Vec<(Kind, Option<&[bool]>, Option<&[i64]>, usize)> =
        dec.iter().map(|d| (d.kind, d.validity.as_deref(), if d.kind == Kind::List { Some(d.offsets.as_slice()) } else { None }, d.dim)).collect();
    let top_rows = if dec.is_empty() { leaf.as_ref().map(|l| l.len()).unwrap_or(exp_rows) } else { rows };
    if top_rows != exp_rows {
        return Err(fail("row-count", "unravelled a different number of rows", format!("meaning {meanings}: expected {exp_rows} rows got {top_rows}")));
    }
    let mut got = vec![];
    for i in 0..exp_rows {
        match logical_at(&layers, leaf.as_deref(), 0, i) {
            Ok(v) => got.push(v),
            Err(e) => return Err(fail("malformed", "unravelled structure is malformed", format!("meaning {meanings}: row {i}: {e}"))),
        }
    }
    if got != expected {
        let i = got.iter().zip(expected.iter()).position(|(a, b)| a != b).unwrap();
        // classify
        let mut a = String::new();
        let mut b = String::new();
        render(&expected[i], &mut a);
        render(&got[i], &mut b);
        let cls = if a.replace('N', "[]") == b.replace('N', "[]") { "null-vs-empty" } else if a.len() != b.len() { "structure" } else { "validity" };
        return Err(fail(cls, "rep/def round trip changed the logical structure", format!("meaning {meanings}: row {i} expected {a} got {b}; all rows got: {}", render_rows(&got))));
    }
    Ok(obs)
}

pub fn panic_msg(p: Box<dyn std::any::Any + Send>) -> String {
    if let Some(s) = p.downcast_ref::<&str>() {
        s.to_string()
    } else if let Some(s) = p.downcast_ref::<String>() {
        s.clone()
    } else {
        "<non-string panic>".into()
    }
}

pub fn shape_sig(s: &Shape, obs: &Obs) -> u64 {
    fnv(format!("{}|{}|{}", s.kinds(), obs.meaning, obs.expected).as_bytes())
}

/// non-trivial: at least one null or one list special (empty/null) or >1 nesting level with data
pub fn nontrivial(shapes: &[Shape], obs: &Obs) -> bool {
    obs.rejected.is_none() && (obs.has_def || obs.has_rep) && shapes.iter().any(|s| s.layers.first().map(|l| l.n).unwrap_or(s.leaf_n) > 0)
}

// ---------------------------------------------------------------------------------------------
// control words
// ---------------------------------------------------------------------------------------------

/// round trip of `build_control_word_iterator` / `ControlWordParser` for max levels (max_rep, max_def).
/// Returns (words checked) or a failure.
pub fn control_words(rng: &mut Rng, max_rep: u16, max_def: u16, n: usize, corrupt: bool) -> Result<(usize, u8, u8), Failure> {
    // levels: make sure the maxima occur
    let rep: Option<Vec<u16>> = if max_rep > 0 {
        let mut v: Vec<u16> = (0..n).map(|_| if rng.chance(1, 3) { max_rep } else { rng.below(max_rep as u64 + 1) as u16 }).collect();
        if n > 0 {
            v[0] = max_rep;
        }
        Some(v)
    } else {
        None
    };
    let def: Option<Vec<u16>> = if max_def > 0 {
        let mut v: Vec<u16> = (0..n).map(|_| if rng.chance(1, 3) { 0 } else { rng.below(max_def as u64 + 1) as u16 }).collect();
        if n > 1 {
            v[1] = max_def;
        }
        Some(v)
    } else {
        None
    };
    let max_visible = if max_def > 0 { rng.below(max_def as u64 + 1) as u16 } else { 0 };
    let sigbase = format!("r{}d{}", 16 - max_rep.leading_zeros(), 16 - max_def.leading_zeros());
    let r = catch_unwind(AssertUnwindSafe(|| {
        let mut it = build_control_word_iterator(rep.as_deref(), max_rep, def.as_deref(), max_def, max_visible, n);
        let bits_rep = it.bits_rep();
        let bits_def = it.bits_def();
        let bpw = it.bytes_per_word();
        let mut buf = vec![];
        let mut descs = vec![];
        for _ in 0..n {
            match it.append_next(&mut buf) {
                Some(d) => descs.push((d.is_new_row, d.is_visible, d.is_valid_item)),
                None => return Err(format!("iterator ended after {} of {n} words", descs.len())),
            }
        }
        if buf.len() != n * bpw {
            return Err(format!("{} bytes for {n} words of {bpw} bytes", buf.len()));
        }
        if corrupt && !buf.is_empty() {
            let k = buf.len() / 2;
            buf[k] ^= 1;
        }
        let parser = ControlWordParser::new(bits_rep, bits_def);
        if parser.bytes_per_word() != bpw {
            return Err(format!("parser word size {} != iterator word size {bpw}", parser.bytes_per_word()));
        }
        if parser.has_rep() != rep.is_some() {
            return Err(format!("parser.has_rep {} but rep present {}", parser.has_rep(), rep.is_some()));
        }
        let mut prep = vec![];
        let mut pdef = vec![];
        for i in 0..n {
            let src = if bpw == 0 { &buf[0..0] } else { &buf[i * bpw..(i + 1) * bpw] };
            parser.parse(src, &mut prep, &mut pdef);
            let d = parser.parse_desc(src, max_rep, max_visible);
            // descriptors: model
            let rv = rep.as_ref().map(|r| r[i]);
            let dv = def.as_ref().map(|d| d[i]);
            let m_new_row = match rv {
                Some(r) => r == max_rep,
                None => true,
            };
            let m_valid = dv.map(|d| d == 0).unwrap_or(true);
            let m_visible = match (rv, dv) {
                (Some(_), Some(d)) => d <= max_visible,
                _ => true,
            };
            let it_d = descs[i];
            if it_d != (m_new_row, m_visible, m_valid) {
                return Err(format!("iterator descriptor of word {i} (rep {rv:?} def {dv:?} max_visible {max_visible}) = {it_d:?}, model {:?}", (m_new_row, m_visible, m_valid)));
            }
            if (d.is_new_row, d.is_visible, d.is_valid_item) != (m_new_row, m_visible, m_valid) {
                return Err(format!("parser descriptor of word {i} (rep {rv:?} def {dv:?}) = {:?}, model {:?}", (d.is_new_row, d.is_visible, d.is_valid_item), (m_new_row, m_visible, m_valid)));
            }
        }
        if let Some(r) = &rep {
            if &prep != r {
                let i = prep.iter().zip(r.iter()).position(|(a, b)| a != b).unwrap_or(0);
                return Err(format!("rep levels differ at {i}: wrote {} parsed {}", r.get(i).copied().unwrap_or(0), prep.get(i).copied().unwrap_or(0)));
            }
        } else if !prep.is_empty() {
            return Err("parser produced rep levels although none were written".into());
        }
        if let Some(dd) = &def {
            if &pdef != dd {
                let i = pdef.iter().zip(dd.iter()).position(|(a, b)| a != b).unwrap_or(0);
                return Err(format!("def levels differ at {i}: wrote {} parsed {}", dd.get(i).copied().unwrap_or(0), pdef.get(i).copied().unwrap_or(0)));
            }
        } else if !pdef.is_empty() {
            return Err("parser produced def levels although none were written".into());
        }
        Ok((n, bits_rep, bits_def))
    }));
    match r {
        Err(p) => Err(Failure { sig: format!("control-words-panic-{sigbase}"), what: "control word iterator / parser panicked".into(), detail: format!("max_rep {max_rep} max_def {max_def} n {n}: {}", panic_msg(p)) }),
        Ok(Err(e)) => Err(Failure { sig: format!("control-words-roundtrip-{sigbase}"), what: "control word round trip changed the levels / descriptors".into(), detail: format!("max_rep {max_rep} max_def {max_def} n {n}: {e}") }),
        Ok(Ok(x)) => Ok(x),
    }
}
