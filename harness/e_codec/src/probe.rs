//! scratch probes (not part of any check)
use arrow_buffer::{BooleanBuffer, NullBuffer, OffsetBuffer, ScalarBuffer};
use lance_encoding::repdef::*;
use std::sync::Arc;

pub fn symtok_probe() -> i32 {
    use crate::k28::*;
    use crate::prng::Rng;
    for case in 0..32u64 {
        let mut rng = Rng::for_case(7, case);
        let (strings, sinfo) = symtok_corpus_info(&mut rng, if case % 2 == 0 { 70_000 } else { 200_000 });
        let mut buf = vec![];
        let mut offs = vec![0i32];
        for s in &strings {
            buf.extend_from_slice(s);
            offs.push(buf.len() as i32);
        }
        let mut hist = [0usize; 256];
        for b in &buf {
            hist[*b as usize] += 1;
        }
        let rare = (0..256).min_by_key(|i| hist[*i]).unwrap() as u8;
        let mut symtab = vec![0u8; fsst::fsst::FSST_SYMBOL_TABLE_SIZE];
        let mut out = vec![0u8; buf.len() * 2];
        let mut ooff = vec![0i32; offs.len() * 2];
        fsst::fsst::compress(&mut symtab, &buf, &offs, &mut out, &mut ooff).unwrap();
        let info = u64::from_ne_bytes(symtab[..8].try_into().unwrap());
        let n = (info & 255) as usize;
        let term = ((info >> 8) & 255) as u8;
        let lens = &symtab[8 + n * 8..8 + n * 8 + n];
        let mut lh = [0usize; 9];
        let mut ends_with_term = 0;
        let mut contains_term = 0;
        let mut r_subs: Vec<usize> = vec![];
        for i in 0..n {
            let l = lens[i] as usize;
            lh[l] += 1;
            let sym = &symtab[8 + i * 8..8 + i * 8 + l];
            if l > 1 && sym[l - 1] == term {
                ends_with_term += 1;
            }
            if l > 1 && sym.contains(&term) {
                contains_term += 1;
            }
            if l > 1 && sinfo.rare_token.windows(l).any(|w| w == sym) {
                r_subs.push(l);
            }
        }
        // low-tier tokens with at least one multi-byte symbol inside; is the byte before the terminator (inside its
        // token) the end of a learned symbol / is the terminator's token low tier
        let mut low_with_sym = 0;
        for t in &sinfo.tokens[sinfo.n_hi..] {
            let any = (0..n).any(|i| { let l = lens[i] as usize; l > 1 && t.windows(l).any(|w| w == &symtab[8 + i * 8..8 + i * 8 + l]) });
            low_with_sym += any as usize;
        }
        let term_tok = sinfo.tokens.iter().position(|t| t.contains(&term));
        let term_pos = term_tok.map(|k| sinfo.tokens[k].iter().position(|b| *b == term).unwrap());
        print!("[l {} n_hi {} hi_w {} cut {} cut_hi {}] low tokens with a multi-byte symbol {low_with_sym}/{}; terminator in token {:?} (low tier {:?}) at pos {:?} | ", sinfo.tokens[0].len(), sinfo.n_hi, sinfo.hi_w, sinfo.cut_share, sinfo.cut_hi, 32 - sinfo.n_hi, term_tok, term_tok.map(|k| k >= sinfo.n_hi), term_pos);
        println!("symtok {case}: {} strings {} bytes -> {} ; symbols {n} by length {:?}; rarest byte overall {rare:#04x} (count {}), terminator {term:#04x} (count {}), multi-byte symbols containing / ending with the terminator: {contains_term} / {ends_with_term}; rare token {:02x?}, rare byte at {} = {:#04x}; lengths of multi-byte symbols that are substrings of the rare token: {r_subs:?}", strings.len(), buf.len(), ooff[offs.len() - 1], &lh[1..], hist[rare as usize], hist[term as usize], sinfo.rare_token, sinfo.rare_pos, sinfo.rare_token[sinfo.rare_pos]);
    }
    0
}

pub fn fullzip_var_probe() -> i32 {
    use arrow_array::*;
    let rt = crate::fileio::runtime();
    let base = StringArray::from(vec![Some("zz"), None, Some("a"), Some("bb"), Some("ccc")]);
    let cases: Vec<(&str, ArrayRef)> = vec![
        ("utf8 x3 no validity buffer", Arc::new(StringArray::from(vec!["a", "bb", "ccc"]))),
        ("utf8 x3 validity buffer without nulls (slice)", Arc::new(base.slice(2, 3))),
        ("utf8 x3 with a null", Arc::new(StringArray::from(vec![Some("a"), None, Some("ccc")]))),
        ("utf8 x3 all empty, validity buffer without nulls", Arc::new(StringArray::from(vec![Some("x"), None, Some(""), Some(""), Some("")]).slice(2, 3))),
        ("utf8 x3 all empty, no validity buffer", Arc::new(StringArray::from(vec!["", "", ""]))),
        ("bool x963 runs", Arc::new(BooleanArray::from((0..963).map(|i| (i / 37) % 2 == 0).collect::<Vec<_>>()))),
    ];
    for (name, arr) in cases {
        for md in [vec![("lance-encoding:structural-encoding", "fullzip")], vec![("lance-encoding:structural-encoding", "fullzip"), ("lance-encoding:compression", "zstd")]] {
            let mdm: std::collections::HashMap<String, String> = md.iter().map(|(k, v)| (k.to_string(), v.to_string())).collect();
            let schema = Arc::new(arrow_schema::Schema::new(vec![arrow_schema::Field::new("col", arr.data_type().clone(), true).with_metadata(mdm)]));
            let batches = vec![RecordBatch::try_new(schema.clone(), vec![arr.clone()]).unwrap()];
            let out = crate::quiet::run_attributed(|| rt.block_on(async {
                let f = crate::fileio::write_file(&batches, schema.clone(), lance_encoding::version::LanceFileVersion::V2_1, None, "probe7").await?;
                let r = crate::fileio::open(&f).await?;
                crate::fileio::read_all(&r, 4096).await
            }));
            println!("fullzip-var [{name}] {md:?}: {}", match out { Ok(b) => format!("ok {:?}", b.iter().map(|x| format!("{:?}", x.column(0))).collect::<Vec<_>>()).replace('\n', " ").chars().take(120).collect::<String>(), Err(e) => format!("FAILED {e}") });
        }
    }
    0
}

pub fn run() -> i32 {
    if std::env::var("PROBE_SYMTOK").is_ok() {
        return symtok_probe();
    }
    if std::env::var("PROBE_FZV").is_ok() {
        return fullzip_var_probe();
    }
    // List<Int32 nullable>, all lists valid and non-empty: [[N,1],[2]]
    let mut b = RepDefBuilder::default();
    b.add_offsets(OffsetBuffer::<i32>::new(ScalarBuffer::from(vec![0, 2, 3])), None);
    b.add_validity_bitmap(NullBuffer::new(BooleanBuffer::from(vec![false, true, true])));
    let ser = RepDefBuilder::serialize(vec![b]);
    println!("rep {:?} def {:?} meaning {:?}", ser.repetition_levels, ser.definition_levels, ser.def_meaning);
    let rep = ser.repetition_levels.as_ref().map(|r| r.to_vec());
    let def = ser.definition_levels.as_ref().map(|r| r.to_vec());
    let mut u = CompositeRepDefUnraveler::new(vec![RepDefUnraveler::new(rep, def, Arc::from(ser.def_meaning.clone()), 3)]);
    println!("leaf validity {:?}", u.unravel_validity(3));
    println!("offsets {:?}", u.unravel_offsets::<i32>());
    // same through lance-file
    use arrow_array::*;
    let values = Int32Array::from(vec![None, Some(1), Some(2)]);
    let f = Arc::new(arrow_schema::Field::new("item", arrow_schema::DataType::Int32, true));
    let list = ListArray::new(f.clone(), OffsetBuffer::<i32>::new(ScalarBuffer::from(vec![0, 2, 3])), Arc::new(values), None);
    let schema = Arc::new(arrow_schema::Schema::new(vec![arrow_schema::Field::new("col", arrow_schema::DataType::List(f), true)]));
    let batch = RecordBatch::try_new(schema.clone(), vec![Arc::new(list)]).unwrap();
    let rt = crate::fileio::runtime();
    let out = rt.block_on(async {
        let f = crate::fileio::write_file(&[batch], schema, lance_encoding::version::LanceFileVersion::V2_1, None, "probe").await?;
        let r = crate::fileio::open(&f).await?;
        println!("{:?}", crate::fileio::page_encodings(&r));
        crate::fileio::read_all(&r, 100).await
    });
    println!("{out:?}");
    // pages whose rows are all empty / null lists
    for (name, offs, valid) in [("3 empty lists", vec![0, 0, 0, 0], None), ("2 null lists", vec![0, 0, 0], Some(vec![false, false])), ("empty + null", vec![0, 0, 0], Some(vec![true, false]))] {
        let f = Arc::new(arrow_schema::Field::new("item", arrow_schema::DataType::Int32, true));
        let n = offs.len() - 1;
        let list = ListArray::new(f.clone(), OffsetBuffer::<i32>::new(ScalarBuffer::from(offs)), Arc::new(Int32Array::from(Vec::<i32>::new())), valid.map(|v| NullBuffer::new(BooleanBuffer::from(v))));
        let schema = Arc::new(arrow_schema::Schema::new(vec![arrow_schema::Field::new("col", arrow_schema::DataType::List(f), true)]));
        let batch = RecordBatch::try_new(schema.clone(), vec![Arc::new(list.clone())]).unwrap();
        let out = crate::quiet::catch(|| rt.block_on(async {
            let f = crate::fileio::write_file(&[batch], schema, lance_encoding::version::LanceFileVersion::V2_1, None, "probe2").await?;
            let r = crate::fileio::open(&f).await?;
            crate::fileio::read_all(&r, 100).await
        }));
        println!("--- {name} ({n} rows): wrote {:?}", list);
        match out {
            Ok(Ok(b)) => println!("read back {} rows: {:?}", b.iter().map(|x| x.num_rows()).sum::<usize>(), b.first().map(|x| x.column(0).clone())),
            other => println!("failed: {other:?}"),
        }
    }
    // List<List<List<Int32>>> with three empty outer lists, through the file and through the builder
    {
        let f3 = Arc::new(arrow_schema::Field::new("item", arrow_schema::DataType::Int32, true));
        let l3 = ListArray::new(f3.clone(), OffsetBuffer::<i32>::new(ScalarBuffer::from(vec![0])), Arc::new(Int32Array::from(Vec::<i32>::new())), None);
        let f2 = Arc::new(arrow_schema::Field::new("item", l3.data_type().clone(), true));
        let l2 = ListArray::new(f2.clone(), OffsetBuffer::<i32>::new(ScalarBuffer::from(vec![0])), Arc::new(l3), None);
        let f1 = Arc::new(arrow_schema::Field::new("item", l2.data_type().clone(), true));
        let l1 = ListArray::new(f1.clone(), OffsetBuffer::<i32>::new(ScalarBuffer::from(vec![0, 0, 0, 0])), Arc::new(l2), None);
        let schema = Arc::new(arrow_schema::Schema::new(vec![arrow_schema::Field::new("col", l1.data_type().clone(), true)]));
        let batch = RecordBatch::try_new(schema.clone(), vec![Arc::new(l1)]).unwrap();
        let out = crate::quiet::catch(|| rt.block_on(async {
            let f = crate::fileio::write_file(&[batch], schema, lance_encoding::version::LanceFileVersion::V2_1, None, "probe3").await?;
            let r = crate::fileio::open(&f).await?;
            crate::fileio::read_all(&r, 100).await
        }));
        println!("LLL all empty via file: {:?}", out.map(|r| r.map(|b| b.iter().map(|x| format!("{:?}", x.column(0))).collect::<Vec<_>>())));
        let mut b = RepDefBuilder::default();
        b.add_offsets(OffsetBuffer::<i32>::new(ScalarBuffer::from(vec![0, 0, 0, 0])), None);
        b.add_offsets(OffsetBuffer::<i32>::new(ScalarBuffer::from(vec![0])), None);
        b.add_offsets(OffsetBuffer::<i32>::new(ScalarBuffer::from(vec![0])), None);
        b.add_no_null(0);
        let ser = RepDefBuilder::serialize(vec![b]);
        println!("LLL all empty via builder: rep {:?} def {:?} meaning {:?}", ser.repetition_levels, ser.definition_levels, ser.def_meaning);
        let mut b = RepDefBuilder::default();
        b.add_offsets(OffsetBuffer::<i32>::new(ScalarBuffer::from(vec![0, 0, 0, 0])), None);
        b.add_no_null(0);
        let ser = RepDefBuilder::serialize(vec![b]);
        println!("L all empty via builder: rep {:?} def {:?} meaning {:?}", ser.repetition_levels, ser.definition_levels, ser.def_meaning);
    }
    // Utf8 column: 129 empty strings followed by 128 strings of 250 bytes, 4 times (all values < 256 bytes => mini-block)
    {
        let mut v: Vec<String> = vec![];
        for _ in 0..4 {
            for _ in 0..129 { v.push(String::new()); }
            for i in 0..128 { v.push(format!("{:0>250}", i)); }
        }
        let arr = StringArray::from(v.clone());
        let schema = Arc::new(arrow_schema::Schema::new(vec![arrow_schema::Field::new("col", arrow_schema::DataType::Utf8, true).with_metadata([("lance-encoding:compression".to_string(), "none".to_string())].into_iter().collect())]));
        let batch = RecordBatch::try_new(schema.clone(), vec![Arc::new(arr)]).unwrap();
        let out = crate::quiet::catch(|| rt.block_on(async {
            let f = crate::fileio::write_file(&[batch], schema, lance_encoding::version::LanceFileVersion::V2_1, None, "probe4").await?;
            let r = crate::fileio::open(&f).await?;
            crate::fileio::read_all(&r, 4096).await
        }));
        match out {
            Ok(Ok(b)) => println!("skewed strings: read back {} rows", b.iter().map(|x| x.num_rows()).sum::<usize>()),
            Ok(Err(e)) => println!("skewed strings: error {e}"),
            Err((m, l)) => println!("skewed strings: PANIC {m} at {l}; first repo panic: {:?}", crate::quiet::take_repo_panic()),
        }
    }
    // forced full-zip on a small nullable Int32 column
    for version in [lance_encoding::version::LanceFileVersion::V2_1, lance_encoding::version::LanceFileVersion::V2_2] {
        for vals in [vec![Some(0), None, Some(1), Some(2), Some(3)]] {
            for split in [false, true] {
                // slice away the only null: the validity buffer stays, null_count = 0
                let arr = Int32Array::from(vals.clone()).slice(2, 3);
                let md: std::collections::HashMap<String, String> = [("lance-encoding:structural-encoding".to_string(), "fullzip".to_string())].into_iter().collect();
                let schema = Arc::new(arrow_schema::Schema::new(vec![arrow_schema::Field::new("col", arrow_schema::DataType::Int32, true).with_metadata(md)]));
                let batches: Vec<RecordBatch> = if split {
                    vec![RecordBatch::try_new(schema.clone(), vec![Arc::new(arr.slice(0, 1))]).unwrap(), RecordBatch::try_new(schema.clone(), vec![Arc::new(arr.slice(1, 2))]).unwrap()]
                } else {
                    vec![RecordBatch::try_new(schema.clone(), vec![Arc::new(arr)]).unwrap()]
                };
                let out = crate::quiet::run_attributed(|| rt.block_on(async {
                    let f = crate::fileio::write_file(&batches, schema.clone(), version, None, "probe5").await?;
                    let r = crate::fileio::open(&f).await?;
                    crate::fileio::read_all(&r, 4096).await
                }));
                println!("fullzip {version} {vals:?} split={split}: {}", match out { Ok(b) => format!("ok {:?}", b.iter().map(|x| format!("{:?}", x.column(0))).collect::<Vec<_>>()).replace('\n', " "), Err(e) => format!("FAILED {e}") });
            }
        }
    }
    // forced full-zip on Boolean columns
    for (name, arr) in [("bool all_true x1", BooleanArray::from(vec![true])), ("bool mixed x64", BooleanArray::from((0..64).map(|i| i % 3 == 0).collect::<Vec<_>>())), ("bool nullable x5", BooleanArray::from(vec![Some(true), None, Some(false), Some(true), None]))] {
        for version in [lance_encoding::version::LanceFileVersion::V2_1, lance_encoding::version::LanceFileVersion::V2_2] {
            let md: std::collections::HashMap<String, String> = [("lance-encoding:structural-encoding".to_string(), "fullzip".to_string())].into_iter().collect();
            let schema = Arc::new(arrow_schema::Schema::new(vec![arrow_schema::Field::new("col", arrow_schema::DataType::Boolean, true).with_metadata(md)]));
            let batches = vec![RecordBatch::try_new(schema.clone(), vec![Arc::new(arr.clone())]).unwrap()];
            let out = crate::quiet::run_attributed(|| rt.block_on(async {
                let f = crate::fileio::write_file(&batches, schema.clone(), version, None, "probe6").await?;
                let r = crate::fileio::open(&f).await?;
                crate::fileio::read_all(&r, 4096).await
            }));
            println!("fullzip-bool {version} {name}: {}", match out { Ok(b) => format!("ok {} rows", b.iter().map(|x| x.num_rows()).sum::<usize>()), Err(e) => format!("FAILED {e}") });
        }
    }
    0
}
