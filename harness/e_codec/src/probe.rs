//! scratch probes (not part of any check)
use arrow_buffer::{BooleanBuffer, NullBuffer, OffsetBuffer, ScalarBuffer};
use lance_encoding::repdef::*;
use std::sync::Arc;

pub fn run() -> i32 {
    // List<Int32 nullable>, all lists valid and non-empty: [[N,1],[2]]
    let mut b = RepDefBuilder::default();
    b.add_offsets(OffsetBuffer::<i32>::new(ScalarBuffer::from(vec![0, 2, 3])), None);
    b.add_validity_bitmap(NullBuffer::new(BooleanBuffer::from(vec![false, true, true])));
    let ser = RepDefBuilder::serialize(vec![b]);
    println!("rep {:?} def {:?} meaning {:?}", ser.repetition_levels, ser.definition_levels, ser.def_meaning);
    let rep = ser.repetition_levels.as_ref().map(|r| r.to_vec());
    let def = ser.definition_levels.as_ref().map(|r| r.to_vec());
    let mut u = CompositeRepDefUnraveler::new(vec![RepDefUnraveler::new(rep, def, Arc::from(ser.def_meaning.clone()), 3)]);
    println!("leaf validity {:?}", u.unravel_validity(3));
    println!("offsets {:?}", u.unravel_offsets::<i32>());
    // same through lance-file
    use arrow_array::*;
    let values = Int32Array::from(vec![None, Some(1), Some(2)]);
    let f = Arc::new(arrow_schema::Field::new("item", arrow_schema::DataType::Int32, true));
    let list = ListArray::new(f.clone(), OffsetBuffer::<i32>::new(ScalarBuffer::from(vec![0, 2, 3])), Arc::new(values), None);
    let schema = Arc::new(arrow_schema::Schema::new(vec![arrow_schema::Field::new("col", arrow_schema::DataType::List(f), true)]));
    let batch = RecordBatch::try_new(schema.clone(), vec![Arc::new(list)]).unwrap();
    let rt = crate::fileio::runtime();
    let out = rt.block_on(async {
        let f = crate::fileio::write_file(&[batch], schema, lance_encoding::version::LanceFileVersion::V2_1, None, "probe").await?;
        let r = crate::fileio::open(&f).await?;
        println!("{:?}", crate::fileio::page_encodings(&r));
        crate::fileio::read_all(&r, 100).await
    });
    println!("{out:?}");
    // pages whose rows are all empty / null lists
    for (name, offs, valid) in [("3 empty lists", vec![0, 0, 0, 0], None), ("2 null lists", vec![0, 0, 0], Some(vec![false, false])), ("empty + null", vec![0, 0, 0], Some(vec![true, false]))] {
        let f = Arc::new(arrow_schema::Field::new("item", arrow_schema::DataType::Int32, true));
        let n = offs.len() - 1;
        let list = ListArray::new(f.clone(), OffsetBuffer::<i32>::new(ScalarBuffer::from(offs)), Arc::new(Int32Array::from(Vec::<i32>::new())), valid.map(|v| NullBuffer::new(BooleanBuffer::from(v))));
        let schema = Arc::new(arrow_schema::Schema::new(vec![arrow_schema::Field::new("col", arrow_schema::DataType::List(f), true)]));
        let batch = RecordBatch::try_new(schema.clone(), vec![Arc::new(list.clone())]).unwrap();
        let out = crate::quiet::catch(|| rt.block_on(async {
            let f = crate::fileio::write_file(&[batch], schema, lance_encoding::version::LanceFileVersion::V2_1, None, "probe2").await?;
            let r = crate::fileio::open(&f).await?;
            crate::fileio::read_all(&r, 100).await
        }));
        println!("--- {name} ({n} rows): wrote {:?}", list);
        match out {
            Ok(Ok(b)) => println!("read back {} rows: {:?}", b.iter().map(|x| x.num_rows()).sum::<usize>(), b.first().map(|x| x.column(0).clone())),
            other => println!("failed: {other:?}"),
        }
    }
    // List<List<List<Int32>>> with three empty outer lists, through the file and through the builder
    {
        let f3 = Arc::new(arrow_schema::Field::new("item", arrow_schema::DataType::Int32, true));
        let l3 = ListArray::new(f3.clone(), OffsetBuffer::<i32>::new(ScalarBuffer::from(vec![0])), Arc::new(Int32Array::from(Vec::<i32>::new())), None);
        let f2 = Arc::new(arrow_schema::Field::new("item", l3.data_type().clone(), true));
        let l2 = ListArray::new(f2.clone(), OffsetBuffer::<i32>::new(ScalarBuffer::from(vec![0])), Arc::new(l3), None);
        let f1 = Arc::new(arrow_schema::Field::new("item", l2.data_type().clone(), true));
        let l1 = ListArray::new(f1.clone(), OffsetBuffer::<i32>::new(ScalarBuffer::from(vec![0, 0, 0, 0])), Arc::new(l2), None);
        let schema = Arc::new(arrow_schema::Schema::new(vec![arrow_schema::Field::new("col", l1.data_type().clone(), true)]));
        let batch = RecordBatch::try_new(schema.clone(), vec![Arc::new(l1)]).unwrap();
        let out = crate::quiet::catch(|| rt.block_on(async {
            let f = crate::fileio::write_file(&[batch], schema, lance_encoding::version::LanceFileVersion::V2_1, None, "probe3").await?;
            let r = crate::fileio::open(&f).await?;
            crate::fileio::read_all(&r, 100).await
        }));
        println!("LLL all empty via file: {:?}", out.map(|r| r.map(|b| b.iter().map(|x| format!("{:?}", x.column(0))).collect::<Vec<_>>())));
        let mut b = RepDefBuilder::default();
        b.add_offsets(OffsetBuffer::<i32>::new(ScalarBuffer::from(vec![0, 0, 0, 0])), None);
        b.add_offsets(OffsetBuffer::<i32>::new(ScalarBuffer::from(vec![0])), None);
        b.add_offsets(OffsetBuffer::<i32>::new(ScalarBuffer::from(vec![0])), None);
        b.add_no_null(0);
        let ser = RepDefBuilder::serialize(vec![b]);
        println!("LLL all empty via builder: rep {:?} def {:?} meaning {:?}", ser.repetition_levels, ser.definition_levels, ser.def_meaning);
        let mut b = RepDefBuilder::default();
        b.add_offsets(OffsetBuffer::<i32>::new(ScalarBuffer::from(vec![0, 0, 0, 0])), None);
        b.add_no_null(0);
        let ser = RepDefBuilder::serialize(vec![b]);
        println!("L all empty via builder: rep {:?} def {:?} meaning {:?}", ser.repetition_levels, ser.definition_levels, ser.def_meaning);
    }
    // Utf8 column: 129 empty strings followed by 128 strings of 250 bytes, 4 times (all values < 256 bytes => mini-block)
    {
        let mut v: Vec<String> = vec![];
        for _ in 0..4 {
            for _ in 0..129 { v.push(String::new()); }
            for i in 0..128 { v.push(format!("{:0>250}", i)); }
        }
        let arr = StringArray::from(v.clone());
        let schema = Arc::new(arrow_schema::Schema::new(vec![arrow_schema::Field::new("col", arrow_schema::DataType::Utf8, true).with_metadata([("lance-encoding:compression".to_string(), "none".to_string())].into_iter().collect())]));
        let batch = RecordBatch::try_new(schema.clone(), vec![Arc::new(arr)]).unwrap();
        let out = crate::quiet::catch(|| rt.block_on(async {
            let f = crate::fileio::write_file(&[batch], schema, lance_encoding::version::LanceFileVersion::V2_1, None, "probe4").await?;
            let r = crate::fileio::open(&f).await?;
            crate::fileio::read_all(&r, 4096).await
        }));
        match out {
            Ok(Ok(b)) => println!("skewed strings: read back {} rows", b.iter().map(|x| x.num_rows()).sum::<usize>()),
            Ok(Err(e)) => println!("skewed strings: error {e}"),
            Err((m, l)) => println!("skewed strings: PANIC {m} at {l}; first repo panic: {:?}", crate::quiet::take_repo_panic()),
        }
    }
    // forced full-zip on a small nullable Int32 column
    for version in [lance_encoding::version::LanceFileVersion::V2_1, lance_encoding::version::LanceFileVersion::V2_2] {
        for vals in [vec![Some(0), None, Some(1), Some(2), Some(3)]] {
            for split in [false, true] {
                // slice away the only null: the validity buffer stays, null_count = 0
                let arr = Int32Array::from(vals.clone()).slice(2, 3);
                let md: std::collections::HashMap<String, String> = [("lance-encoding:structural-encoding".to_string(), "fullzip".to_string())].into_iter().collect();
                let schema = Arc::new(arrow_schema::Schema::new(vec![arrow_schema::Field::new("col", arrow_schema::DataType::Int32, true).with_metadata(md)]));
                let batches: Vec<RecordBatch> = if split {
                    vec![RecordBatch::try_new(schema.clone(), vec![Arc::new(arr.slice(0, 1))]).unwrap(), RecordBatch::try_new(schema.clone(), vec![Arc::new(arr.slice(1, 2))]).unwrap()]
                } else {
                    vec![RecordBatch::try_new(schema.clone(), vec![Arc::new(arr)]).unwrap()]
                };
                let out = crate::quiet::run_attributed(|| rt.block_on(async {
                    let f = crate::fileio::write_file(&batches, schema.clone(), version, None, "probe5").await?;
                    let r = crate::fileio::open(&f).await?;
                    crate::fileio::read_all(&r, 4096).await
                }));
                println!("fullzip {version} {vals:?} split={split}: {}", match out { Ok(b) => format!("ok {:?}", b.iter().map(|x| format!("{:?}", x.column(0))).collect::<Vec<_>>()).replace('\n', " "), Err(e) => format!("FAILED {e}") });
            }
        }
    }
    // forced full-zip on Boolean columns
    for (name, arr) in [("bool all_true x1", BooleanArray::from(vec![true])), ("bool mixed x64", BooleanArray::from((0..64).map(|i| i % 3 == 0).collect::<Vec<_>>())), ("bool nullable x5", BooleanArray::from(vec![Some(true), None, Some(false), Some(true), None]))] {
        for version in [lance_encoding::version::LanceFileVersion::V2_1, lance_encoding::version::LanceFileVersion::V2_2] {
            let md: std::collections::HashMap<String, String> = [("lance-encoding:structural-encoding".to_string(), "fullzip".to_string())].into_iter().collect();
            let schema = Arc::new(arrow_schema::Schema::new(vec![arrow_schema::Field::new("col", arrow_schema::DataType::Boolean, true).with_metadata(md)]));
            let batches = vec![RecordBatch::try_new(schema.clone(), vec![Arc::new(arr.clone())]).unwrap()];
            let out = crate::quiet::run_attributed(|| rt.block_on(async {
                let f = crate::fileio::write_file(&batches, schema.clone(), version, None, "probe6").await?;
                let r = crate::fileio::open(&f).await?;
                crate::fileio::read_all(&r, 4096).await
            }));
            println!("fullzip-bool {version} {name}: {}", match out { Ok(b) => format!("ok {} rows", b.iter().map(|x| x.num_rows()).sum::<usize>()), Err(e) => format!("FAILED {e}") });
        }
    }
    0
}
