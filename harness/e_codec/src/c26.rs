//! C26 — every compression codec is lossless (+ mini-block chunk invariants).
//!
//! Part A drives the public traits directly: DefaultCompressionStrategy::{create_miniblock_compressor,
//! create_per_value, create_block_compressor} with field metadata forcing each codec, then
//! DefaultDecompressionStrategy built from the *returned* CompressiveEncoding; oracle
//! decompress(compress(block)) == block on a canonical rows-of-bytes view of the DataBlock, plus the
//! documented mini-block chunk invariants. Part B covers what is only reachable through the
//! structural encoders (dictionary, constant, packed struct, nullable / empty pages) with whole-file
//! round trips through lance-file 2.1 / 2.2 and records which encodings the pages really used.
//! Part C: byte-pack helper round trip.
use crate::fileio;
use crate::k26::*;
use crate::prng::{fnv, Rng};
use arrow_array::*;
use arrow_buffer::NullBuffer;
use arrow_schema::{DataType, Field as ArrowField, Schema};
use lance_encoding::utils::bytepack::{BytepackedIntegerEncoder, ByteUnpacker};
use lance_encoding::version::LanceFileVersion;
use serde_json::json;
use std::collections::BTreeSet;
use std::sync::atomic::{AtomicU64, Ordering};
use std::sync::Arc;
use vmon::report::{Args, Report};
use vmon::table::{cell_at, Cell};

// ---------------------------------------------------------------------------------------------
// Part B: whole-file round trips (dictionary, constant, packed struct, nulls, empty pages ...)
// ---------------------------------------------------------------------------------------------

fn with_nulls(arr: ArrayRef, rng: &mut Rng) -> ArrayRef {
    let n = arr.len();
    let mode = rng.below(4);
    if mode == 0 || n == 0 {
        return arr;
    }
    let valid: Vec<bool> = (0..n).map(|_| match mode { 1 => !rng.chance(1, 10), 2 => rng.bool(), _ => false }).collect();
    let data = arr.to_data().into_builder().nulls(Some(NullBuffer::from(valid))).build();
    match data {
        Ok(d) => make_array(d),
        Err(_) => arr,
    }
}

fn low_card_strings(rng: &mut Rng, n: usize) -> ArrayRef {
    let k = rng.urange(1, 20);
    let vals: Vec<String> = (0..k).map(|i| format!("value-{i}-{}", "x".repeat(rng.urange(0, 30)))).collect();
    Arc::new(StringArray::from((0..n).map(|_| vals[rng.usize_below(k)].clone()).collect::<Vec<_>>()))
}

fn type_family(dt: &DataType) -> &'static str {
    match dt {
        DataType::Boolean => "bool",
        DataType::Utf8 | DataType::LargeUtf8 | DataType::Binary | DataType::LargeBinary => "var",
        DataType::Struct(_) => "struct",
        DataType::FixedSizeList(_, _) => "fsl",
        _ => "fixed",
    }
}

fn file_case(report: &Report, rt: &tokio::runtime::Runtime, seed: u64, i: u64, codecs: &std::sync::Mutex<BTreeSet<String>>) {
    let mut rng = Rng::for_case(seed, (11u64 << 40) + i);
    let kind = *rng.pick(&["dict", "constant", "packed", "packed_var", "int", "float", "var", "fsl", "bool", "empty", "dict_int", "all_null"]);
    let n = if kind == "empty" { 0 } else { *rng.pick(&[1usize, 5, 100, 1024, 5000, 20_000]) };
    let version = if kind == "packed_var" || rng.chance(1, 3) { LanceFileVersion::V2_2 } else { LanceFileVersion::V2_1 };
    let mut meta = gen_metadata(&mut rng, kind, true);
    let (arr, pattern): (ArrayRef, String) = match kind {
        "dict" => (low_card_strings(&mut rng, n), "low-cardinality utf8".into()),
        "dict_int" => {
            let c: Vec<i64> = (0..rng.urange(1, 30)).map(|_| rng.next_u64() as i64).collect();
            (Arc::new(Int64Array::from((0..n).map(|_| *rng.pick(&c)).collect::<Vec<_>>())), "low-cardinality int64".into())
        }
        "constant" => {
            if rng.bool() {
                (Arc::new(Int32Array::from(vec![rng.next_u32() as i32; n])), "constant int32".into())
            } else {
                (Arc::new(StringArray::from(vec!["same"; n])), "constant utf8".into())
            }
        }
        "packed" => {
            meta.insert("lance-encoding:packed".into(), "true".into());
            let g = gen_array(&mut rng, "struct_fixed", n);
            (g.array, g.pattern)
        }
        "packed_var" => {
            meta.insert("lance-encoding:packed".into(), "true".into());
            let g = gen_array(&mut rng, "struct_var", n);
            (g.array, g.pattern)
        }
        "all_null" => (arrow_array::new_null_array(rng.pick(&[DataType::Int32, DataType::Utf8, DataType::Float64]), n), "all null".into()),
        "empty" => (arrow_array::new_empty_array(rng.pick(&[DataType::Int32, DataType::Utf8, DataType::Float64])), "empty".into()),
        k => {
            let g = gen_array(&mut rng, match k { "int" => "int", "float" => "float", "var" => "var", "fsl" => "fsl", _ => "bool" }, n.max(1));
            (g.array, g.pattern)
        }
    };
    if rng.bool() {
        // forcing mini-block on a 5-70 KB value is a configuration lance cannot honour (panics in the page writer)
        let choices: &[&str] = if pattern.ends_with("one_big") { &["fullzip"] } else { &["miniblock", "fullzip"] };
        meta.insert("lance-encoding:structural-encoding".into(), rng.pick(choices).to_string());
    }
    let arr = if matches!(kind, "packed" | "packed_var" | "empty" | "all_null") { arr } else { with_nulls(arr, &mut rng) };
    // optionally slice the input (non-zero offset arrays)
    let arr = if arr.len() > 3 && rng.chance(1, 3) { let a = rng.urange(1, arr.len() / 2); arr.slice(a, arr.len() - a - rng.usize_below(2)) } else { arr };
    let field = ArrowField::new("c", arr.data_type().clone(), true).with_metadata(meta.clone());
    let schema = Arc::new(Schema::new(vec![field]));
    // split into 1..3 batches
    let nb = rng.urange(1, 3);
    let mut batches = vec![];
    let mut pos = 0;
    for b in 0..nb {
        let len = if b + 1 == nb { arr.len() - pos } else { rng.urange(0, arr.len() - pos) };
        if len == 0 && !(arr.is_empty() && b == 0) {
            continue;
        }
        batches.push(RecordBatch::try_new(schema.clone(), vec![arr.slice(pos, len)]).unwrap());
        pos += len;
    }
    if std::env::var("VERIF_C26_DEBUG").is_ok() {
        eprintln!("DEBUG kind {kind} version {version} meta {meta:?} batches {:?}", batches.iter().map(|b| format!("{} rows, nulls {:?}, offset {}", b.num_rows(), b.column(0).nulls().map(|n| (n.len(), n.null_count(), n.offset())), b.column(0).to_data().offset())).collect::<Vec<_>>());
        eprintln!("DEBUG array {:?}", arr);
    }
    let expected: Vec<Cell> = (0..arr.len()).map(|j| cell_at(arr.as_ref(), j)).collect();
    let ctx = json!({"engine":"file","seed":seed,"case":i,"kind":kind,"pattern":pattern,"rows":arr.len(),"version":format!("{version}"),"metadata":meta});
    let res: Result<(Vec<Vec<String>>, Vec<Cell>), String> = crate::quiet::run_attributed(|| {
        rt.block_on(async {
            let f = fileio::write_file(&batches, schema.clone(), version, None, &format!("c26-{i}")).await?;
            let r = fileio::open(&f).await?;
            let enc = fileio::page_encodings(&r);
            let all = fileio::read_all(&r, 4096).await?;
            Ok((enc, all.iter().flat_map(|b| (0..b.num_rows()).map(|j| cell_at(b.column(0).as_ref(), j)).collect::<Vec<_>>()).collect()))
        })
    });
    match res {
        Err(e) => {
            report.case(None);
            if e.contains("(not reproduced when re-run alone)") {
                report.count("file_failures_not_reproduced_alone", 1);
                report.inconclusive(&format!("C26 file case {i}: {e}"));
            } else if unsupported_msg(&e) || e.contains("write_batch") && arr.is_empty() || e.contains("finish") && arr.is_empty() {
                report.rejected();
                report.count("file_rejected", 1);
            } else {
                let mut c = ctx.clone();
                c["error"] = json!(e);
                let forced = meta.get("lance-encoding:structural-encoding").cloned().unwrap_or_else(|| "default".into());
                // precondition of a known defect: a batch carries a validity buffer that has no nulls (e.g. a slice
                // of an array whose nulls are elsewhere) and the page is written full-zip
                let all_valid_buffer = batches.iter().any(|b| b.column(0).nulls().map(|n| n.null_count() == 0).unwrap_or(false));
                let cls = crate::quiet::failure_class(&e);
                let sig = if all_valid_buffer && (cls == "panic-repdef.rs-called-option-unwrap-on-a-none-value" || cls.starts_with("panic-primitive.rs-range-")) {
                    "file-error-fullzip-validity-buffer-without-nulls-panic".to_string()
                } else {
                    format!("file-error-{cls}-{forced}-{}", type_family(arr.data_type()))
                };
                c["validity_buffer_without_nulls"] = json!(all_valid_buffer);
                report.violation(&sig, "lance-file write / read of an accepted column failed", c);
            }
        }
        Ok((enc, got)) => {
            let chain: Vec<String> = enc.iter().flatten().map(|d| codec_chain(d)).collect();
            let mut set = codecs.lock().unwrap();
            for d in enc.iter().flatten() {
                for name in ["Dictionary", "Constant", "PackedStruct", "VariablePackedStruct", "Rle", "InlineBitpacking", "OutOfLineBitpacking", "Fsst", "General", "ByteStreamSplit", "MiniBlockLayout", "FullZipLayout", "AllNullLayout", "ConstantLayout", "BlobLayout"] {
                    if d.contains(&format!("{name}(")) || d.contains(&format!("{name} {{")) {
                        set.insert(format!("file:{name}"));
                    }
                }
            }
            drop(set);
            report.count("file_round_trips", 1);
            report.count("file_values_compared", expected.len() as u64);
            if got != expected {
                let pos = got.iter().zip(expected.iter()).position(|(a, b)| a != b).unwrap_or(got.len().min(expected.len()));
                let mut c = ctx.clone();
                c["first_bad_row"] = json!(pos);
                c["expected"] = json!(expected.get(pos).map(|c| c.render()));
                c["got"] = json!(got.get(pos).map(|c| c.render()));
                c["n_got"] = json!(got.len());
                c["encodings"] = json!(chain);
                let cls = if got.len() != expected.len() { "row-count" } else { "values" };
                report.case(None);
                report.violation(&format!("file-roundtrip-{cls}-{kind}-{}", chain.first().cloned().unwrap_or_default()), "column read back from a lance file differs from what was written", c);
            } else {
                let nt = arr.len() > 1;
                report.case(if nt { Some(fnv(format!("file|{kind}|{pattern}|{:?}|{}|{:?}", chain, (arr.len() as f64).log2() as u32, meta.get("lance-encoding:compression")).as_bytes())) } else { None });
            }
        }
    }
}

// ---------------------------------------------------------------------------------------------

fn bytepack_part(report: &Report, seed: u64) {
    let mut rng = Rng::for_case(seed, 12u64 << 40);
    for case in 0..400u64 {
        let maxv = match case % 9 {
            0 => 0,
            1 => 255,
            2 => 256,
            3 => 65535,
            4 => 65536,
            5 => u32::MAX as u64,
            6 => u32::MAX as u64 + 1,
            7 => u64::MAX,
            _ => rng.next_u64() >> rng.below(64),
        };
        let n = rng.urange(0, 300);
        let vals: Vec<u64> = (0..n).map(|i| if i == 0 { maxv } else if maxv == u64::MAX { rng.next_u64() } else { rng.below(maxv + 1) }).collect();
        let mut e = BytepackedIntegerEncoder::with_capacity(n, maxv);
        for v in &vals {
            unsafe { e.append(*v) };
        }
        let width = match &e {
            BytepackedIntegerEncoder::Zero => 0,
            BytepackedIntegerEncoder::U8(_) => 1,
            BytepackedIntegerEncoder::U16(_) => 2,
            BytepackedIntegerEncoder::U32(_) => 4,
            BytepackedIntegerEncoder::U64(_) => 8,
        };
        let data = e.into_data();
        let got: Vec<u64> = if width == 0 { vec![0; n] } else { ByteUnpacker::new(data.clone(), width).collect() };
        report.case(if n > 1 && width > 0 { Some(fnv(format!("bytepack|{width}|{}", case % 9).as_bytes())) } else { None });
        report.count("bytepack_values", n as u64);
        if data.len() != n * width || got != vals {
            report.violation(&format!("bytepack-roundtrip-w{width}"), "byte-pack round trip changed the values", json!({"engine":"bytepack","seed":seed,"case":case,"max":maxv,"n":n}));
        }
    }
}

fn selftest(args: &Args) -> i32 {
    let mut fired = 0;
    let mut total = 0;
    for i in 0..300u64 {
        let (_c, _p, _m, clean) = run_direct_case(args.seed, i, false, true);
        // general-purpose (LZ4 / ZSTD) frames carry lengths: a flipped bit there makes the decompressor try to
        // allocate terabytes (process abort) — corruption robustness is not the property, skip those chains
        if !matches!(&clean, Outcome::Ok { bytes_out, chain, .. } if *bytes_out > 0 && !chain.contains("General") && !chain.contains('[')) {
            continue;
        }
        total += 1;
        let (c, p, _m, out) = run_direct_case(args.seed, i, true, true);
        if matches!(out, Outcome::Failed(_)) {
            fired += 1;
        } else if total < 40 {
            eprintln!("selftest: bit flip not detected: case {i} {} {} {p}", c.path, c.class);
        }
    }
    println!("SELFTEST C26 single-bit corruption of the compressed form detected in {fired} of {total} cases (flips in padding / unused bits are legitimately invisible)");
    if total > 50 && fired * 10 >= total * 7 { 0 } else { 2 }
}

pub fn run(args: &Args) -> i32 {
    if args.extra.contains_key("selftest") {
        return selftest(args);
    }
    let report = Report::new(
        args,
        "exploration",
        "A: random non-null data blocks (ints of every width with bit-width-k / boundary 2^k+-1 / all-equal / runs crossing 255 / extreme patterns, floats incl. raw bit patterns, bool, 128/256-bit and odd fixed widths, utf8/binary with i32/i64 offsets, fixed-size lists, structs) x 1..20000 values incl. 1023-1025/4095-4097 x random forcing metadata (compression none/lz4/zstd/fsst + level, rle-threshold, bss) x {mini-block, per-value, block} compressor of DefaultCompressionStrategy (2.1/2.2), decompressed by DefaultDecompressionStrategy from the returned description, whole and (per-value) random sub-range; mini-block chunk invariants checked. B: lance-file 2.1/2.2 round trips of nullable / sliced / multi-batch columns (dictionary, constant, packed struct, all-null, empty). C: byte-pack. Non-trivial iff the codec accepted the block and produced output; distinct by (path, codec chain, data pattern, log2 size).",
        (60, 900),
    )
    .with_min_nontrivial(100);
    report.assume("mini-block / per-value / block compressors receive validity-free blocks (the structural encoder strips validity into rep/def first); nullable data is covered by the whole-file part");
    report.assume("dictionary, constant and all-null layouts are chosen inside the private structural encoder and are therefore exercised through lance-file round trips, not through the compressor traits");

    if let Some(path) = &args.replay {
        if std::env::var("VERIF_EVIDENCE_OUT").is_err() {
            std::env::set_var("VERIF_EVIDENCE_OUT", format!("{}/work/replay-evidence-C26.json", vmon::report::verif_root()));
        }
        let v: serde_json::Value = std::fs::read_to_string(path).ok().and_then(|t| serde_json::from_str(&t).ok()).unwrap_or_default();
        let w = &v["witness"];
        if w["engine"] == "direct" {
            let (_c, _p, _m, out) = run_direct_case(w["seed"].as_u64().unwrap_or(1), w["case"].as_u64().unwrap_or(0), false, true);
            return match out {
                Outcome::Failed(f) => {
                    println!("REPLAY C26: still fails: {} {}", f.sig, f.detail);
                    1
                }
                _ => {
                    println!("REPLAY C26: case passes");
                    0
                }
            };
        }
        report.harness_error("replay supports engine=direct witnesses (file cases: rerun with the same seed)");
        return report.finish();
    }

    if let Some(c) = args.extra.get("filecase").and_then(|c| c.parse::<u64>().ok()) {
        std::env::set_var("VERIF_EVIDENCE_OUT", format!("{}/work/case-evidence-C26.json", vmon::report::verif_root()));
        std::env::set_var("VERIF_C26_DEBUG", "1");
        let codecs: std::sync::Mutex<BTreeSet<String>> = Default::default();
        file_case(&report, &fileio::runtime(), args.seed, c, &codecs);
        return report.finish();
    }
    let threads = crate::quiet::threads();
    let codecs: std::sync::Mutex<BTreeSet<String>> = Default::default();
    let rejected_msgs: std::sync::Mutex<BTreeSet<String>> = Default::default();
    let n_direct: u64 = args.tier.pick(9000, 400_000);
    let direct_deadline = report.budget_s() as f64 * 0.5;
    let next = AtomicU64::new(0);
    std::thread::scope(|s| {
        for _ in 0..threads {
            s.spawn(|| loop {
                let i = next.fetch_add(1, Ordering::Relaxed);
                if i >= n_direct || report.elapsed_s() > direct_deadline {
                    break;
                }
                let (case, pattern, meta, out) = match crate::quiet::catch(|| run_direct_case(args.seed, i, false, true)) {
                    Ok(x) => x,
                    Err((m, l)) => {
                        report.harness_error(&format!("C26 direct case {i}: unexpected panic outside the guarded calls at {l}: {m}"));
                        continue;
                    }
                };
                match out {
                    Outcome::Ok { chain, chunks, bytes_in, bytes_out } => {
                        report.count(&format!("direct_{}_ok", case.path), 1);
                        report.count("direct_values_compared", case.n as u64);
                        report.count("direct_bytes_in", bytes_in);
                        report.count("direct_bytes_out", bytes_out);
                        report.count("miniblock_chunks_checked", chunks as u64);
                        codecs.lock().unwrap().insert(format!("{}:{}", case.path, chain));
                        let pat_class = pattern.split('/').next_back().unwrap_or("").to_string();
                        report.case(Some(fnv(format!("{}|{}|{}|{}|{}", case.path, chain, case.class, pat_class, (case.n as f64).log2() as u32).as_bytes())));
                        if i < 8 {
                            report.sample(json!({"direct": {"case": i, "path": case.path, "data": pattern, "values": case.n, "metadata": meta, "codec_chain": chain, "chunks": chunks, "bytes_in": bytes_in, "bytes_out": bytes_out}}));
                        }
                    }
                    Outcome::Rejected(m) => {
                        report.rejected();
                        report.case(None);
                        report.count(&format!("direct_{}_rejected", case.path), 1);
                        let mut g = rejected_msgs.lock().unwrap();
                        if g.len() < 12 {
                            g.insert(format!("{}/{}: {}", case.path, case.class, m.chars().take(140).collect::<String>()));
                        }
                    }
                    Outcome::Failed(f) => {
                        report.case(None);
                        report.violation(&f.sig, &f.what, json!({"engine":"direct","seed":args.seed,"case":i,"path":case.path,"class":case.class,"data":pattern,"values":case.n,"version":format!("{}", case.version),"metadata":meta,"detail":f.detail}));
                    }
                }
            });
        }
    });
    bytepack_part(&report, args.seed);
    let n_files: u64 = args.tier.pick(500, 20_000);
    let next = AtomicU64::new(0);
    std::thread::scope(|s| {
        for _ in 0..threads {
            s.spawn(|| {
                let rt = fileio::runtime();
                loop {
                    let i = next.fetch_add(1, Ordering::Relaxed);
                    if i >= n_files || !report.time_left() {
                        break;
                    }
                    file_case(&report, &rt, args.seed, i, &codecs);
                }
            });
        }
    });
    report.set("codec_chains_observed", json!(codecs.lock().unwrap().iter().cloned().collect::<Vec<_>>()));
    report.set("rejected_examples", json!(rejected_msgs.lock().unwrap().iter().cloned().collect::<Vec<_>>()));
    report.finish()
}
