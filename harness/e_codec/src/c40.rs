//! C40 — Arrow helper transformations preserve logical values and validity.
//!
//! Oracle: straightforward models over `vmon::table::cell_at` logical cells for deep copy, take,
//! projection, merge / merge_with_schema, list trimming / garbage-null filtering, struct slicing /
//! null push-down, and JSON <-> JSONB conversion + path extraction against serde_json.
use crate::prng::{fnv, Rng};
use arrow_array::*;
use arrow_buffer::{BooleanBuffer, NullBuffer, OffsetBuffer, ScalarBuffer};
use arrow_data::ArrayDataBuilder;
use arrow_schema::{DataType, Field, Fields, Schema};
use lance_arrow::deepcopy::{deep_copy_array, deep_copy_array_sliced, deep_copy_batch, deep_copy_batch_sliced, deep_copy_nulls};
use lance_arrow::json::{decode_json, encode_json, JsonArray};
use lance_arrow::list::ListArrayExt;
use lance_arrow::r#struct::StructArrayExt;
use lance_arrow::RecordBatchExt;
use serde_json::{json, Value};
use std::panic::{catch_unwind, AssertUnwindSafe};
use std::sync::atomic::{AtomicU64, Ordering};
use std::sync::Arc;
use vmon::report::{Args, Report};
use vmon::table::{cell_at, Cell};

// ---------------------------------------------------------------------------------------------
// generators
// ---------------------------------------------------------------------------------------------

fn gen_type(rng: &mut Rng, depth: usize) -> DataType {
    let leaf = depth == 0 || rng.chance(2, 5);
    if leaf {
        return rng.pick(&[DataType::Int32, DataType::Int64, DataType::Float64, DataType::Utf8, DataType::Boolean, DataType::LargeUtf8, DataType::UInt8]).clone();
    }
    match rng.below(4) {
        0 => {
            let k = rng.urange(1, 3);
            DataType::Struct((0..k).map(|i| Field::new(format!("f{i}"), gen_type(rng, depth - 1), true)).collect::<Vec<_>>().into())
        }
        1 => DataType::List(Arc::new(Field::new("item", gen_type(rng, depth - 1), true))),
        2 => DataType::LargeList(Arc::new(Field::new("item", gen_type(rng, depth - 1), true))),
        _ => DataType::FixedSizeList(Arc::new(Field::new("item", gen_type(rng, depth - 1), true)), rng.range(1, 3) as i32),
    }
}

fn gen_validity(rng: &mut Rng, n: usize) -> Option<NullBuffer> {
    match rng.below(4) {
        0 => None,
        1 => Some(NullBuffer::new(BooleanBuffer::from((0..n).map(|_| !rng.chance(1, 8)).collect::<Vec<_>>()))),
        2 => Some(NullBuffer::new(BooleanBuffer::from((0..n).map(|_| rng.bool()).collect::<Vec<_>>()))),
        _ => Some(NullBuffer::new(BooleanBuffer::from(vec![true; n]))),
    }
}

/// random array of `dt` with nulls at every level; lists may keep garbage behind nulls and offsets that
/// neither start at 0 nor cover the whole child
fn gen_array(rng: &mut Rng, dt: &DataType, n: usize, counter: &mut i64, plain: bool) -> ArrayRef {
    let nulls = gen_validity(rng, n);
    match dt {
        DataType::Int32 => Arc::new(Int32Array::new((0..n).map(|_| { *counter += 1; *counter as i32 }).collect::<Vec<_>>().into(), nulls)),
        DataType::Int64 => Arc::new(Int64Array::new((0..n).map(|_| { *counter += 1; *counter * 1_000_003 }).collect::<Vec<_>>().into(), nulls)),
        DataType::UInt8 => Arc::new(UInt8Array::new((0..n).map(|_| rng.next_u32() as u8).collect::<Vec<_>>().into(), nulls)),
        DataType::Float64 => Arc::new(Float64Array::new((0..n).map(|_| { *counter += 1; *counter as f64 * 0.5 }).collect::<Vec<_>>().into(), nulls)),
        DataType::Boolean => Arc::new(BooleanArray::new(BooleanBuffer::from((0..n).map(|_| rng.bool()).collect::<Vec<_>>()), nulls)),
        DataType::Utf8 => {
            let v: Vec<String> = (0..n).map(|_| { *counter += 1; format!("s{}{}", counter, "é".repeat(rng.usize_below(3))) }).collect();
            let a = StringArray::from(v);
            Arc::new(StringArray::new(a.offsets().clone(), a.values().clone(), nulls))
        }
        DataType::LargeUtf8 => {
            let v: Vec<String> = (0..n).map(|_| { *counter += 1; format!("L{counter}") }).collect();
            let a = LargeStringArray::from(v);
            Arc::new(LargeStringArray::new(a.offsets().clone(), a.values().clone(), nulls))
        }
        DataType::Struct(fields) => {
            let cols: Vec<ArrayRef> = fields.iter().map(|f| gen_array(rng, f.data_type(), n, counter, plain)).collect();
            Arc::new(StructArray::new(fields.clone(), cols, nulls))
        }
        DataType::FixedSizeList(f, d) => {
            let child = gen_array(rng, f.data_type(), n * *d as usize, counter, plain);
            Arc::new(FixedSizeListArray::new(f.clone(), *d, child, nulls))
        }
        DataType::List(f) | DataType::LargeList(f) => {
            let lead = if !plain && rng.chance(1, 3) { rng.urange(1, 4) } else { 0 };
            let trail = if !plain && rng.chance(1, 3) { rng.urange(1, 4) } else { 0 };
            let mut offs = vec![lead as i64];
            for i in 0..n {
                let is_null = nulls.as_ref().map(|v| v.is_null(i)).unwrap_or(false);
                let len = if is_null { if rng.bool() { 0 } else { rng.urange(1, 3) } } else { rng.urange(0, 4) };
                offs.push(offs.last().unwrap() + len as i64);
            }
            let total = *offs.last().unwrap() as usize + trail;
            let child = gen_array(rng, f.data_type(), total, counter, plain);
            if matches!(dt, DataType::List(_)) {
                Arc::new(ListArray::new(f.clone(), OffsetBuffer::new(ScalarBuffer::from(offs.iter().map(|x| *x as i32).collect::<Vec<_>>())), child, nulls))
            } else {
                Arc::new(LargeListArray::new(f.clone(), OffsetBuffer::new(ScalarBuffer::from(offs)), child, nulls))
            }
        }
        _ => unreachable!(),
    }
}

fn maybe_slice(rng: &mut Rng, a: ArrayRef) -> ArrayRef {
    if a.len() > 2 && rng.bool() {
        let off = rng.urange(0, a.len() / 2);
        let len = rng.urange(0, a.len() - off);
        a.slice(off, len)
    } else {
        a
    }
}

fn cells(a: &dyn Array) -> Vec<Cell> {
    (0..a.len()).map(|i| cell_at(a, i)).collect()
}

fn batch_cells(b: &RecordBatch) -> Vec<Vec<(String, Cell)>> {
    (0..b.num_rows())
        .map(|i| b.schema().fields().iter().zip(b.columns()).map(|(f, c)| (f.name().clone(), cell_at(c.as_ref(), i))).collect())
        .collect()
}

struct Ctx<'a> {
    report: &'a Report,
    seed: u64,
    case: u64,
}

impl Ctx<'_> {
    fn bad(&self, sig: &str, what: &str, detail: Value) {
        self.report.violation(sig, what, json!({"seed": self.seed, "case": self.case, "detail": detail}));
    }
    fn guard<R>(&self, helper: &str, f: impl FnOnce() -> R) -> Option<R> {
        match catch_unwind(AssertUnwindSafe(f)) {
            Ok(r) => Some(r),
            Err(p) => {
                let m = p.downcast_ref::<String>().cloned().or_else(|| p.downcast_ref::<&str>().map(|s| s.to_string())).unwrap_or_default();
                self.bad(&format!("{helper}-panic"), "helper panicked on a valid input", json!({"panic": m}));
                None
            }
        }
    }
}

fn first_diff(a: &[Cell], b: &[Cell]) -> Value {
    if a.len() != b.len() {
        return json!({"expected_len": a.len(), "got_len": b.len()});
    }
    for (i, (x, y)) in a.iter().zip(b.iter()).enumerate() {
        if x != y {
            return json!({"row": i, "expected": x.render(), "got": y.render()});
        }
    }
    json!("identical")
}

// ---------------------------------------------------------------------------------------------
// individual helper checks
// ---------------------------------------------------------------------------------------------

/// some ArrayData in the tree has a non-zero `offset` (in arrow-rs only bit-packed arrays keep one after
/// slicing; FFI / arrow-cpp data can have one anywhere)
fn arraydata_offset(a: &dyn Array) -> bool {
    fn go(d: &arrow_data::ArrayData) -> bool {
        d.offset() != 0 || d.child_data().iter().any(go)
    }
    go(&a.to_data())
}

fn check_deepcopy(cx: &Ctx, rng: &mut Rng, arr: &ArrayRef, corrupt: bool) {
    let want = cells(arr.as_ref());
    for (name, f) in [("deep_copy_array", deep_copy_array as fn(&dyn Array) -> ArrayRef), ("deep_copy_array_sliced", deep_copy_array_sliced)] {
        let gname = if name == "deep_copy_array_sliced" && arraydata_offset(arr.as_ref()) { "deep_copy_array_sliced-nonzero-arraydata-offset" } else { name };
        if let Some(out) = cx.guard(gname, || f(arr.as_ref())) {
            let out = if corrupt && out.len() > 1 { out.slice(1, out.len() - 1) } else { out };
            let got = cells(out.as_ref());
            if out.data_type() != arr.data_type() || got != want {
                let cls = if name == "deep_copy_array_sliced" && arraydata_offset(arr.as_ref()) { "nonzero-arraydata-offset".to_string() } else { type_class(arr.data_type()) };
                cx.bad(&format!("{name}-values-{cls}"), "deep copy changed logical values / validity", json!({"type": format!("{}", arr.data_type()), "offset": arr.offset(), "diff": first_diff(&want, &got)}));
            } else {
                cx.report.count("deep_copies_compared", 1);
            }
        }
    }
    if let Some(n) = arr.nulls() {
        let c = deep_copy_nulls(Some(n));
        let same = c.as_ref().map(|c| c.len() == n.len() && (0..n.len()).all(|i| c.is_valid(i) == n.is_valid(i))).unwrap_or(false);
        if !same {
            cx.bad("deep_copy_nulls-values", "deep_copy_nulls changed validity", json!({"offset": n.offset(), "len": n.len()}));
        }
    }
    let _ = rng;
}

/// true iff the array (or a nested child) is physically offset: ArrayData offset, validity bit offset
/// or list offsets that do not start at 0
fn has_offset(a: &dyn Array) -> bool {
    let d = a.to_data();
    if d.offset() != 0 || a.nulls().map(|n| n.offset() != 0).unwrap_or(false) {
        return true;
    }
    match a.data_type() {
        DataType::Struct(_) => a.as_any().downcast_ref::<StructArray>().unwrap().columns().iter().any(|c| has_offset(c.as_ref())),
        DataType::List(_) => {
            let l = a.as_any().downcast_ref::<ListArray>().unwrap();
            l.offsets()[0] != 0 || has_offset(l.values().as_ref())
        }
        DataType::LargeList(_) => {
            let l = a.as_any().downcast_ref::<LargeListArray>().unwrap();
            l.offsets()[0] != 0 || has_offset(l.values().as_ref())
        }
        DataType::FixedSizeList(_, _) => has_offset(a.as_any().downcast_ref::<FixedSizeListArray>().unwrap().values().as_ref()),
        _ => false,
    }
}

/// true iff some struct array (at any depth) is non-empty and entirely null: lance-arrow documents
/// such structs as "placeholders" whose validity is dropped by merge
fn has_all_null_struct(a: &dyn Array) -> bool {
    // looks only at the *referenced* child ranges (merge works on trimmed values)
    if a.len() > 0 && a.null_count() == a.len() && matches!(a.data_type(), DataType::Struct(_) | DataType::List(_) | DataType::LargeList(_) | DataType::FixedSizeList(_, _)) {
        return true;
    }
    match a.data_type() {
        DataType::Struct(_) => a.as_any().downcast_ref::<StructArray>().unwrap().columns().iter().any(|c| has_all_null_struct(c.as_ref())),
        DataType::List(_) => {
            let l = a.as_any().downcast_ref::<ListArray>().unwrap();
            let (x, y) = (l.offsets()[0] as usize, l.offsets()[l.len()] as usize);
            has_all_null_struct(l.values().slice(x, y - x).as_ref())
        }
        DataType::LargeList(_) => {
            let l = a.as_any().downcast_ref::<LargeListArray>().unwrap();
            let (x, y) = (l.offsets()[0] as usize, l.offsets()[l.len()] as usize);
            has_all_null_struct(l.values().slice(x, y - x).as_ref())
        }
        DataType::FixedSizeList(_, _) => has_all_null_struct(a.as_any().downcast_ref::<FixedSizeListArray>().unwrap().values().as_ref()),
        _ => false,
    }
}

fn type_class(dt: &DataType) -> String {
    match dt {
        DataType::Struct(_) => "struct".into(),
        DataType::List(f) => format!("list<{}>", type_class(f.data_type())),
        DataType::LargeList(f) => format!("largelist<{}>", type_class(f.data_type())),
        DataType::FixedSizeList(f, _) => format!("fsl<{}>", type_class(f.data_type())),
        DataType::Utf8 | DataType::LargeUtf8 => "utf8".into(),
        DataType::Boolean => "bool".into(),
        _ => "prim".into(),
    }
}

fn check_list_helpers(cx: &Ctx, arr: &ArrayRef, corrupt: bool) {
    fn go<O: OffsetSizeTrait>(cx: &Ctx, l: &GenericListArray<O>, corrupt: bool) {
        let want = cells(l);
        // trimmed_values: exactly the child rows referenced by [first offset, last offset)
        if let Some(t) = cx.guard("trimmed_values", || l.trimmed_values()) {
            let a = l.offsets().first().map(|x| x.as_usize()).unwrap_or(0);
            let b = l.offsets().last().map(|x| x.as_usize()).unwrap_or(0);
            let model: Vec<Cell> = (a..b).map(|i| cell_at(l.values().as_ref(), i)).collect();
            let got = cells(t.as_ref());
            if got != model {
                cx.bad("trimmed_values-values", "trimmed_values is not the child range [first offset, last offset)", json!({"first": a, "last": b, "child_len": l.values().len(), "diff": first_diff(&model, &got)}));
            } else {
                cx.report.count("trimmed_values_compared", 1);
            }
        }
        if let Some(f) = cx.guard("filter_garbage_nulls", || l.filter_garbage_nulls()) {
            let f = if corrupt && f.len() > 1 { f.slice(1, f.len() - 1) } else { f };
            let got = cells(&f);
            if got != want {
                cx.bad("filter_garbage_nulls-values", "filter_garbage_nulls changed the logical lists", json!({"diff": first_diff(&want, &got)}));
                return;
            }
            // documented: "The output list will always have zero-length nulls"
            let garbage = (0..f.len()).any(|i| f.is_null(i) && f.value_length(i) != O::zero());
            if garbage {
                cx.bad("filter_garbage_nulls-nonzero-null", "filter_garbage_nulls left a null list with non-zero length", json!({}));
                return;
            }
            // and then the trimmed values are exactly the items of the valid lists, in order
            if let Some(t) = cx.guard("trimmed_values", || f.trimmed_values()) {
                let mut model = vec![];
                for i in 0..l.len() {
                    if l.is_valid(i) {
                        let v = l.value(i);
                        model.extend(cells(v.as_ref()));
                    }
                }
                let got = cells(t.as_ref());
                if got != model {
                    cx.bad("filter_garbage_nulls-trimmed-values", "items after garbage filtering + trimming are not the items of the valid lists", json!({"diff": first_diff(&model, &got)}));
                } else {
                    cx.report.count("garbage_filtered_lists_compared", 1);
                }
            }
        }
    }
    match arr.data_type() {
        DataType::List(_) => go::<i32>(cx, arr.as_any().downcast_ref::<ListArray>().unwrap(), corrupt),
        DataType::LargeList(_) => go::<i64>(cx, arr.as_any().downcast_ref::<LargeListArray>().unwrap(), corrupt),
        _ => {}
    }
}

fn check_struct_helpers(cx: &Ctx, rng: &mut Rng, arr: &ArrayRef) {
    let DataType::Struct(_) = arr.data_type() else { return };
    let s = arr.as_any().downcast_ref::<StructArray>().unwrap();
    let want = cells(s);
    if let Some(Ok(p)) = cx.guard("pushdown_nulls", || s.pushdown_nulls()) {
        let got = cells(&p);
        if got != want {
            cx.bad("pushdown_nulls-values", "pushdown_nulls changed logical values", json!({"diff": first_diff(&want, &got)}));
        } else {
            // every child is null wherever the struct is null
            let ok = (0..p.len()).all(|i| p.is_valid(i) || p.columns().iter().all(|c| c.is_null(i) || c.data_type() == &DataType::Null));
            if !ok {
                cx.bad("pushdown_nulls-not-pushed", "a child is valid under a null struct after pushdown_nulls", json!({}));
            } else {
                cx.report.count("struct_pushdowns_compared", 1);
            }
        }
    }
    // arrow-cpp style slicing: offset on the struct, children unsliced
    if s.len() > 2 {
        let off = rng.urange(1, s.len() / 2);
        let len = rng.urange(0, s.len() - off);
        let data = s.to_data();
        let built = ArrayDataBuilder::new(data.data_type().clone())
            .len(len)
            .offset(off)
            .nulls(s.nulls().map(|n| n.slice(0, n.len())))
            .child_data(data.child_data().to_vec())
            .build();
        // note: nulls() given to the builder are taken relative to offset 0 by arrow; rebuild explicitly
        let built = match built {
            Ok(_) => ArrayDataBuilder::new(data.data_type().clone())
                .len(len)
                .offset(off)
                .null_bit_buffer(s.nulls().map(|n| {
                    let bools: Vec<bool> = (0..n.len()).map(|i| n.is_valid(i)).collect();
                    BooleanBuffer::from(bools).into_inner()
                }))
                .child_data(data.child_data().to_vec())
                .build(),
            Err(e) => Err(e),
        };
        if let Some(cpp) = built.ok().and_then(|d| crate::quiet::catch(|| StructArray::from(d)).ok()) {
            let model: Vec<Cell> = want[off..off + len].to_vec();
            if let Some(r) = cx.guard("normalize_slicing", || cpp.normalize_slicing()) {
                match r {
                    Ok(nz) => {
                        let got = cells(&nz);
                        let kids_ok = nz.columns().iter().all(|c| c.len() == nz.len());
                        if got != model || !kids_ok {
                            cx.bad("normalize_slicing-values", "normalize_slicing changed logical values / left children unsliced", json!({"offset": off, "len": len, "children_sliced": kids_ok, "diff": first_diff(&model, &got)}));
                        } else {
                            cx.report.count("struct_slicings_compared", 1);
                        }
                    }
                    Err(e) => cx.bad("normalize_slicing-err", "normalize_slicing rejected a valid arrow-cpp style sliced struct", json!({"error": e.to_string()})),
                }
            }
        }
    }
}

/// project a logical struct cell by a (sub)schema
fn project_cell(c: &Cell, fields: &Fields) -> Cell {
    match c {
        Cell::Struct(kids) => Cell::Struct(
            fields
                .iter()
                .map(|f| {
                    let k = kids.iter().find(|(n, _)| n == f.name()).map(|(_, v)| v.clone()).unwrap_or(Cell::Null);
                    let k = match f.data_type() {
                        DataType::Struct(sub) => project_cell(&k, sub),
                        _ => k,
                    };
                    (f.name().clone(), k)
                })
                .collect(),
        ),
        other => other.clone(),
    }
}

fn sub_fields(rng: &mut Rng, fields: &Fields, top: bool) -> Fields {
    let mut idx: Vec<usize> = (0..fields.len()).collect();
    if top {
        rng.shuffle(&mut idx);
    }
    let keep = rng.urange(1, fields.len());
    idx.truncate(keep);
    idx.iter()
        .map(|i| {
            let f = &fields[*i];
            match f.data_type() {
                DataType::Struct(sub) if rng.bool() => Arc::new(Field::new(f.name(), DataType::Struct(sub_fields(rng, sub, false)), f.is_nullable())),
                _ => f.clone(),
            }
        })
        .collect::<Vec<_>>()
        .into()
}

fn check_batch_helpers(cx: &Ctx, rng: &mut Rng, batch: &RecordBatch, corrupt: bool) {
    let rows = batch_cells(batch);
    // --- take ---
    if batch.num_rows() > 0 {
        let k = rng.urange(0, batch.num_rows() * 2);
        let idx: Vec<u32> = (0..k).map(|_| rng.usize_below(batch.num_rows()) as u32).collect();
        if let Some(Ok(t)) = cx.guard("take", || batch.take(&UInt32Array::from(idx.clone()))) {
            let got = batch_cells(&t);
            let mut want: Vec<_> = idx.iter().map(|i| rows[*i as usize].clone()).collect();
            if corrupt && want.len() > 1 {
                want.swap(0, 1);
            }
            if got != want && !(corrupt && want.len() <= 1) {
                let pos = got.iter().zip(want.iter()).position(|(a, b)| a != b);
                cx.bad("take-values", "RecordBatchExt::take returned other rows than the indices select", json!({"indices_head": idx.iter().take(10).collect::<Vec<_>>(), "first_bad": pos, "n_got": got.len(), "n_want": want.len()}));
            } else {
                cx.report.count("take_rows_compared", k as u64);
            }
        }
    }
    // --- deep copy of batches (sliced) ---
    for (name, f) in [("deep_copy_batch", deep_copy_batch as fn(&RecordBatch) -> std::result::Result<RecordBatch, arrow_schema::ArrowError>), ("deep_copy_batch_sliced", deep_copy_batch_sliced), ("shrink_to_fit", |b: &RecordBatch| b.shrink_to_fit())] {
        let pre = name != "deep_copy_batch" && batch.columns().iter().any(|c| arraydata_offset(c.as_ref()));
        let gname = if pre { format!("{name}-nonzero-arraydata-offset") } else { name.to_string() };
        if let Some(r) = cx.guard(&gname, || f(batch)) {
            match r {
                Ok(b) => {
                    if batch_cells(&b) != rows || b.schema() != batch.schema() {
                        cx.bad(&format!("{gname}-values"), "batch deep copy changed values / schema", json!({}));
                    } else {
                        cx.report.count("batch_copies_compared", 1);
                    }
                }
                Err(e) => cx.bad(&format!("{name}-err"), "batch deep copy failed", json!({"error": e.to_string()})),
            }
        }
    }
    // --- project_by_schema ---
    let sub = sub_fields(rng, batch.schema().fields(), true);
    let sub_schema = Schema::new(sub.clone());
    if let Some(r) = cx.guard("project_by_schema", || batch.project_by_schema(&sub_schema)) {
        match r {
            Ok(p) => {
                let got = batch_cells(&p);
                let want: Vec<Vec<(String, Cell)>> = rows
                    .iter()
                    .map(|r| {
                        let c = project_cell(&Cell::Struct(r.clone()), &sub);
                        match c {
                            Cell::Struct(k) => k,
                            _ => vec![],
                        }
                    })
                    .collect();
                if got != want {
                    let pos = got.iter().zip(want.iter()).position(|(a, b)| a != b);
                    cx.bad("project_by_schema-values", "projection changed values / validity / field order", json!({"schema": format!("{sub_schema:?}"), "first_bad_row": pos, "expected": pos.map(|p| Cell::Struct(want[p].clone()).render()), "got": pos.map(|p| Cell::Struct(got[p].clone()).render())}));
                } else {
                    cx.report.count("projections_compared", 1);
                }
            }
            Err(e) => cx.bad("project_by_schema-err", "projection by a sub-schema of the batch failed", json!({"error": e.to_string(), "schema": format!("{sub_schema:?}")})),
        }
    }
}

/// split a struct array's leaves between a left and a right array that keep identical validity /
/// offsets on the shared ancestors (what reading two column groups of the same rows yields)
fn split(rng: &mut Rng, arr: &ArrayRef, force: Option<bool>) -> (Option<ArrayRef>, Option<ArrayRef>) {
    match arr.data_type() {
        DataType::Struct(fields) if fields.len() > 1 && force.is_none() => {
            let s = arr.as_any().downcast_ref::<StructArray>().unwrap();
            let mut lf = vec![];
            let mut lc = vec![];
            let mut rf = vec![];
            let mut rc = vec![];
            for (i, (f, c)) in fields.iter().zip(s.columns()).enumerate() {
                // first child left, second right, others random; nested structs split recursively
                let side = if i == 0 { Some(true) } else if i == 1 { Some(false) } else { None };
                let (l, r) = match (side, f.data_type()) {
                    (None, DataType::Struct(_)) => split(rng, c, None),
                    (Some(b), _) => split(rng, c, Some(b)),
                    (None, _) => {
                        let b = rng.bool();
                        split(rng, c, Some(b))
                    }
                };
                if let Some(l) = l {
                    lf.push(Field::new(f.name(), l.data_type().clone(), true));
                    lc.push(l);
                }
                if let Some(r) = r {
                    rf.push(Field::new(f.name(), r.data_type().clone(), true));
                    rc.push(r);
                }
            }
            let l: ArrayRef = Arc::new(StructArray::new(lf.into(), lc, s.nulls().cloned()));
            let r: ArrayRef = Arc::new(StructArray::new(rf.into(), rc, s.nulls().cloned()));
            (Some(l), Some(r))
        }
        _ => match force.unwrap_or_else(|| rng.bool()) {
            true => (Some(arr.clone()), None),
            false => (None, Some(arr.clone())),
        },
    }
}

/// model of `merge`: left fields first (recursively merged with same-named right structs), then
/// right-only fields
fn merge_model(l: &Cell, r: &Cell) -> Cell {
    match (l, r) {
        (Cell::Struct(a), Cell::Struct(b)) => {
            let mut out = vec![];
            for (n, v) in a {
                match b.iter().find(|(m, _)| m == n) {
                    Some((_, w)) => out.push((n.clone(), merge_model(v, w))),
                    None => out.push((n.clone(), v.clone())),
                }
            }
            for (n, w) in b {
                if !a.iter().any(|(m, _)| m == n) {
                    out.push((n.clone(), w.clone()));
                }
            }
            Cell::Struct(out)
        }
        (Cell::Null, Cell::Null) => Cell::Null,
        (x, _) => x.clone(),
    }
}

fn has_duplicate_fields(c: &Cell) -> bool {
    match c {
        Cell::Struct(k) => {
            let mut names: Vec<&String> = k.iter().map(|x| &x.0).collect();
            names.sort();
            let n = names.len();
            names.dedup();
            names.len() != n || k.iter().any(|x| has_duplicate_fields(&x.1))
        }
        Cell::List(v) => v.iter().any(has_duplicate_fields),
        _ => false,
    }
}

fn check_merge(cx: &Ctx, rng: &mut Rng, batch: &RecordBatch) {
    // build left / right from the batch: plain columns go to one side (some to both), structs are split
    let mut lf = vec![];
    let mut lc = vec![];
    let mut rf = vec![];
    let mut rc = vec![];
    let mut overlap = vec![];
    for (f, c) in batch.schema().fields().iter().zip(batch.columns()) {
        let both = rng.chance(1, 5);
        let (l, r) = if both { (Some(c.clone()), Some(c.clone())) } else { split(rng, c, None) };
        if both {
            overlap.push(type_class(f.data_type()));
        }
        if let Some(l) = l {
            lf.push(Field::new(f.name(), l.data_type().clone(), true));
            lc.push(l);
        }
        if let Some(r) = r {
            rf.push(Field::new(f.name(), r.data_type().clone(), true));
            rc.push(r);
        }
    }
    if lf.is_empty() || rf.is_empty() {
        return;
    }
    if lc.iter().chain(rc.iter()).any(|c| has_all_null_struct(c.as_ref())) {
        cx.report.count("merge_skipped_entirely_null_struct_or_list", 1);
        return;
    }
    let offset_inputs = lc.iter().chain(rc.iter()).any(|c| has_offset(c.as_ref()));
    let pre = if offset_inputs { "-offset-inputs" } else { "" };
    let left = RecordBatch::try_new(Arc::new(Schema::new(lf)), lc).unwrap();
    let right = RecordBatch::try_new(Arc::new(Schema::new(rf)), rc).unwrap();
    let lrows = batch_cells(&left);
    let rrows = batch_cells(&right);
    let want: Vec<Cell> = lrows.iter().zip(rrows.iter()).map(|(a, b)| merge_model(&Cell::Struct(a.clone()), &Cell::Struct(b.clone()))).collect();
    let desc = json!({"left": format!("{:?}", left.schema().fields().iter().map(|f| format!("{}:{}", f.name(), f.data_type())).collect::<Vec<_>>()), "right": format!("{:?}", right.schema().fields().iter().map(|f| format!("{}:{}", f.name(), f.data_type())).collect::<Vec<_>>()), "overlapping_columns": overlap});
    if let Some(r) = cx.guard(&format!("merge{pre}"), || left.merge(&right)) {
        match r {
            Ok(m) => {
                let got: Vec<Cell> = batch_cells(&m).into_iter().map(Cell::Struct).collect();
                if got != want {
                    let pos = got.iter().zip(want.iter()).position(|(a, b)| a != b).unwrap_or(0);
                    let names: Vec<String> = m.schema().fields().iter().map(|f| f.name().clone()).collect();
                    let mut uniq = names.clone();
                    uniq.sort();
                    uniq.dedup();
                    let cls = if uniq.len() != names.len() || got.iter().any(has_duplicate_fields) { "duplicate-column" } else if m.num_columns() != want.first().map(|c| if let Cell::Struct(k) = c { k.len() } else { 0 }).unwrap_or(m.num_columns()) { "columns" } else { "values" };
                    let cls = if cls == "duplicate-column" { cls.to_string() } else { format!("values{pre}") };
                    cx.bad(&format!("merge-{cls}"), "merge result differs from the name-based merge model", json!({"inputs": desc, "row": pos, "expected": want.get(pos).map(|c| c.render()), "got": got.get(pos).map(|c| c.render()), "output_columns": names}));
                } else {
                    cx.report.count("merges_compared", 1);
                }
            }
            Err(e) => cx.bad("merge-err", "merge of two batches with the same row count failed", json!({"inputs": desc, "error": e.to_string()})),
        }
    }
    // merge_with_schema against the schema of the full batch: must reproduce the full batch
    let full = batch_cells(batch);
    if let Some(r) = cx.guard(&format!("merge_with_schema{pre}"), || left.merge_with_schema(&right, batch.schema().as_ref())) {
        match r {
            Ok(m) => {
                let got = batch_cells(&m);
                if got != full {
                    let pos = got.iter().zip(full.iter()).position(|(a, b)| a != b).unwrap_or(0);
                    cx.bad(&format!("merge_with_schema-values{pre}"), "merge_with_schema of the two halves of a batch under the batch's schema differs from the batch", json!({"inputs": desc, "row": pos, "expected": full.get(pos).map(|c| Cell::Struct(c.clone()).render()), "got": got.get(pos).map(|c| Cell::Struct(c.clone()).render())}));
                } else {
                    cx.report.count("schema_merges_compared", 1);
                }
            }
            Err(e) => cx.bad("merge_with_schema-err", "merge_with_schema failed", json!({"inputs": desc, "error": e.to_string()})),
        }
    }
}

// ---------------------------------------------------------------------------------------------
// JSON
// ---------------------------------------------------------------------------------------------

fn gen_json(rng: &mut Rng, depth: usize) -> Value {
    let leaf = depth == 0 || rng.chance(1, 3);
    if leaf {
        return match rng.below(8) {
            0 => Value::Null,
            1 => json!(rng.bool()),
            2 => json!(rng.range(-1000, 1000)),
            3 => json!(rng.next_u64() as i64),
            4 => json!(rng.next_u64()),
            5 => json!((rng.f64() - 0.5) * 10f64.powi(rng.range(-8, 8) as i32)),
            6 => json!(gen_str(rng)),
            _ => json!(rng.range(0, 3) as f64 + 0.5),
        };
    }
    if rng.bool() {
        Value::Array((0..rng.urange(0, 4)).map(|_| gen_json(rng, depth - 1)).collect())
    } else {
        let mut m = serde_json::Map::new();
        for _ in 0..rng.urange(0, 4) {
            m.insert(gen_key(rng), gen_json(rng, depth - 1));
        }
        Value::Object(m)
    }
}

fn gen_key(rng: &mut Rng) -> String {
    rng.pick(&["a", "b", "key", "name", "x1", "Z", "long_key_name", "k2"]).to_string()
}

fn gen_str(rng: &mut Rng) -> String {
    let pool = ["", "plain", "with space", "quote\"inside", "back\\slash", "uni-é-ß-漢", "emoji-😀", "new\nline", "tab\t", "\u{1}ctl", "/slash", "null", "123"];
    let mut s = rng.pick(&pool).to_string();
    if rng.chance(1, 4) {
        s.push_str(&"x".repeat(rng.urange(1, 50)));
    }
    s
}

fn json_eq(a: &Value, b: &Value) -> bool {
    match (a, b) {
        (Value::Number(x), Value::Number(y)) => {
            if let (Some(i), Some(j)) = (x.as_i64(), y.as_i64()) {
                return i == j;
            }
            if let (Some(i), Some(j)) = (x.as_u64(), y.as_u64()) {
                return i == j;
            }
            match (x.as_f64(), y.as_f64()) {
                (Some(f), Some(g)) => f == g || (f - g).abs() <= f.abs() * 1e-15,
                _ => false,
            }
        }
        (Value::Array(x), Value::Array(y)) => x.len() == y.len() && x.iter().zip(y).all(|(p, q)| json_eq(p, q)),
        (Value::Object(x), Value::Object(y)) => x.len() == y.len() && x.iter().all(|(k, v)| y.get(k).map(|w| json_eq(v, w)).unwrap_or(false)),
        _ => a == b,
    }
}

/// random path into the document + model value
fn gen_path(rng: &mut Rng, doc: &Value) -> (String, Option<Value>) {
    let mut path = String::from("$");
    let mut cur = Some(doc.clone());
    for _ in 0..rng.urange(1, 3) {
        match cur.clone() {
            Some(Value::Object(m)) if !m.is_empty() && rng.chance(4, 5) => {
                let k = m.keys().nth(rng.usize_below(m.len())).unwrap().clone();
                path.push_str(&format!(".{k}"));
                cur = m.get(&k).cloned();
            }
            Some(Value::Array(a)) if !a.is_empty() && rng.chance(4, 5) => {
                let i = rng.usize_below(a.len());
                path.push_str(&format!("[{i}]"));
                cur = a.get(i).cloned();
            }
            Some(Value::Object(_)) | None => {
                path.push_str(".missing");
                cur = None;
            }
            Some(Value::Array(a)) => {
                path.push_str(&format!("[{}]", a.len() + 2));
                cur = None;
            }
            Some(_) => break,
        }
    }
    (path, cur)
}

fn check_json(cx: &Ctx, rng: &mut Rng, corrupt: bool) {
    let n = rng.urange(1, 12);
    let docs: Vec<Option<Value>> = (0..n).map(|_| if rng.chance(1, 6) { None } else { Some(gen_json(rng, 4)) }).collect();
    let texts: Vec<Option<String>> = docs.iter().map(|d| d.as_ref().map(|v| if rng.bool() { v.to_string() } else { serde_json::to_string_pretty(v).unwrap() })).collect();
    // scalar encode / decode
    for (d, t) in docs.iter().zip(texts.iter()) {
        let (Some(d), Some(t)) = (d, t) else { continue };
        match cx.guard("encode_json", || encode_json(t).map_err(|e| e.to_string())) {
            Some(Ok(b)) => match cx.guard("decode_json", || decode_json(&b).map_err(|e| e.to_string())) {
                Some(Ok(s)) => {
                    let s = if corrupt { s.replacen('1', "2", 1).replacen("true", "false", 1).replacen('a', "b", 1) } else { s };
                    match serde_json::from_str::<Value>(&s) {
                        Ok(v) if json_eq(&v, d) => cx.report.count("json_documents_compared", 1),
                        Ok(v) => cx.bad("json-roundtrip-values", "JSON -> JSONB -> JSON changed the document", json!({"input": t, "decoded": s, "decoded_value": v})),
                        Err(e) => cx.bad("json-roundtrip-invalid", "decoded JSONB is not valid JSON", json!({"input": t, "decoded": s, "error": e.to_string()})),
                    }
                }
                Some(Err(e)) => cx.bad("json-decode-err", "decode_json failed on encode_json's output", json!({"input": t, "error": e})),
                None => {}
            },
            Some(Err(e)) => cx.bad("json-encode-err", "encode_json rejected a valid JSON document", json!({"input": t, "error": e})),
            None => {}
        }
    }
    // array level
    let sarr = StringArray::from(texts.clone());
    let sarr = if rng.bool() && sarr.len() > 2 { sarr.slice(1, sarr.len() - 1) } else { sarr };
    let skip = texts.len() - sarr.len();
    let Some(Ok(ja)) = cx.guard("JsonArray::try_from", || JsonArray::try_from(&sarr)) else {
        cx.bad("jsonarray-err", "JsonArray::try_from(StringArray) failed on valid documents", json!({}));
        return;
    };
    if ja.len() != sarr.len() {
        cx.bad("jsonarray-len", "JsonArray has a different length than its input", json!({"in": sarr.len(), "out": ja.len()}));
        return;
    }
    for i in 0..ja.len() {
        let d = &docs[i + skip];
        if ja.is_null(i) != d.is_none() {
            cx.bad("jsonarray-validity", "JsonArray validity differs from the input", json!({"row": i}));
            continue;
        }
        let Some(d) = d else {
            if let Ok(Some(x)) = ja.json_path(i, "$.a") {
                cx.bad("jsonpath-null-row", "json_path on a null row returned a value", json!({"got": x}));
            }
            continue;
        };
        match ja.value(i) {
            Ok(s) => {
                if !serde_json::from_str::<Value>(&s).map(|v| json_eq(&v, d)).unwrap_or(false) {
                    cx.bad("jsonarray-value", "JsonArray::value differs from the input document", json!({"expected": d, "got": s}));
                }
            }
            Err(e) => cx.bad("jsonarray-value-err", "JsonArray::value failed", json!({"error": e.to_string()})),
        }
        for _ in 0..3 {
            let (path, model) = gen_path(rng, d);
            match cx.guard("json_path", || ja.json_path(i, &path)) {
                Some(Ok(got)) => {
                    let ok = match (&got, &model) {
                        (None, None) => true,
                        (Some(g), Some(m)) => serde_json::from_str::<Value>(g).map(|v| json_eq(&v, m)).unwrap_or(false),
                        _ => false,
                    };
                    if ok {
                        cx.report.count("json_paths_compared", 1);
                        if model.is_some() {
                            cx.report.nontrivial(fnv(format!("jsonpath|{}|{}", path.matches('.').count(), path.matches('[').count()).as_bytes()));
                        }
                    } else {
                        cx.bad("jsonpath-values", "JSON path extraction differs from walking the document", json!({"doc": d, "path": path, "expected": model, "got": got}));
                    }
                }
                Some(Err(e)) => cx.bad("jsonpath-err", "JSON path extraction failed on a valid path", json!({"doc": d, "path": path, "error": e.to_string()})),
                None => {}
            }
        }
    }
    if let Some(Ok(back)) = cx.guard("to_arrow_json", || ja.to_arrow_json()) {
        let b = back.as_any().downcast_ref::<StringArray>();
        let ok = b.map(|b| b.len() == ja.len() && (0..b.len()).all(|i| match &docs[i + skip] {
            None => b.is_null(i),
            Some(d) => b.is_valid(i) && serde_json::from_str::<Value>(b.value(i)).map(|v| json_eq(&v, d)).unwrap_or(false),
        })).unwrap_or(false);
        if !ok {
            cx.bad("to_arrow_json-values", "to_arrow_json differs from the input documents", json!({}));
        }
    }
}

// ---------------------------------------------------------------------------------------------

fn one_case(report: &Report, seed: u64, case: u64, corrupt: bool) {
    let mut rng = Rng::for_case(seed, (13u64 << 40) + case);
    let cx = Ctx { report, seed, case };
    let n = *rng.pick(&[0usize, 1, 2, 5, 17, 64, 200]);
    let ncols = rng.urange(1, 4);
    let mut counter = 0i64;
    let mut fields = vec![];
    let mut cols = vec![];
    // half of the cases carry no physical offsets at all (no slicing, list offsets from 0)
    let plain = rng.bool();
    let extra = if plain { 0 } else { rng.urange(0, 5) };
    let (off, len) = if n + extra > 0 { let o = rng.urange(0, extra); (o, n.min(n + extra - o)) } else { (0, 0) };
    for i in 0..ncols {
        let dt = gen_type(&mut rng, 3);
        let a = gen_array(&mut rng, &dt, n + extra, &mut counter, plain).slice(off, len);
        fields.push(Field::new(format!("c{i}"), dt, true));
        cols.push(a);
    }
    let batch = match RecordBatch::try_new(Arc::new(Schema::new(fields)), cols.clone()) {
        Ok(b) => b,
        Err(e) => {
            report.harness_error(&format!("C40 case {case}: cannot build batch: {e}"));
            return;
        }
    };
    let before = report.n_violations();
    let step = |name: &str, f: &mut dyn FnMut()| {
        if let Err((m, l)) = crate::quiet::catch(|| f()) {
            report.harness_error(&format!("C40 case {case} step {name}: unexpected panic outside the guarded helpers at {l}: {m}"));
        }
    };
    for c in &cols {
        let c = if plain { c.clone() } else { maybe_slice(&mut rng, c.clone()) };
        step("deepcopy", &mut || check_deepcopy(&cx, &mut rng, &c, corrupt));
        step("list", &mut || check_list_helpers(&cx, &c, corrupt));
        step("struct", &mut || check_struct_helpers(&cx, &mut rng, &c));
    }
    step("batch", &mut || check_batch_helpers(&cx, &mut rng, &batch, corrupt));
    if !corrupt {
        step("merge", &mut || check_merge(&cx, &mut rng, &batch));
    }
    step("json", &mut || check_json(&cx, &mut rng, corrupt));
    let _ = before;
    if case < 4 && !corrupt {
        report.sample(json!({"case": case, "rows": batch.num_rows(), "sliced_offset": off, "no_physical_offsets": plain,
            "columns": batch.schema().fields().iter().map(|f| format!("{}: {}", f.name(), f.data_type())).collect::<Vec<_>>(),
            "first_row": batch_cells(&batch).first().map(|r| Cell::Struct(r.clone()).render())}));
    }
    let sig = format!("{}|{}|{}", batch.schema().fields().iter().map(|f| type_class(f.data_type())).collect::<Vec<_>>().join(","), (n as f64 + 1.0).log2() as u32, off > 0);
    report.case(if n > 1 { Some(fnv(sig.as_bytes())) } else { None });
}

pub fn run(args: &Args) -> i32 {
    if args.extra.contains_key("selftest") {
        // corrupt observations: the oracle must fire
        std::env::set_var("VERIF_EVIDENCE_OUT", format!("{}/work/selftest-evidence-C40.json", vmon::report::verif_root()));
        let r = Report::new(args, "exploration", "selftest", (30, 30));
        for i in 0..60 {
            one_case(&r, args.seed, i, true);
        }
        let udf = crate::c40udf::Udf::new();
        let policy = crate::c40udf::probe_policy(&udf);
        let before = r.n_violations();
        for i in 0..5 {
            crate::c40udf::one_case(&r, &udf, &policy, args.seed, i, true);
        }
        println!("SELFTEST C40 json udf: {} violation classes raised on corrupted UDF results", r.n_violations() - before);
        let n = r.n_violations();
        println!("SELFTEST C40 distinct violation classes raised on corrupted observations: {n} (expected >= 4: deep copy, list filter, take, json)");
        return if n >= 4 { 0 } else { 2 };
    }
    let report = Report::new(
        args,
        "exploration",
        "Random record batches of 1-4 columns of random nested types (depth<=3 over struct / list / large list / fixed-size list / primitives / utf8 / bool) with nulls at every level, garbage behind null lists, list offsets not starting at 0 / not covering the child, every column sliced; checked helpers: deep_copy_array(_sliced), deep_copy_nulls, deep_copy_batch(_sliced), shrink_to_fit, take (random indices with repeats), project_by_schema (random nested sub-schema, reordered), merge and merge_with_schema (batch split into two halves that share struct ancestors, some columns on both sides), ListArrayExt::{trimmed_values, filter_garbage_nulls}, StructArrayExt::{pushdown_nulls, normalize_slicing (arrow-cpp style offset)}, JSON text -> JSONB -> text, JsonArray value / json_path / to_arrow_json vs serde_json; the lance-datafusion JSON UDFs (json_get, json_get_string/int/float/bool, json_extract, json_exists, json_array_length, json_array_contains) evaluated through SQL in a DataFusion SessionContext over tables of random JSONB documents (keys from an alphabet with case variants name/Name/NAME, empty, unicode and numeric-looking keys at several nesting levels; key as column and as literal; requested keys: present, case variant of a present key, absent, array index) vs a serde_json model with exact case-sensitive keys, with the type-mismatch / null behaviour recorded first. Non-trivial iff >1 row; distinct by (column type classes, log2 rows, sliced).",
        (45, 600),
    )
    .with_min_nontrivial(200);
    report.assume("merge inputs carry identical validity / offsets on shared struct and list ancestors (two column groups of the same rows); merging structs whose validity differs is outside the model");
    if let Some(c) = args.extra.get("case").and_then(|c| c.parse::<u64>().ok()) {
        // debugging aid: one case, default panic hook
        let _ = std::panic::take_hook();
        std::env::set_var("VERIF_EVIDENCE_OUT", format!("{}/work/case-evidence-C40.json", vmon::report::verif_root()));
        one_case(&report, args.seed, c, false);
        return report.finish();
    }
    let threads = crate::quiet::threads();
    // ---- JSON UDF part (lance-datafusion/src/udf/json.rs): fixed share, own time slice ----
    {
        let probe = crate::c40udf::Udf::new();
        let policy = crate::c40udf::probe_policy(&probe);
        report.set("json_udf_policy_recorded_first", json!(policy));
        let n_udf: u64 = args.tier.pick(1200, 60_000);
        let slice_s = report.budget_s() as f64 * 0.4;
        let next = AtomicU64::new(0);
        std::thread::scope(|s| {
            for _ in 0..threads {
                s.spawn(|| {
                    let udf = crate::c40udf::Udf::new();
                    loop {
                        let i = next.fetch_add(1, Ordering::Relaxed);
                        if i >= n_udf || report.elapsed_s() > slice_s {
                            break;
                        }
                        if let Err((m, l)) = crate::quiet::catch(|| crate::c40udf::one_case(&report, &udf, &policy, args.seed, i, false)) {
                            report.harness_error(&format!("C40 json udf case {i}: unexpected panic at {l}: {m}"));
                        }
                        report.count("json_udf_cases", 1);
                    }
                });
            }
        });
    }
    let n_cases: u64 = args.tier.pick(40_000, 2_000_000);
    let next = AtomicU64::new(0);
    std::thread::scope(|s| {
        for _ in 0..threads {
            s.spawn(|| loop {
                let i = next.fetch_add(1, Ordering::Relaxed);
                if i >= n_cases || !report.time_left() {
                    break;
                }
                if let Err((m, l)) = crate::quiet::catch(|| one_case(&report, args.seed, i, false)) {
                    report.harness_error(&format!("C40 case {i}: unexpected panic outside the guarded helpers at {l}: {m}"));
                }
            });
        }
    });
    report.finish()
}
