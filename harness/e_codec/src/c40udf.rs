//! C40, JSON UDF part: the lance-datafusion JSON functions (`json_get*`, `json_extract`, `json_exists`,
//! `json_array_length`, `json_array_contains`) registered in a DataFusion SessionContext and evaluated through
//! SQL over a table of JSONB documents, against a serde_json model with EXACT (case-sensitive) key semantics.
use crate::prng::{fnv, Rng};
use arrow_array::{Array, ArrayRef, BooleanArray, Float64Array, Int64Array, LargeBinaryArray, RecordBatch, StringArray};
use arrow_schema::{DataType, Field, Schema};
use datafusion::prelude::SessionContext;
use lance_arrow::json::{decode_json, encode_json};
use serde_json::{json, Map, Value};
use std::collections::BTreeMap;
use std::sync::Arc;
use vmon::report::Report;

const KEYS: &[&str] = &["name", "Name", "NAME", "nAmE", "a", "A", "key", "Key", "KEY", "x1", "X1", "k2", "", "ünï", "ÜNÏ", "0", "1", "12", "id", "Id"];

fn gen_scalar(rng: &mut Rng) -> Value {
    match rng.below(7) {
        0 => Value::Null,
        1 => json!(rng.bool()),
        2 => json!(rng.range(-1000, 1000)),
        3 => json!(rng.next_u64() as i64 >> rng.below(40)),
        4 => json!((rng.range(-5000, 5000) as f64) / 8.0 + 0.0625),
        5 => json!(*rng.pick(&["", "x", "Name", "hello world", "ünï", "12", "true", "quote\"d"])),
        _ => json!(rng.range(0, 5)),
    }
}

fn gen_value(rng: &mut Rng, depth: usize) -> Value {
    if depth == 0 || rng.chance(1, 2) {
        return gen_scalar(rng);
    }
    if rng.chance(1, 3) {
        Value::Array((0..rng.urange(0, 4)).map(|_| if rng.chance(1, 4) { gen_value(rng, depth - 1) } else { gen_scalar(rng) }).collect())
    } else {
        gen_object(rng, depth - 1)
    }
}

fn gen_object(rng: &mut Rng, depth: usize) -> Value {
    let mut m = Map::new();
    for _ in 0..rng.urange(0, 6) {
        // case variants of one base key tend to appear together or alone
        m.insert(rng.pick(KEYS).to_string(), gen_value(rng, depth));
    }
    Value::Object(m)
}

fn case_variants(k: &str) -> Vec<String> {
    let mut v = vec![k.to_lowercase(), k.to_uppercase()];
    let mut c = k.chars();
    if let Some(f) = c.next() {
        v.push(f.to_uppercase().collect::<String>() + &c.as_str().to_lowercase());
    }
    v.retain(|x| x != k);
    v.dedup();
    v
}

fn is_index(k: &str) -> bool {
    k.parse::<usize>().is_ok()
}

fn simple_ident(k: &str) -> bool {
    !k.is_empty() && k.chars().all(|c| c.is_ascii_alphanumeric()) && k.chars().next().map(|c| c.is_ascii_alphabetic()).unwrap_or(false)
}

/// EXACT key semantics; numeric keys index arrays. `None` = absent.
fn model_get(doc: &Value, key: &str, policy: &BTreeMap<String, String>) -> Result<Option<Value>, ()> {
    if let Ok(i) = key.parse::<usize>() {
        match doc {
            Value::Array(a) => Ok(a.get(i).cloned()),
            Value::Object(m) => match policy.get("numeric-key-on-object").map(|s| s.as_str()) {
                Some("absent") => Ok(None),
                Some("field") => Ok(m.get(key).cloned()),
                _ => Err(()),
            },
            _ => Err(()),
        }
    } else {
        match doc {
            Value::Object(m) => Ok(m.get(key).cloned()),
            Value::Array(_) => match policy.get("field-key-on-array").map(|s| s.as_str()) {
                Some("absent") => Ok(None),
                _ => Err(()),
            },
            _ => Err(()),
        }
    }
}

fn json_eq(a: &Value, b: &Value) -> bool {
    match (a, b) {
        (Value::Number(x), Value::Number(y)) => {
            if let (Some(i), Some(j)) = (x.as_i64(), y.as_i64()) {
                return i == j;
            }
            match (x.as_f64(), y.as_f64()) {
                (Some(f), Some(g)) => f == g || (f - g).abs() <= f.abs() * 1e-15,
                _ => false,
            }
        }
        (Value::Array(x), Value::Array(y)) => x.len() == y.len() && x.iter().zip(y).all(|(p, q)| json_eq(p, q)),
        (Value::Object(x), Value::Object(y)) => x.len() == y.len() && x.iter().all(|(k, v)| y.get(k).map(|w| json_eq(v, w)).unwrap_or(false)),
        _ => a == b,
    }
}

fn type_name(v: &Value) -> &'static str {
    match v {
        Value::Null => "null",
        Value::Bool(_) => "bool",
        Value::Number(n) if n.is_i64() || n.is_u64() => "int",
        Value::Number(_) => "float",
        Value::String(_) => "string",
        Value::Array(_) => "array",
        Value::Object(_) => "object",
    }
}

pub struct Udf {
    ctx: SessionContext,
    rt: tokio::runtime::Runtime,
}

impl Udf {
    pub fn new() -> Self {
        let ctx = SessionContext::new();
        lance_datafusion::udf::register_functions(&ctx);
        Self { ctx, rt: crate::fileio::runtime() }
    }
    fn query(&self, table: &RecordBatch, sql: &str) -> Result<ArrayRef, String> {
        let _ = self.ctx.deregister_table("t");
        self.ctx.register_batch("t", table.clone()).map_err(|e| e.to_string())?;
        let r = crate::quiet::catch(|| {
            self.rt.block_on(async {
                let df = self.ctx.sql(sql).await.map_err(|e| e.to_string())?;
                let bs = df.collect().await.map_err(|e| e.to_string())?;
                let cols: Vec<ArrayRef> = bs.iter().map(|b| b.column(0).clone()).collect();
                let refs: Vec<&dyn Array> = cols.iter().map(|c| c.as_ref()).collect();
                if refs.is_empty() {
                    return Err("no batches".to_string());
                }
                arrow_select::concat::concat(&refs).map_err(|e| e.to_string())
            })
        });
        match r {
            Ok(x) => x,
            Err((m, l)) => Err(format!("PANIC at {l}: {m}")),
        }
    }
}

fn doc_table(docs: &[Value], cols: &[(&str, Vec<Option<String>>)]) -> Result<RecordBatch, String> {
    let bytes: Vec<Vec<u8>> = docs.iter().map(|d| encode_json(&d.to_string()).map_err(|e| e.to_string())).collect::<Result<_, _>>()?;
    let mut fields = vec![Field::new("id", DataType::Int64, false), Field::new("doc", DataType::LargeBinary, true)];
    let mut arrays: Vec<ArrayRef> = vec![Arc::new(Int64Array::from((0..docs.len() as i64).collect::<Vec<_>>())), Arc::new(LargeBinaryArray::from(bytes.iter().map(|b| Some(b.as_slice())).collect::<Vec<_>>()))];
    for (n, v) in cols {
        fields.push(Field::new(*n, DataType::Utf8, true));
        arrays.push(Arc::new(StringArray::from(v.clone())));
    }
    RecordBatch::try_new(Arc::new(Schema::new(fields)), arrays).map_err(|e| e.to_string())
}

fn lit(s: &str) -> String {
    format!("'{}'", s.replace('\'', "''"))
}

/// class of a single-row evaluation: "error" | "null" | "value"
fn single_class(udf: &Udf, doc: &Value, func: &str, key: &str) -> String {
    let Ok(t) = doc_table(std::slice::from_ref(doc), &[]) else { return "harness".into() };
    match udf.query(&t, &format!("SELECT {func}(doc, {}) FROM t", lit(key))) {
        Err(_) => "error".into(),
        Ok(a) => {
            if a.is_null(0) {
                "null".into()
            } else {
                "value".into()
            }
        }
    }
}

/// observed first, enforced afterwards
pub fn probe_policy(udf: &Udf) -> BTreeMap<String, String> {
    let mut p = BTreeMap::new();
    let obj = json!({"0": 5, "s": "str", "i": 7, "f": 1.5, "b": true, "n": null, "arr": [1, 2], "obj": {"x": 1}});
    let arr = json!([1, "two", 3.5]);
    p.insert("numeric-key-on-object".into(), match single_class(udf, &obj, "json_get", "0").as_str() { "null" => "absent".into(), "value" => "field".into(), o => o.to_string() });
    p.insert("field-key-on-array".into(), match single_class(udf, &arr, "json_get", "s").as_str() { "null" => "absent".into(), o => o.to_string() });
    p.insert("json_get/json-null-value".into(), single_class(udf, &obj, "json_get", "n"));
    for func in ["json_get_string", "json_get_int", "json_get_float", "json_get_bool"] {
        for (k, ty) in [("s", "string"), ("i", "int"), ("f", "float"), ("b", "bool"), ("n", "null"), ("arr", "array"), ("obj", "object")] {
            p.insert(format!("{func}/{ty}"), single_class(udf, &obj, func, k));
        }
    }
    p
}

struct Cx<'a> {
    report: &'a Report,
    seed: u64,
    case: u64,
}
impl Cx<'_> {
    fn bad(&self, sig: &str, what: &str, detail: Value) {
        self.report.violation(sig, what, json!({"engine": "json_udf", "seed": self.seed, "case": self.case, "detail": detail}));
    }
}

/// why an unexpected value could have appeared: a key that differs only by letter case exists
fn case_variant_present(doc: &Value, key: &str) -> bool {
    match doc {
        Value::Object(m) => m.keys().any(|k| k != key && k.to_lowercase() == key.to_lowercase()),
        _ => false,
    }
}

fn pick_key(rng: &mut Rng, doc: &Value, want: Option<&str>) -> String {
    // want: required model type of the value (typed getters) or None = anything
    match doc {
        Value::Object(m) => {
            let fitting: Vec<&String> = m.iter().filter(|(k, v)| !is_index(k) && want.map(|w| type_name(v) == w || type_name(v) == "null").unwrap_or(true)).map(|(k, _)| k).collect();
            let r = rng.below(10);
            if r < 4 && !fitting.is_empty() {
                fitting[rng.usize_below(fitting.len())].clone()
            } else if r < 8 && !m.is_empty() {
                // a case variant of an existing key (present or not) whose own value, if present, fits
                let k = m.keys().nth(rng.usize_below(m.len())).unwrap().clone();
                let vs = case_variants(&k);
                let cand = if vs.is_empty() { k } else { vs[rng.usize_below(vs.len())].clone() };
                let ok = !is_index(&cand) && m.get(&cand).map(|v| want.map(|w| type_name(v) == w || type_name(v) == "null").unwrap_or(true)).unwrap_or(true);
                if ok { cand } else { "absent_key".into() }
            } else {
                (*rng.pick(&["absent_key", "Absent", "zz"])).to_string()
            }
        }
        Value::Array(a) => {
            let fitting: Vec<usize> = (0..a.len()).filter(|i| want.map(|w| type_name(&a[*i]) == w || type_name(&a[*i]) == "null").unwrap_or(true)).collect();
            if !fitting.is_empty() && rng.chance(3, 4) {
                fitting[rng.usize_below(fitting.len())].to_string()
            } else {
                (a.len() + rng.usize_below(3)).to_string()
            }
        }
        _ => "absent_key".into(),
    }
}

pub fn one_case(report: &Report, udf: &Udf, policy: &BTreeMap<String, String>, seed: u64, case: u64, corrupt: bool) {
    let mut rng = Rng::for_case(seed, (14u64 << 40) + case);
    let cx = Cx { report, seed, case };
    let n = rng.urange(4, 24);
    let docs: Vec<Value> = (0..n).map(|_| if rng.chance(1, 5) { Value::Array((0..rng.urange(0, 5)).map(|_| gen_value(&mut rng, 2)).collect()) } else { gen_object(&mut rng, 3) }).collect();
    // per-row requested keys
    let k_any: Vec<String> = docs.iter().map(|d| pick_key(&mut rng, d, None)).collect();
    let k_s: Vec<String> = docs.iter().map(|d| pick_key(&mut rng, d, Some("string"))).collect();
    let k_i: Vec<String> = docs.iter().map(|d| pick_key(&mut rng, d, Some("int"))).collect();
    let k_f: Vec<String> = docs.iter().map(|d| pick_key(&mut rng, d, Some("float"))).collect();
    let k_b: Vec<String> = docs.iter().map(|d| pick_key(&mut rng, d, Some("bool"))).collect();
    let opt = |v: &Vec<String>| v.iter().map(|s| Some(s.clone())).collect::<Vec<_>>();
    // JSONPath on objects with simple keys: "$.k" or "$.k.k2"
    let paths: Vec<Option<(String, Option<Value>)>> = docs
        .iter()
        .map(|d| {
            let Value::Object(m) = d else { return None };
            let simple: Vec<&String> = m.keys().filter(|k| simple_ident(k)).collect();
            let k1 = if !simple.is_empty() && rng.chance(2, 3) {
                let k = simple[rng.usize_below(simple.len())].clone();
                if rng.chance(1, 3) { case_variants(&k).first().cloned().unwrap_or(k) } else { k }
            } else {
                "absentKey".to_string()
            };
            if !simple_ident(&k1) {
                return None;
            }
            let v1 = m.get(&k1).cloned();
            if let Some(Value::Object(m2)) = &v1 {
                let s2: Vec<&String> = m2.keys().filter(|k| simple_ident(k)).collect();
                if !s2.is_empty() && rng.bool() {
                    let k2 = s2[rng.usize_below(s2.len())].clone();
                    return Some((format!("$.{k1}.{k2}"), m2.get(&k2).cloned()));
                }
            }
            Some((format!("$.{k1}"), v1))
        })
        .collect();
    let p_col: Vec<Option<String>> = paths.iter().map(|p| p.as_ref().map(|x| x.0.clone())).collect();
    let table = match doc_table(&docs, &[("k", opt(&k_any)), ("ks", opt(&k_s)), ("ki", opt(&k_i)), ("kf", opt(&k_f)), ("kb", opt(&k_b)), ("p", p_col)]) {
        Ok(t) => t,
        Err(e) => {
            report.harness_error(&format!("C40 json udf case {case}: cannot build table: {e}"));
            return;
        }
    };
    let mut judged = 0u64;
    let mut variant_requests = 0u64;
    let check = |func: &str, keys: &[String], sql: &str, judged: &mut u64, variant_requests: &mut u64| {
        let arr = match udf.query(&table, sql) {
            Ok(a) => a,
            Err(e) => {
                cx.bad(&format!("jsonudf-{func}-query-error"), "JSON UDF query failed although every requested value has a compatible type", json!({"sql": sql, "error": e, "docs": docs, "keys": keys}));
                return;
            }
        };
        if arr.len() != docs.len() {
            cx.bad(&format!("jsonudf-{func}-row-count"), "JSON UDF returned a different number of rows", json!({"sql": sql, "rows": arr.len()}));
            return;
        }
        for (i, d) in docs.iter().enumerate() {
            let key = &keys[i];
            let Ok(model) = model_get(d, key, policy) else { continue };
            if case_variant_present(d, key) {
                *variant_requests += 1;
            }
            // expected: SQL NULL for absent keys; typed getters also give NULL for a JSON null
            let (got_null, got_val): (bool, Option<Value>) = if arr.is_null(i) {
                (true, None)
            } else {
                let v = match func {
                    "json_get" => decode_json(arr.as_any().downcast_ref::<LargeBinaryArray>().unwrap().value(i)).ok().and_then(|s| serde_json::from_str(&s).ok()),
                    "json_get_string" => Some(json!(arr.as_any().downcast_ref::<StringArray>().unwrap().value(i))),
                    "json_get_int" => Some(json!(arr.as_any().downcast_ref::<Int64Array>().unwrap().value(i))),
                    "json_get_float" => Some(json!(arr.as_any().downcast_ref::<Float64Array>().unwrap().value(i))),
                    _ => Some(json!(arr.as_any().downcast_ref::<BooleanArray>().unwrap().value(i))),
                };
                (false, v)
            };
            let got_val = if corrupt && i == 0 { Some(json!("corrupted")) } else { got_val };
            let expect_null = match (&model, func) {
                (None, _) => true,
                (Some(Value::Null), "json_get") => policy.get("json_get/json-null-value").map(|s| s == "null").unwrap_or(false),
                (Some(Value::Null), _) => true,
                _ => false,
            };
            let ok = if expect_null { got_null && !(corrupt && i == 0) } else { !got_null && got_val.as_ref().zip(model.as_ref()).map(|(a, b)| json_eq(a, b)).unwrap_or(false) };
            *judged += 1;
            if !ok {
                let cls = if expect_null && !got_null {
                    if case_variant_present(d, key) { "value-for-absent-key-with-case-variant" } else { "value-for-absent-key" }
                } else if !expect_null && got_null {
                    "null-for-present-key"
                } else {
                    "wrong-value"
                };
                cx.bad(&format!("jsonudf-{func}-{cls}"), "JSON UDF result differs from the exact-key serde_json model", json!({"sql": sql, "doc": d, "key": key, "expected": model, "got_null": got_null, "got": got_val}));
                return;
            }
        }
    };
    // key as column
    check("json_get", &k_any, "SELECT json_get(doc, k) FROM t ORDER BY id", &mut judged, &mut variant_requests);
    check("json_get_string", &k_s, "SELECT json_get_string(doc, ks) FROM t ORDER BY id", &mut judged, &mut variant_requests);
    check("json_get_int", &k_i, "SELECT json_get_int(doc, ki) FROM t ORDER BY id", &mut judged, &mut variant_requests);
    check("json_get_float", &k_f, "SELECT json_get_float(doc, kf) FROM t ORDER BY id", &mut judged, &mut variant_requests);
    check("json_get_bool", &k_b, "SELECT json_get_bool(doc, kb) FROM t ORDER BY id", &mut judged, &mut variant_requests);
    // key as literal: the same literal for every document (only documents for which the model is defined are judged);
    // json_get never fails on a type, so any literal works for it
    for _ in 0..2 {
        let l = (*rng.pick(&["name", "Name", "NAME", "key", "Key", "a", "A", "id", "Id", "x1", "ünï", "", "absent_key"])).to_string();
        let keys = vec![l.clone(); docs.len()];
        check("json_get", &keys, &format!("SELECT json_get(doc, {}) FROM t ORDER BY id", lit(&l)), &mut judged, &mut variant_requests);
    }
    // typed getter with a literal: restrict the table to the documents whose value under that literal is compatible
    for (func, ty) in [("json_get_string", "string"), ("json_get_int", "int"), ("json_get_float", "float"), ("json_get_bool", "bool")] {
        let l = (*rng.pick(&["name", "Name", "NAME", "key", "Key", "KEY", "a", "A", "id", "Id"])).to_string();
        let ids: Vec<usize> = (0..docs.len())
            .filter(|i| match model_get(&docs[*i], &l, policy) {
                Ok(None) => matches!(docs[*i], Value::Object(_)),
                Ok(Some(v)) => type_name(&v) == ty || type_name(&v) == "null",
                Err(_) => false,
            })
            .collect();
        if ids.is_empty() {
            continue;
        }
        let sub: Vec<Value> = ids.iter().map(|i| docs[*i].clone()).collect();
        let Ok(t2) = doc_table(&sub, &[]) else { continue };
        let sql = format!("SELECT {func}(doc, {}) FROM t ORDER BY id", lit(&l));
        match udf.query(&t2, &sql) {
            Err(e) => cx.bad(&format!("jsonudf-{func}-query-error"), "JSON UDF query with a literal key failed although every value has a compatible type", json!({"sql": sql, "error": e, "docs": sub})),
            Ok(arr) => {
                for (j, d) in sub.iter().enumerate() {
                    let model = model_get(d, &l, policy).ok().flatten();
                    let expect_null = matches!(model, None | Some(Value::Null));
                    let got_null = arr.is_null(j);
                    let same = if expect_null {
                        got_null
                    } else {
                        !got_null
                            && match func {
                                "json_get_string" => json_eq(&json!(arr.as_any().downcast_ref::<StringArray>().unwrap().value(j)), model.as_ref().unwrap()),
                                "json_get_int" => json_eq(&json!(arr.as_any().downcast_ref::<Int64Array>().unwrap().value(j)), model.as_ref().unwrap()),
                                "json_get_float" => json_eq(&json!(arr.as_any().downcast_ref::<Float64Array>().unwrap().value(j)), model.as_ref().unwrap()),
                                _ => json_eq(&json!(arr.as_any().downcast_ref::<BooleanArray>().unwrap().value(j)), model.as_ref().unwrap()),
                            }
                    };
                    judged += 1;
                    if case_variant_present(d, &l) {
                        variant_requests += 1;
                    }
                    if !same {
                        let cls = if expect_null && !got_null { if case_variant_present(d, &l) { "value-for-absent-key-with-case-variant" } else { "value-for-absent-key" } } else if got_null { "null-for-present-key" } else { "wrong-value" };
                        cx.bad(&format!("jsonudf-{func}-{cls}"), "JSON UDF (literal key) differs from the exact-key serde_json model", json!({"sql": sql, "doc": d, "key": l, "expected": model}));
                        break;
                    }
                }
            }
        }
    }
    // type mismatch policy: a few single-row probes must fall into the class recorded at start-up
    for _ in 0..2 {
        let i = rng.usize_below(docs.len());
        let Value::Object(m) = &docs[i] else { continue };
        let cands: Vec<(&String, &Value)> = m.iter().filter(|(k, _)| !is_index(k)).collect();
        if cands.is_empty() {
            continue;
        }
        let (k, v) = cands[rng.usize_below(cands.len())];
        let func = *rng.pick(&["json_get_string", "json_get_int", "json_get_float", "json_get_bool"]);
        let want = &func[9..]; // string / int / float / bool
        // strings are converted by content ("12" -> 12, "true" -> true): value dependent, not a fixed policy
        if type_name(v) == want || type_name(v) == "string" {
            continue;
        }
        let Some(rec) = policy.get(&format!("{func}/{}", type_name(v))) else { continue };
        if rec == "error" || rec == "null" {
            let got = single_class(udf, &docs[i], func, k);
            judged += 1;
            if &got != rec {
                cx.bad(&format!("jsonudf-{func}-type-mismatch-policy-{}", type_name(v)), "type mismatch handled differently from the behaviour recorded at start-up", json!({"doc": docs[i], "key": k, "recorded": rec, "got": got}));
            }
        }
    }
    // JSONPath functions + metamorphic relation with json_get
    let with_path: Vec<usize> = (0..docs.len()).filter(|i| paths[*i].is_some()).collect();
    if !with_path.is_empty() {
        let ex = udf.query(&table, "SELECT json_extract(doc, p) FROM t ORDER BY id");
        let exi = udf.query(&table, "SELECT json_exists(doc, p) FROM t ORDER BY id");
        match (ex, exi) {
            (Ok(ex), Ok(exi)) => {
                let ex = ex.as_any().downcast_ref::<StringArray>().unwrap().clone();
                let exi = exi.as_any().downcast_ref::<BooleanArray>().unwrap().clone();
                for i in &with_path {
                    let (path, model) = paths[*i].as_ref().unwrap();
                    judged += 2;
                    let got = if ex.is_null(*i) { None } else { serde_json::from_str::<Value>(ex.value(*i)).ok() };
                    let ok = match (model, &got) {
                        (None, None) => ex.is_null(*i),
                        (Some(m), Some(g)) => json_eq(m, g),
                        _ => false,
                    };
                    if !ok {
                        cx.bad("jsonudf-json_extract-value", "json_extract differs from walking the document with exact keys", json!({"doc": docs[*i], "path": path, "expected": model, "got": if ex.is_null(*i) { Value::Null } else { json!(ex.value(*i)) }}));
                        break;
                    }
                    if exi.is_null(*i) || exi.value(*i) != model.is_some() {
                        cx.bad("jsonudf-json_exists-value", "json_exists differs from key presence in the document", json!({"doc": docs[*i], "path": path, "expected": model.is_some()}));
                        break;
                    }
                }
            }
            (a, b) => cx.bad("jsonudf-jsonpath-query-error", "json_extract / json_exists failed on a valid path", json!({"extract": a.err(), "exists": b.err(), "paths": paths.iter().map(|p| p.as_ref().map(|x| x.0.clone())).collect::<Vec<_>>()})),
        }
        // metamorphic: json_get(doc, k) == json_extract(doc, '$.k') for top-level simple keys
        for l in ["name", "Name", "key", "A"] {
            let q1 = udf.query(&table, &format!("SELECT json_get(doc, {}) FROM t ORDER BY id", lit(l)));
            let q2 = udf.query(&table, &format!("SELECT json_extract(doc, {}) FROM t ORDER BY id", lit(&format!("$.{l}"))));
            if let (Ok(a), Ok(b)) = (q1, q2) {
                let a = a.as_any().downcast_ref::<LargeBinaryArray>().unwrap().clone();
                let b = b.as_any().downcast_ref::<StringArray>().unwrap().clone();
                for i in 0..docs.len() {
                    if !matches!(docs[i], Value::Object(_)) {
                        continue;
                    }
                    let va = if a.is_null(i) { None } else { decode_json(a.value(i)).ok().and_then(|s| serde_json::from_str::<Value>(&s).ok()) };
                    let vb = if b.is_null(i) { None } else { serde_json::from_str::<Value>(b.value(i)).ok() };
                    judged += 1;
                    let same = match (&va, &vb) {
                        (None, None) => true,
                        (Some(x), Some(y)) => json_eq(x, y),
                        // a present JSON null may be rendered as SQL NULL by one of the two
                        (Some(Value::Null), None) | (None, Some(Value::Null)) => true,
                        _ => false,
                    };
                    if !same {
                        let cls = if case_variant_present(&docs[i], l) { "with-case-variant" } else { "plain" };
                        cx.bad(&format!("jsonudf-json_get-vs-json_extract-{cls}"), "json_get(doc, k) and json_extract(doc, '$.k') disagree", json!({"doc": docs[i], "key": l, "json_get": va, "json_extract": vb}));
                        break;
                    }
                }
            }
        }
    }
    // arrays: json_array_length / json_array_contains on "$.k" paths that point to arrays (or to nothing)
    let arr_rows: Vec<(usize, String, Option<Vec<Value>>)> = docs
        .iter()
        .enumerate()
        .filter_map(|(i, d)| {
            let Value::Object(m) = d else { return None };
            let arrays: Vec<(&String, &Value)> = m.iter().filter(|(k, v)| simple_ident(k) && v.is_array()).collect();
            if !arrays.is_empty() && i % 3 != 2 {
                let (k, v) = arrays[i % arrays.len()];
                Some((i, format!("$.{k}"), v.as_array().cloned()))
            } else if !m.contains_key("noSuchArray") {
                Some((i, "$.noSuchArray".to_string(), None))
            } else {
                None
            }
        })
        .collect();
    if !arr_rows.is_empty() {
        let sub: Vec<Value> = arr_rows.iter().map(|r| docs[r.0].clone()).collect();
        let needles: Vec<Option<String>> = arr_rows
            .iter()
            .map(|r| match &r.2 {
                Some(a) if !a.is_empty() && rng.bool() => match &a[rng.usize_below(a.len())] {
                    Value::String(s) if !s.contains('"') => Some(s.clone()),
                    Value::Number(n) if n.is_i64() => Some(n.to_string()),
                    _ => Some("no-such-element".into()),
                },
                _ => Some("no-such-element".into()),
            })
            .collect();
        if let Ok(t3) = doc_table(&sub, &[("p", arr_rows.iter().map(|r| Some(r.1.clone())).collect()), ("needle", needles.clone())]) {
            match udf.query(&t3, "SELECT json_array_length(doc, p) FROM t ORDER BY id") {
                Ok(a) => {
                    let a = a.as_any().downcast_ref::<Int64Array>().unwrap().clone();
                    for (j, r) in arr_rows.iter().enumerate() {
                        judged += 1;
                        let ok = match &r.2 {
                            None => a.is_null(j),
                            Some(v) => !a.is_null(j) && a.value(j) == v.len() as i64,
                        };
                        if !ok {
                            cx.bad("jsonudf-json_array_length-value", "json_array_length differs from the array in the document", json!({"doc": docs[r.0], "path": r.1, "expected": r.2.as_ref().map(|v| v.len()), "got": if a.is_null(j) { Value::Null } else { json!(a.value(j)) }}));
                            break;
                        }
                    }
                }
                Err(e) => cx.bad("jsonudf-json_array_length-query-error", "json_array_length failed on paths that point to arrays or to nothing", json!({"error": e, "docs": sub, "paths": arr_rows.iter().map(|r| r.1.clone()).collect::<Vec<_>>()})),
            }
            match udf.query(&t3, "SELECT json_array_contains(doc, p, needle) FROM t ORDER BY id") {
                Ok(a) => {
                    let a = a.as_any().downcast_ref::<BooleanArray>().unwrap().clone();
                    for (j, r) in arr_rows.iter().enumerate() {
                        let needle = needles[j].clone().unwrap();
                        let expect = r.2.as_ref().map(|v| v.iter().any(|e| match e {
                            Value::String(s) => *s == needle,
                            other => other.to_string() == needle,
                        })).unwrap_or(false);
                        // floats / nested values render differently in jsonb: judged only for string and integer elements
                        let judgeable = r.2.as_ref().map(|v| v.iter().all(|e| matches!(e, Value::String(_) | Value::Null | Value::Bool(_)) || e.as_i64().is_some())).unwrap_or(true);
                        if !judgeable {
                            continue;
                        }
                        judged += 1;
                        if a.is_null(j) || a.value(j) != expect {
                            cx.bad("jsonudf-json_array_contains-value", "json_array_contains differs from the array in the document", json!({"doc": docs[r.0], "path": r.1, "needle": needle, "expected": expect}));
                            break;
                        }
                    }
                }
                Err(e) => cx.bad("jsonudf-json_array_contains-query-error", "json_array_contains failed", json!({"error": e})),
            }
        }
    }
    report.count("json_udf_results_judged", judged);
    report.count("json_udf_requests_with_case_variant_key_present", variant_requests);
    if case < 2 {
        report.sample(json!({"json_udf_case": case, "docs": docs.iter().take(3).collect::<Vec<_>>(), "keys": k_any.iter().take(3).collect::<Vec<_>>(), "paths": paths.iter().take(3).map(|p| p.as_ref().map(|x| x.0.clone())).collect::<Vec<_>>()}));
    }
    report.case(if judged > 10 { Some(fnv(format!("jsonudf|{}|{}|{}", n, variant_requests.min(9), with_path.len().min(9)).as_bytes())) } else { None });
}
