//! C28 — standalone compression kernels round trip (FSST, FastLanes bit-packing).
//!
//! Deciding oracle: observed outputs of the real kernels (`fsst::fsst::{compress, decompress}`,
//! `lance_bitpacking::BitPacking::{unchecked_pack, unchecked_unpack}`) on generated inputs;
//! `decompress(compress(x)) == x` or `compress` returned `Err`; `unpack(pack(x)) == x` for x masked
//! to the width. The generators / oracles live in `k28.rs` (shared with the Miri leg in /verif/san).
use crate::k28::*;
use crate::prng::Rng;
use serde_json::json;
use std::sync::atomic::{AtomicU64, Ordering};
use vmon::report::{Args, Report, Tier};

const FSST_STREAM: u64 = 1 << 40;
const BP_STREAM: u64 = 2 << 40;

fn fsst_case_for(seed: u64, idx: u64, scale: u32) -> (FsstCase, Rng) {
    let mut rng = Rng::for_case(seed, FSST_STREAM + idx);
    let kind = fsst_kind_for(idx);
    let case = gen_fsst(&mut rng, kind, scale);
    (case, rng)
}

fn bp_one(seed: u64, ty: usize, width: usize, pat: usize, rep: u64, corrupt: bool) -> Result<BpObs, Failure> {
    let idx = BP_STREAM + (((ty * 65 + width) * 16 + pat) as u64) * 4096 + rep;
    let mut rng = Rng::for_case(seed, idx);
    let p = BP_PATTERNS[pat];
    match ty {
        0 => bp_roundtrip::<u8>(&mut rng, width, p, corrupt),
        1 => bp_roundtrip::<u16>(&mut rng, width, p, corrupt),
        2 => bp_roundtrip::<u32>(&mut rng, width, p, corrupt),
        _ => bp_roundtrip::<u64>(&mut rng, width, p, corrupt),
    }
}

const TY_BITS: [usize; 4] = [8, 16, 32, 64];
const TY_NAME: [&str; 4] = ["u8", "u16", "u32", "u64"];

fn selftest(args: &Args) -> i32 {
    // corrupt the observation (one bit of the packed / compressed buffer) and require the oracle to fire
    let mut fired = 0;
    let mut total = 0;
    for ty in 0..4 {
        for width in 1..=TY_BITS[ty] {
            total += 1;
            if bp_one(args.seed, ty, width, 0, 0, true).is_err() {
                fired += 1;
            } else {
                eprintln!("selftest: bit flip NOT detected for {} w{}", TY_NAME[ty], width);
            }
        }
    }
    for idx in 0..(FSST_KINDS.len() as u64 * 2) {
        let (case, mut rng) = fsst_case_for(args.seed, idx, 10);
        let tot: usize = case.strings.iter().map(|s| s.len()).sum();
        if tot < 64 {
            continue;
        }
        total += 1;
        if run_fsst_case(&case, &mut rng, true).is_err() {
            fired += 1;
        } else {
            eprintln!("selftest: corruption NOT detected for fsst case {idx} kind {}", case.kind);
        }
    }
    println!("SELFTEST C28 fired={fired} of {total}");
    if fired == total {
        0
    } else {
        2
    }
}

pub fn run(args: &Args) -> i32 {
    if args.extra.contains_key("selftest") {
        return selftest(args);
    }
    let report = Report::new(
        args,
        "exploration",
        "FSST: seeded byte-string arrays; a quarter are 'every token is a symbol' corpora (32 tokens of 8 (4..7) bytes, each byte value in exactly one token, two frequency tiers, a least-frequent token whose rarest byte sits at a chosen position, most records ending 1..7 bytes before the end of their last token, optional trailing 0x00), a quarter are Zipf token corpora (records over 22-64 multi-byte tokens that together cover all 256 byte values, Zipf frequencies, cut at token boundaries and mid-token, optional trailing 0x00/0xFF, record lengths around multiples of 511, totals around the 32 KiB threshold), the rest rotate over 14 kinds (text, random, all-256, repeats, tiny, huge, threshold boundary, 0xFF-heavy, 511-chunk lengths, mixed, below-threshold, empty, skewed, prefixes) x i32/i64 offsets x optional non-zero first offset; non-trivial iff the encoder really ran (encoder switch on), distinct by (kind, offset width, #symbols, ratio bucket, log2 sizes). Bit-packing: ALL (u8/u16/u32/u64, width 0..=bits) pairs x 9 value patterns x reps on 1024-value chunks masked to the width with garbage-prefilled guarded outputs; non-trivial iff width>0 and some value non-zero, distinct by (type,width,pattern).",
        (40, 600),
    )
    .with_min_nontrivial(400);
    report.assume("FSST callers size output buffers like lance-encoding does: compress out = 2x input bytes and 2x offsets, decompress out = 8x compressed bytes (fsst's own documented minimum of 1x / 3x is smaller; see NOTES.md)");
    report.assume("bit-packing values are masked to the width (the property's precondition); unmasked inputs are out of scope");

    if let Some(path) = &args.replay {
        return replay(args, &report, path);
    }

    // ---------------- bit-packing: exhaustive over (type, width) ----------------
    let reps_random: u64 = args.tier.pick(150, 3000);
    let reps_other: u64 = args.tier.pick(6, 60);
    let mut pairs = vec![];
    for ty in 0..4 {
        for width in 0..=TY_BITS[ty] {
            pairs.push((ty, width));
        }
    }
    let n_pairs = pairs.len();
    let next = AtomicU64::new(0);
    let threads = crate::quiet::threads();
    std::thread::scope(|s| {
        for _ in 0..threads {
            s.spawn(|| loop {
                let k = next.fetch_add(1, Ordering::Relaxed) as usize;
                if k >= pairs.len() {
                    break;
                }
                let (ty, width) = pairs[k];
                for (pi, p) in BP_PATTERNS.iter().enumerate() {
                    let reps = if *p == "random" { reps_random } else { reps_other };
                    for rep in 0..reps {
                        match bp_one(args.seed, ty, width, pi, rep, false) {
                            Ok(o) => {
                                report.case(if width > 0 && o.nonzero { Some(o.sig) } else { None });
                                report.count("bitpack_chunks", 1);
                                report.count("bitpack_values_compared", 1024);
                            }
                            Err(f) => {
                                report.case(None);
                                report.violation(
                                    &f.sig,
                                    &f.what,
                                    json!({"engine":"bitpack","seed":args.seed,"type":TY_NAME[ty],"ty":ty,"width":width,
                                           "pattern":p,"pat":pi,"rep":rep,"detail":f.detail}),
                                );
                            }
                        }
                    }
                }
                report.count("bitpack_type_width_pairs", 1);
            });
        }
    });
    report.set("bitpack_pairs_expected", json!(n_pairs));
    report.exhaustive(report.counter("bitpack_type_width_pairs") == n_pairs as u64);
    report.set(
        "exhaustive_subspace",
        json!("all (integer type, bit width) pairs of the bit-packing kernels: 9+17+33+65 = 124"),
    );

    // ---------------- FSST ----------------
    let max_cases: u64 = args.tier.pick(14_000, 600_000);
    let scale = args.tier.pick(30, 100);
    let next = AtomicU64::new(0);
    std::thread::scope(|s| {
        for _ in 0..threads {
            s.spawn(|| loop {
                let idx = next.fetch_add(1, Ordering::Relaxed);
                if idx >= max_cases || !report.time_left() {
                    break;
                }
                let (case, mut rng) = fsst_case_for(args.seed, idx, scale);
                let r = run_fsst_case(&case, &mut rng, false);
                match r {
                    Ok(o) => {
                        report.count("fsst_arrays", 1);
                        report.count(&format!("fsst_kind_{}", case.kind), 1);
                        if let Some(e) = &o.rejected {
                            report.rejected();
                            report.case(None);
                            if report.counter("fsst_rejected_logged") < 3 {
                                report.count("fsst_rejected_logged", 1);
                                report.sample(json!({"fsst_rejected": e, "kind": case.kind, "strings": o.n_strings, "bytes": o.in_bytes}));
                            }
                            continue;
                        }
                        report.count("fsst_strings_compared", o.n_strings as u64);
                        report.count("fsst_bytes_compared", o.in_bytes as u64);
                        if o.encoder_on {
                            report.count("fsst_encoder_on", 1);
                            report.count(if case.wide { "fsst_encoded_i64" } else { "fsst_encoded_i32" }, 1);
                            report.count("fsst_compressed_bytes", o.out_bytes as u64);
                            if o.out_bytes > o.in_bytes {
                                report.count("fsst_expanded_outputs", 1);
                            }
                            report.case(Some(o.sig));
                            if idx < 6 {
                                report.sample(json!({"fsst": {"case": idx, "kind": case.kind, "offsets": if case.wide {64} else {32},
                                    "strings": o.n_strings, "in_bytes": o.in_bytes, "compressed_bytes": o.out_bytes,
                                    "symbols": o.n_symbols, "first_offset": case.lead}}));
                            }
                        } else {
                            report.count("fsst_copy_path", 1);
                            report.case(None);
                        }
                    }
                    Err(f) => {
                        report.case(None);
                        report.violation(
                            &f.sig,
                            &f.what,
                            json!({"engine":"fsst","seed":args.seed,"case":idx,"scale":scale,"kind":case.kind,"wide":case.wide,
                                   "lead":case.lead,"n_strings":case.strings.len(),"detail":f.detail}),
                        );
                    }
                }
            });
        }
    });
    if args.tier == Tier::Quick {
        report.set("note", json!("quick tier: Miri leg over the same generators runs from /verif/san/legs/C28.sh"));
    }
    report.finish()
}

fn replay(args: &Args, report: &Report, path: &str) -> i32 {
    if std::env::var("VERIF_EVIDENCE_OUT").is_err() {
        std::env::set_var("VERIF_EVIDENCE_OUT", format!("{}/work/replay-evidence-C28.json", vmon::report::verif_root()));
    }
    let Ok(txt) = std::fs::read_to_string(path) else {
        report.harness_error("cannot read replay file");
        return report.finish();
    };
    let v: serde_json::Value = serde_json::from_str(&txt).unwrap_or_default();
    let w = &v["witness"];
    let seed = w["seed"].as_u64().unwrap_or(args.seed);
    let res = match w["engine"].as_str() {
        Some("bitpack") => bp_one(
            seed,
            w["ty"].as_u64().unwrap_or(0) as usize,
            w["width"].as_u64().unwrap_or(0) as usize,
            w["pat"].as_u64().unwrap_or(0) as usize,
            w["rep"].as_u64().unwrap_or(0),
            false,
        )
        .map(|o| o.sig),
        Some("fsst") => {
            let (case, mut rng) = fsst_case_for(seed, w["case"].as_u64().unwrap_or(0), w["scale"].as_u64().unwrap_or(30) as u32);
            run_fsst_case(&case, &mut rng, false).map(|o| o.sig)
        }
        _ => {
            report.harness_error("replay file has no known engine");
            return report.finish();
        }
    };
    match res {
        Ok(sig) => {
            report.case(Some(sig));
            report.case(Some(sig ^ 1));
            println!("REPLAY C28: case passes");
        }
        Err(f) => {
            report.violation(&f.sig, &f.what, w.clone());
        }
    }
    let r = Report::finish(report);
    if r == 2 { 0 } else { r }
}
