//! C35 kernels: every public distance path of `lance_linalg::distance` against an f64 scalar
//! definition with a forward-error-bound tolerance. Dependency-light (std, lance-linalg, half,
//! arrow-array/-buffer/-schema, the seeded Rng) so that `/verif/san` can include it for Miri.
#![allow(dead_code)]

use crate::prng::{fnv, Rng};
use arrow_array::types::{Float16Type, Float32Type, Float64Type, Int8Type, UInt8Type};
use arrow_array::{Array, ArrayRef, FixedSizeListArray, PrimitiveArray};
use arrow_buffer::NullBuffer;
use arrow_schema::{DataType, Field};
use half::{bf16, f16};
use lance_linalg::distance::hamming::{hamming, hamming_distance_arrow_batch, hamming_distance_batch, hamming_scalar};
use lance_linalg::distance::{
    cosine_distance, cosine_distance_arrow_batch, cosine_distance_batch, dot, dot_distance, dot_distance_arrow_batch,
    dot_distance_batch, l2, l2_distance, l2_distance_arrow_batch, l2_distance_batch, norm_l2, Cosine, DistanceType, Dot,
    Normalize, L2,
};
use std::collections::BTreeMap;
use std::panic::{catch_unwind, AssertUnwindSafe};
use std::sync::Arc;

#[derive(Debug, Clone)]
pub struct Failure {
    pub sig: String,
    pub what: String,
    pub detail: String,
}

/// what one call of the checker observed
#[derive(Default)]
pub struct Out {
    pub failures: Vec<Failure>,
    pub counters: BTreeMap<String, u64>,
    pub nontrivial: Vec<u64>,
    pub evaluations: u64,
}
impl Out {
    pub fn count(&mut self, k: &str, n: u64) {
        *self.counters.entry(k.to_string()).or_insert(0) += n;
    }
    fn fail(&mut self, sig: String, what: &str, detail: String) {
        if self.failures.len() < 50 {
            self.failures.push(Failure {
                sig,
                what: what.to_string(),
                detail,
            });
        }
    }
}

#[derive(Clone, Copy, PartialEq, Debug)]
pub enum Acc {
    /// products / sums carried in f32
    F32,
    /// sums carried in f64, final value cast to f32
    F64Cast,
    /// integer arithmetic (exact), final value cast to f32
    Int,
}

pub trait Elem: Copy + L2 + Cosine + Dot + Normalize + Send + Sync + std::fmt::Debug + 'static {
    const NAME: &'static str;
    const ACC: Acc;
    fn from_f64(v: f64) -> Self;
    fn to_f64(self) -> f64;
    /// decimal exponent range of scales that are representable
    fn exp_range() -> (i32, i32);
    /// Arrow array of this element type, None when Arrow has no such type (bf16)
    fn arrow(v: &[Self]) -> Option<ArrayRef>;
    /// whether the `*_arrow_batch` helpers document support for this element type
    const ARROW_BATCH: bool;
}

impl Elem for f32 {
    const NAME: &'static str = "f32";
    const ACC: Acc = Acc::F32;
    fn from_f64(v: f64) -> Self {
        v as f32
    }
    fn to_f64(self) -> f64 {
        self as f64
    }
    fn exp_range() -> (i32, i32) {
        (-30, 30)
    }
    fn arrow(v: &[Self]) -> Option<ArrayRef> {
        Some(Arc::new(PrimitiveArray::<Float32Type>::from(v.to_vec())))
    }
    const ARROW_BATCH: bool = true;
}
impl Elem for f64 {
    const NAME: &'static str = "f64";
    const ACC: Acc = Acc::F64Cast;
    fn from_f64(v: f64) -> Self {
        v
    }
    fn to_f64(self) -> f64 {
        self
    }
    fn exp_range() -> (i32, i32) {
        (-30, 30)
    }
    fn arrow(v: &[Self]) -> Option<ArrayRef> {
        Some(Arc::new(PrimitiveArray::<Float64Type>::from(v.to_vec())))
    }
    const ARROW_BATCH: bool = true;
}
impl Elem for f16 {
    const NAME: &'static str = "f16";
    const ACC: Acc = Acc::F32;
    fn from_f64(v: f64) -> Self {
        f16::from_f64(v)
    }
    fn to_f64(self) -> f64 {
        f16::to_f64(self)
    }
    fn exp_range() -> (i32, i32) {
        (-6, 4)
    }
    fn arrow(v: &[Self]) -> Option<ArrayRef> {
        Some(Arc::new(PrimitiveArray::<Float16Type>::from(v.to_vec())))
    }
    const ARROW_BATCH: bool = true;
}
impl Elem for bf16 {
    const NAME: &'static str = "bf16";
    const ACC: Acc = Acc::F32;
    fn from_f64(v: f64) -> Self {
        bf16::from_f64(v)
    }
    fn to_f64(self) -> f64 {
        bf16::to_f64(self)
    }
    fn exp_range() -> (i32, i32) {
        (-30, 30)
    }
    fn arrow(_: &[Self]) -> Option<ArrayRef> {
        None
    }
    const ARROW_BATCH: bool = false;
}
impl Elem for u8 {
    const NAME: &'static str = "u8";
    const ACC: Acc = Acc::Int;
    fn from_f64(v: f64) -> Self {
        v.abs().min(255.0) as u8
    }
    fn to_f64(self) -> f64 {
        self as f64
    }
    fn exp_range() -> (i32, i32) {
        (0, 2)
    }
    fn arrow(v: &[Self]) -> Option<ArrayRef> {
        Some(Arc::new(PrimitiveArray::<UInt8Type>::from(v.to_vec())))
    }
    const ARROW_BATCH: bool = false;
}

// ---------------------------------------------------------------------------------------------
// reference (the scalar definitions, in f64)
// ---------------------------------------------------------------------------------------------

#[derive(Debug, Clone, Copy)]
pub struct Ref {
    pub n: usize,
    pub sq: f64,
    pub dot: f64,
    pub dot_abs: f64,
    pub nx2: f64,
    pub ny2: f64,
    pub special: bool, // some input is NaN / inf
    pub has_nan: bool,
}

pub fn reference(x: &[f64], y: &[f64]) -> Ref {
    let mut r = Ref {
        n: x.len(),
        sq: 0.0,
        dot: 0.0,
        dot_abs: 0.0,
        nx2: 0.0,
        ny2: 0.0,
        special: false,
        has_nan: false,
    };
    for (a, b) in x.iter().zip(y.iter()) {
        let d = a - b;
        r.sq += d * d;
        r.dot += a * b;
        r.dot_abs += (a * b).abs();
        r.nx2 += a * a;
        r.ny2 += b * b;
        if !a.is_finite() || !b.is_finite() {
            r.special = true;
        }
        if a.is_nan() || b.is_nan() {
            r.has_nan = true;
        }
    }
    r
}

const U32: f64 = 5.960464477539063e-8; // 2^-24, unit roundoff of f32
const U64: f64 = 1.1102230246251565e-16; // 2^-53
const ETA32: f64 = 1.401298464324817e-45; // 2^-149, smallest f32 subnormal
const FMAX: f64 = f32::MAX as f64;
/// safety factor c of the bound c * n * u * sum|terms|
const C: f64 = 2.0;

fn gamma(n: usize, acc: Acc) -> f64 {
    let u = match acc {
        Acc::F32 => U32,
        Acc::F64Cast => U64,
        Acc::Int => 0.0,
    };
    C * (n as f64 + 8.0) * u
}

pub fn class(v: f32) -> String {
    if v.is_nan() {
        "nan".into()
    } else if v == f32::INFINITY {
        "+inf".into()
    } else if v == f32::NEG_INFINITY {
        "-inf".into()
    } else {
        format!("{v:e}")
    }
}

#[derive(Debug, PartialEq)]
pub enum Judge {
    Ok,
    /// the case leaves the range in which the forward error bound is valid (intermediate
    /// overflow with mixed signs etc.): observed, not judged
    Range,
    Bad(String),
}

/// compare a kernel result with the reference value `expect` under absolute tolerance `tol`.
/// `partial_abs`: upper bound of the magnitude of any partial sum (for overflow classification).
fn compare(got: f32, expect: f64, tol: f64, partial_abs: f64, mixed_sign: bool, acc: Acc) -> Judge {
    if expect.is_nan() {
        return if got.is_nan() {
            Judge::Ok
        } else {
            Judge::Bad(format!("expected NaN (IEEE scalar definition), got {got:e}"))
        };
    }
    if expect.is_infinite() {
        return if (got as f64) == expect {
            Judge::Ok
        } else {
            Judge::Bad(format!("expected {expect}, got {got:e}"))
        };
    }
    // finite reference
    if acc == Acc::F32 && mixed_sign && partial_abs * (1.0 + 1e-3) >= FMAX {
        // terms of both signs: a partial f32 sum can overflow to +inf and another to -inf (=> NaN) or
        // overflow although the final result is representable; the order of summation decides
        return Judge::Range;
    }
    if expect.abs() - tol > FMAX {
        return if got.is_infinite() && (got > 0.0) == (expect > 0.0) {
            Judge::Ok
        } else {
            Judge::Bad(format!("expected overflow to inf ({expect:e}), got {got:e}"))
        };
    }
    if expect.abs() + tol >= FMAX && got.is_infinite() && (got > 0.0) == (expect > 0.0) {
        return Judge::Ok;
    }
    if got.is_nan() {
        return Judge::Bad(format!("expected {expect:e}, got NaN"));
    }
    let err = (got as f64 - expect).abs();
    if err <= tol {
        Judge::Ok
    } else {
        Judge::Bad(format!(
            "expected {expect:e} got {got:e} |err| {err:e} > tol {tol:e} (err/tol {:.2})",
            err / tol
        ))
    }
}

pub fn judge_l2(got: f32, r: &Ref, acc: Acc) -> Judge {
    // every term >= 0: sum|terms| = sq
    let tol = gamma(r.n, acc) * r.sq + U32 * r.sq.abs() + (r.n as f64 + 2.0) * ETA32;
    compare(got, r.sq, tol, r.sq, false, acc)
}
pub fn judge_dot(got: f32, r: &Ref, acc: Acc) -> Judge {
    let tol = gamma(r.n, acc) * r.dot_abs + U32 * r.dot.abs() + (r.n as f64 + 2.0) * ETA32;
    compare(got, r.dot, tol, r.dot_abs, true, acc)
}
pub fn judge_dot_distance(got: f32, r: &Ref, acc: Acc) -> Judge {
    let e = 1.0 - r.dot;
    let tol = gamma(r.n, acc) * r.dot_abs + U32 * r.dot.abs() + 2.0 * U32 * e.abs() + (r.n as f64 + 2.0) * ETA32;
    compare(got, e, tol, r.dot_abs, true, acc)
}
pub fn judge_norm(got: f32, nx2: f64, n: usize, acc: Acc) -> Judge {
    let e = nx2.sqrt();
    let tol = (gamma(n, acc) + 3.0 * U32) * e + ((n as f64 + 2.0) * ETA32).sqrt();
    // overflow of the squared sum happens at sqrt(FMAX) already for f32 accumulation
    if acc != Acc::F64Cast && nx2.is_finite() && nx2 * (1.0 + 1e-3) >= FMAX {
        return if got.is_infinite() || ((got as f64 - e).abs() <= tol) {
            Judge::Ok
        } else {
            Judge::Bad(format!("norm: expected inf or {e:e}, got {got:e}"))
        };
    }
    compare(got, e, tol, 0.0, false, acc)
}
/// cosine is only judged when every intermediate (norms^2, sum|x y|) stays well inside the f32 range
pub fn cosine_in_range(r: &Ref) -> bool {
    let lo = 1e-30;
    let hi = 1e37;
    r.nx2 >= lo && r.ny2 >= lo && r.nx2 <= hi && r.ny2 <= hi && r.dot_abs <= hi && !r.special
}
pub fn judge_cosine(got: f32, r: &Ref, acc: Acc) -> Judge {
    if !cosine_in_range(r) {
        return Judge::Range;
    }
    let nn = (r.nx2 * r.ny2).sqrt();
    let c = r.dot / nn;
    let c_abs = r.dot_abs / nn;
    let e = 1.0 - c;
    // the norms and dot products are always rounded to f32 before they are combined
    let g = gamma(r.n, acc) + 2.0 * U32;
    let tol = g * c_abs + c.abs() * (g + 6.0 * U32) + 2.0 * U32 * e.abs() + 4.0 * U32;
    compare(got, e, tol, 0.0, false, Acc::F64Cast)
}

// ---------------------------------------------------------------------------------------------
// generators
// ---------------------------------------------------------------------------------------------

pub const SHAPES: &[&str] = &["uniform", "positive", "sparse", "near", "const", "zero_x", "zero_y", "mixed_mag", "special"];

fn pick_exp(rng: &mut Rng, lo: i32, hi: i32) -> i32 {
    let r = rng.below(4);
    let (a, b) = match r {
        0 | 1 => (-3, 3),
        2 => (-18, 18),
        _ => (-30, 30),
    };
    rng.range(a.max(lo) as i64, b.min(hi) as i64) as i32
}

pub struct Case<T> {
    pub x: Vec<T>,
    /// m vectors of the same dimension, flattened
    pub ys: Vec<T>,
    pub m: usize,
    pub shape: &'static str,
    pub ex: i32,
    pub ey: i32,
}

pub fn gen_case<T: Elem>(rng: &mut Rng, n: usize, shape: &'static str, m: usize) -> Case<T> {
    let (lo, hi) = T::exp_range();
    let ex = pick_exp(rng, lo, hi);
    let ey = if rng.chance(4, 5) { ex } else { pick_exp(rng, lo, hi) };
    let sx = 10f64.powi(ex);
    let sy = 10f64.powi(ey);
    let val = |rng: &mut Rng, s: f64, positive: bool| -> f64 {
        let v = if positive { rng.f64() } else { rng.f64() * 2.0 - 1.0 };
        v * s
    };
    let is_u8 = T::ACC == Acc::Int;
    let mut x: Vec<f64> = (0..n)
        .map(|_| if is_u8 { rng.below(256) as f64 } else { val(rng, sx, shape == "positive") })
        .collect();
    let mut ys: Vec<f64> = Vec::with_capacity(n * m);
    for j in 0..m {
        for i in 0..n {
            let v = if is_u8 {
                match shape {
                    "near" => (x[i] + rng.range(-1, 1) as f64).clamp(0.0, 255.0),
                    "sparse" => {
                        if rng.chance(1, 8) {
                            rng.below(256) as f64
                        } else {
                            0.0
                        }
                    }
                    "const" => 255.0,
                    _ => rng.below(256) as f64,
                }
            } else {
                match shape {
                    "near" => {
                        if j == 0 {
                            x[i]
                        } else {
                            x[i] * (1.0 + (rng.f64() - 0.5) * 1e-3)
                        }
                    }
                    "sparse" => {
                        if rng.chance(1, 8) {
                            val(rng, sy, false)
                        } else {
                            0.0
                        }
                    }
                    "const" => sy,
                    "mixed_mag" => {
                        let e = rng.range(-4, 4) as i32;
                        val(rng, sy * 10f64.powi(e), false)
                    }
                    "positive" => val(rng, sy, true),
                    _ => val(rng, sy, false),
                }
            };
            ys.push(v);
        }
    }
    match shape {
        "sparse" if !is_u8 => {
            for v in x.iter_mut() {
                if !rng.chance(1, 8) {
                    *v = 0.0
                }
            }
        }
        "const" if !is_u8 => x.iter_mut().for_each(|v| *v = -sx),
        "zero_x" => x.iter_mut().for_each(|v| *v = 0.0),
        "zero_y" => {
            // first batch vector all zero
            for v in ys.iter_mut().take(n) {
                *v = 0.0
            }
        }
        "special" if !is_u8 && n > 0 => {
            // moderate magnitudes + a few NaN / inf
            let s = 10f64.powi(rng.range(-2, 2) as i32);
            x.iter_mut().for_each(|v| *v = (rng.f64() * 2.0 - 1.0) * s);
            ys.iter_mut().for_each(|v| *v = (rng.f64() * 2.0 - 1.0) * s);
            let k = rng.urange(1, 3);
            for _ in 0..k {
                let sp = *rng.pick(&[f64::NAN, f64::INFINITY, f64::NEG_INFINITY]);
                if rng.bool() {
                    let i = rng.usize_below(n);
                    x[i] = sp;
                } else {
                    let i = rng.usize_below(n * m);
                    ys[i] = sp;
                }
            }
        }
        _ => {}
    }
    Case {
        x: x.into_iter().map(T::from_f64).collect(),
        ys: ys.into_iter().map(T::from_f64).collect(),
        m,
        shape,
        ex,
        ey,
    }
}

// ---------------------------------------------------------------------------------------------
// NaN / zero-norm / empty policy: observed first on canonical probes, then enforced everywhere
// ---------------------------------------------------------------------------------------------

pub type Policy = BTreeMap<String, String>;

pub fn probe_policy() -> Policy {
    let mut p = Policy::new();
    let x: Vec<f32> = (1..=8).map(|i| i as f32).collect();
    let z = vec![0f32; 8];
    let mut xn = x.clone();
    xn[3] = f32::NAN;
    p.insert("l2/nan-input".into(), class(l2(&xn, &x)));
    p.insert("dot/nan-input".into(), class(dot(&xn, &x)));
    p.insert("cosine/nan-input".into(), class(cosine_distance(&xn, &x)));
    p.insert("cosine/zero-x".into(), class(cosine_distance(&z, &x)));
    p.insert("cosine/zero-y".into(), class(cosine_distance(&x, &z)));
    p.insert("cosine/zero-both".into(), class(cosine_distance(&z, &z)));
    let e: Vec<f32> = vec![];
    p.insert("l2/empty".into(), class(l2(&e, &e)));
    p.insert("dot/empty".into(), class(dot(&e, &e)));
    p.insert("dot_distance/empty".into(), class(dot_distance(&e, &e)));
    p.insert("cosine/empty".into(), class(cosine_distance(&e, &e)));
    p.insert("hamming/empty".into(), class(hamming(&[], &[])));
    p
}

pub fn panic_msg(p: Box<dyn std::any::Any + Send>) -> String {
    if let Some(s) = p.downcast_ref::<&str>() {
        s.to_string()
    } else if let Some(s) = p.downcast_ref::<String>() {
        s.clone()
    } else {
        "<non-string panic>".into()
    }
}

fn nan_class(c: &str) -> bool {
    c == "nan"
}

// ---------------------------------------------------------------------------------------------
// the monitor: run every path on one generated case
// ---------------------------------------------------------------------------------------------

fn guarded<R>(out: &mut Out, path: &str, ty: &str, n: usize, f: impl FnOnce() -> R) -> Option<R> {
    match catch_unwind(AssertUnwindSafe(f)) {
        Ok(r) => Some(r),
        Err(p) => {
            let msg = panic_msg(p);
            out.fail(
                format!("panic-{path}-{ty}"),
                "distance kernel panicked on equal-length vectors",
                format!("n={n}: {msg}"),
            );
            None
        }
    }
}

/// policy check for zero-norm / nan / empty situations; returns true when the value was handled here
fn policy_check(out: &mut Out, policy: &Policy, key: &str, path: &str, ty: &str, n: usize, got: f32) {
    if let Some(expect) = policy.get(key) {
        let g = class(got);
        let same = if nan_class(expect) { nan_class(&g) } else { *expect == g };
        out.count("policy_checks", 1);
        if !same {
            out.fail(
                format!("policy-{key}-{path}-{ty}"),
                "path deviates from the recorded NaN / zero-norm / empty-vector policy",
                format!("n={n}: recorded {expect} (f32 simple path), this path returned {g}"),
            );
        }
    }
}

fn record(out: &mut Out, j: Judge, metric: &str, path: &str, ty: &str, c: &CaseInfo, j_idx: usize) {
    match j {
        Judge::Ok => out.count("values_judged", 1),
        Judge::Range => out.count("values_out_of_f32_range_not_judged", 1),
        Judge::Bad(d) => {
            let tail = if c.n % 8 != 0 { "tail" } else { "aligned" };
            out.fail(
                format!("{metric}-{path}-{ty}-{tail}"),
                "kernel result differs from the f64 scalar definition beyond the forward error bound",
                format!(
                    "n={} shape={} ex={} ey={} batch_row={} off=({},{}): {}",
                    c.n, c.shape, c.ex, c.ey, j_idx, c.offx, c.offy, d
                ),
            )
        }
    }
}

pub struct CaseInfo {
    pub n: usize,
    pub shape: &'static str,
    pub ex: i32,
    pub ey: i32,
    pub offx: usize,
    pub offy: usize,
}

/// Runs all paths for element type T on one case. `corrupt`: selftest — perturb the observation.
pub fn check_case<T: Elem>(rng: &mut Rng, n: usize, shape: &'static str, policy: &Policy, corrupt: bool, out: &mut Out) {
    let m = rng.urange(1, 4);
    let case: Case<T> = gen_case(rng, n, shape, m);
    // unaligned placement: copy into larger buffers at a small offset
    let offx = rng.usize_below(4);
    let offy = rng.usize_below(4);
    let mut xb: Vec<T> = vec![T::from_f64(7.0); offx];
    xb.extend_from_slice(&case.x);
    let mut yb: Vec<T> = vec![T::from_f64(9.0); offy];
    yb.extend_from_slice(&case.ys);
    let x = &xb[offx..];
    let ys = &yb[offy..];
    let ty = T::NAME;
    let acc = T::ACC;
    // u8 norms / cosine are carried in f32 (only l2 / dot are exact integer sums)
    let acc_f = if acc == Acc::Int { Acc::F32 } else { acc };
    let info = CaseInfo {
        n,
        shape,
        ex: case.ex,
        ey: case.ey,
        offx,
        offy,
    };
    let xf: Vec<f64> = x.iter().map(|v| v.to_f64()).collect();
    let refs: Vec<Ref> = (0..m)
        .map(|j| {
            let yf: Vec<f64> = ys[j * n..(j + 1) * n].iter().map(|v| v.to_f64()).collect();
            reference(&xf, &yf)
        })
        .collect();
    out.evaluations += 1;
    let tweak = |v: f32| -> f32 {
        if corrupt {
            // selftest: drop "the last lane" worth of value: a relative perturbation of 1e-3
            if v == 0.0 || !v.is_finite() {
                v + 1.0
            } else {
                v * 1.001
            }
        } else {
            v
        }
    };

    // ---------------- single-pair paths ----------------
    for j in 0..m {
        let y = &ys[j * n..(j + 1) * n];
        let r = &refs[j];
        // L2
        for (path, f) in [
            ("l2", (|a: &[T], b: &[T]| l2(a, b)) as fn(&[T], &[T]) -> f32),
            ("L2::l2", |a, b| T::l2(a, b)),
            ("DistanceType::L2.func", |a, b| DistanceType::L2.func::<T>()(a, b)),
        ] {
            if let Some(g) = guarded(out, path, ty, n, || f(x, y)) {
                record(out, judge_l2(tweak(g), r, acc), "l2", path, ty, &info, j);
                if n == 0 {
                    policy_check(out, policy, "l2/empty", path, ty, n, g);
                }
            }
        }
        // dot
        for (path, f) in [
            ("dot", (|a: &[T], b: &[T]| dot(a, b)) as fn(&[T], &[T]) -> f32),
            ("Dot::dot", |a, b| T::dot(a, b)),
        ] {
            if let Some(g) = guarded(out, path, ty, n, || f(x, y)) {
                record(out, judge_dot(tweak(g), r, acc), "dot", path, ty, &info, j);
                if n == 0 {
                    policy_check(out, policy, "dot/empty", path, ty, n, g);
                }
            }
        }
        for (path, f) in [
            ("dot_distance", (|a: &[T], b: &[T]| dot_distance(a, b)) as fn(&[T], &[T]) -> f32),
            ("DistanceType::Dot.func", |a, b| DistanceType::Dot.func::<T>()(a, b)),
        ] {
            if let Some(g) = guarded(out, path, ty, n, || f(x, y)) {
                record(out, judge_dot_distance(tweak(g), r, acc), "dot_distance", path, ty, &info, j);
                if n == 0 {
                    policy_check(out, policy, "dot_distance/empty", path, ty, n, g);
                }
            }
        }
        // norms
        if let Some(g) = guarded(out, "norm_l2", ty, n, || norm_l2(y)) {
            if !r.special {
                record(out, judge_norm(tweak(g), r.ny2, n, acc_f), "norm_l2", "norm_l2", ty, &info, j);
            }
        }
        // cosine: four entry points
        let xn = norm_l2(x);
        let yn = norm_l2(y);
        let cos_paths: [(&str, Box<dyn Fn() -> f32 + '_>); 5] = [
            ("cosine_distance", Box::new(|| cosine_distance(x, y))),
            ("Cosine::cosine", Box::new(|| T::cosine(x, y))),
            ("Cosine::cosine_fast", Box::new(|| T::cosine_fast(x, xn, y))),
            ("Cosine::cosine_with_norms", Box::new(|| T::cosine_with_norms(x, xn, yn, y))),
            ("DistanceType::Cosine.func", Box::new(|| DistanceType::Cosine.func::<T>()(x, y))),
        ];
        for (path, f) in cos_paths.iter() {
            if let Some(g) = guarded(out, path, ty, n, || f()) {
                cosine_verdict(out, policy, tweak(g), g, r, acc_f, path, ty, &info, j);
            }
        }
    }

    // ---------------- batch paths (dimension must be > 0) ----------------
    if n > 0 {
        if let Some(v) = guarded(out, "l2_distance_batch", ty, n, || l2_distance_batch(x, ys, n).collect::<Vec<f32>>()) {
            batch_verdict(out, &v, &refs, "l2", "l2_distance_batch", ty, acc, &info, &tweak);
        }
        if let Some(v) = guarded(out, "L2::l2_batch", ty, n, || T::l2_batch(x, ys, n).collect::<Vec<f32>>()) {
            batch_verdict(out, &v, &refs, "l2", "L2::l2_batch", ty, acc, &info, &tweak);
        }
        if let Some(v) = guarded(out, "dot_distance_batch", ty, n, || dot_distance_batch(x, ys, n).collect::<Vec<f32>>()) {
            batch_verdict(out, &v, &refs, "dot_distance", "dot_distance_batch", ty, acc, &info, &tweak);
        }
        for (path, f) in [
            ("cosine_distance_batch", (|a: &[T], b: &[T], d: usize| cosine_distance_batch(a, b, d).collect::<Vec<f32>>()) as fn(&[T], &[T], usize) -> Vec<f32>),
            ("Cosine::cosine_batch", |a, b, d| T::cosine_batch(a, b, d).collect::<Vec<f32>>()),
        ] {
            if let Some(v) = guarded(out, path, ty, n, || f(x, ys, n)) {
                if v.len() != m {
                    out.fail(format!("batch-len-{path}-{ty}"), "batch helper returned a wrong number of distances", format!("n={n} m={m} got {}", v.len()));
                } else {
                    for j in 0..m {
                        cosine_verdict(out, policy, tweak(v[j]), v[j], &refs[j], acc_f, path, ty, &info, j);
                    }
                }
            }
        }
        // ---------------- Arrow batch paths ----------------
        if let (Some(from), Some(vals)) = (T::arrow(&xb), T::arrow(&yb)) {
            // `from` is a *sliced* primitive array; `to` is a FixedSizeList with nulls, optionally sliced
            let from = from.slice(offx, n);
            let vals = vals.slice(offy, n * m);
            let valid: Vec<bool> = (0..m).map(|_| !rng.chance(1, 4)).collect();
            let nulls = if rng.bool() { Some(NullBuffer::from(valid.clone())) } else { None };
            let field = Arc::new(Field::new("item", vals.data_type().clone(), true));
            let fsl = FixedSizeListArray::new(field, n as i32, vals, nulls.clone());
            let (fsl, skip) = if m > 1 && rng.bool() { (fsl.slice(1, m - 1), 1) } else { (fsl, 0) };
            type ArrowFn = fn(&dyn Array, &FixedSizeListArray) -> lance_linalg::Result<Arc<arrow_array::Float32Array>>;
            let paths: [(&str, &str, ArrowFn); 6] = [
                ("l2", "l2_distance_arrow_batch", l2_distance_arrow_batch),
                ("l2", "DistanceType::L2.arrow_batch_func", DistanceType::L2.arrow_batch_func()),
                ("dot_distance", "dot_distance_arrow_batch", dot_distance_arrow_batch),
                ("dot_distance", "DistanceType::Dot.arrow_batch_func", DistanceType::Dot.arrow_batch_func()),
                ("cosine", "cosine_distance_arrow_batch", cosine_distance_arrow_batch),
                ("cosine", "DistanceType::Cosine.arrow_batch_func", DistanceType::Cosine.arrow_batch_func()),
            ];
            for (metric, path, f) in paths {
                let Some(res) = guarded(out, path, ty, n, || f(from.as_ref(), &fsl)) else { continue };
                match res {
                    Err(e) => {
                        if T::ARROW_BATCH {
                            out.fail(format!("arrow-batch-err-{path}-{ty}"), "arrow batch helper failed on a supported type", e.to_string());
                        } else {
                            out.count("arrow_batch_rejected_unsupported_type", 1);
                        }
                    }
                    Ok(arr) => {
                        if !T::ARROW_BATCH {
                            out.count("arrow_batch_accepted_undocumented_type", 1);
                        }
                        if arr.len() != m - skip {
                            out.fail(format!("arrow-batch-len-{path}-{ty}"), "arrow batch helper returned a wrong number of rows", format!("n={n} rows {} got {}", m - skip, arr.len()));
                            continue;
                        }
                        for j in skip..m {
                            let is_valid = nulls.as_ref().map(|_| valid[j]).unwrap_or(true);
                            if arr.is_valid(j - skip) != is_valid {
                                out.fail(format!("arrow-batch-nulls-{path}-{ty}"), "null buffer of `to` not propagated", format!("n={n} row {j} expected valid={is_valid}"));
                                continue;
                            }
                            if !is_valid {
                                continue;
                            }
                            let g = arr.value(j - skip);
                            match metric {
                                "l2" => record(out, judge_l2(tweak(g), &refs[j], acc), "l2", path, ty, &info, j),
                                "dot_distance" => record(out, judge_dot_distance(tweak(g), &refs[j], acc), "dot_distance", path, ty, &info, j),
                                _ => cosine_verdict(out, policy, tweak(g), g, &refs[j], acc_f, path, ty, &info, j),
                            }
                        }
                        out.count("arrow_batches", 1);
                    }
                }
            }
        }
    }
    // non-triviality: a judged in-range case with non-zero reference distance on a non-empty vector
    let nontriv = n > 0 && refs.iter().any(|r| !r.special && r.sq > 0.0 && r.sq < FMAX && r.sq > 1e-35);
    if nontriv {
        let s = format!("{ty}|{n}|{shape}|{}|{}", case.ex.signum() * (case.ex.abs() / 10 + (case.ex != 0) as i32), case.ex == case.ey);
        out.nontrivial.push(fnv(s.as_bytes()));
    }
}

#[allow(clippy::too_many_arguments)]
fn cosine_verdict(out: &mut Out, policy: &Policy, g: f32, raw: f32, r: &Ref, acc: Acc, path: &str, ty: &str, info: &CaseInfo, j: usize) {
    let n = r.n;
    if n == 0 {
        policy_check(out, policy, "cosine/empty", path, ty, n, raw);
        return;
    }
    if r.special {
        // NaN in the inputs: every path must follow the recorded NaN policy; inf inputs are observed only
        if r.has_nan {
            policy_check(out, policy, "cosine/nan-input", path, ty, n, raw);
        } else {
            out.count("cosine_inf_inputs_observed_not_judged", 1);
        }
        return;
    }
    let zx = r.nx2 == 0.0;
    let zy = r.ny2 == 0.0;
    if zx || zy {
        let key = if zx && zy { "cosine/zero-both" } else if zx { "cosine/zero-x" } else { "cosine/zero-y" };
        // cosine_with_norms gets its norms from the caller; same policy expected
        policy_check(out, policy, key, path, ty, n, raw);
        return;
    }
    record(out, judge_cosine(g, r, acc), "cosine", path, ty, info, j);
}

#[allow(clippy::too_many_arguments)]
fn batch_verdict(out: &mut Out, v: &[f32], refs: &[Ref], metric: &str, path: &str, ty: &str, acc: Acc, info: &CaseInfo, tweak: &dyn Fn(f32) -> f32) {
    if v.len() != refs.len() {
        out.fail(format!("batch-len-{path}-{ty}"), "batch helper returned a wrong number of distances", format!("n={} m={} got {}", info.n, refs.len(), v.len()));
        return;
    }
    for (j, (g, r)) in v.iter().zip(refs.iter()).enumerate() {
        let jd = match metric {
            "l2" => judge_l2(tweak(*g), r, acc),
            _ => judge_dot_distance(tweak(*g), r, acc),
        };
        record(out, jd, metric, path, ty, info, j);
    }
}

// ---------------------------------------------------------------------------------------------
// f32-only / u8-only / i8 paths
// ---------------------------------------------------------------------------------------------

pub fn check_f32_only(rng: &mut Rng, n: usize, out: &mut Out) {
    let case: Case<f32> = gen_case(rng, n, "uniform", 1);
    let xf: Vec<f64> = case.x.iter().map(|v| *v as f64).collect();
    let yf: Vec<f64> = case.ys.iter().map(|v| *v as f64).collect();
    let r = reference(&xf, &yf);
    let info = CaseInfo { n, shape: "uniform", ex: case.ex, ey: case.ey, offx: 0, offy: 0 };
    if let Some(g) = guarded(out, "l2_distance", "f32", n, || l2_distance(&case.x, &case.ys)) {
        record(out, judge_l2(g, &r, Acc::F32), "l2", "l2_distance", "f32", &info, 0);
    }
    out.evaluations += 1;
}

pub fn check_hamming(rng: &mut Rng, n: usize, policy: &Policy, corrupt: bool, out: &mut Out) {
    let m = rng.urange(1, 4);
    let mode = rng.below(4);
    let mut byte = |rng: &mut Rng| -> u8 {
        match mode {
            0 => rng.next_u32() as u8,
            1 => 0xFF,
            2 => if rng.chance(1, 16) { 1 << rng.below(8) } else { 0 },
            _ => if rng.bool() { 0xAA } else { 0x55 },
        }
    };
    let x: Vec<u8> = (0..n).map(|_| byte(rng)).collect();
    let ys: Vec<u8> = (0..n * m).map(|_| if mode == 1 { 0 } else { byte(rng) }).collect();
    let expect: Vec<u32> = (0..m)
        .map(|j| x.iter().zip(&ys[j * n..(j + 1) * n]).map(|(a, b)| (a ^ b).count_ones()).sum())
        .collect();
    out.evaluations += 1;
    let mut cmp = |out: &mut Out, path: &str, got: f32, j: usize| {
        let got = if corrupt { got + 1.0 } else { got };
        if got != expect[j] as f32 {
            let tail = if n % 64 != 0 { "tail" } else { "aligned" };
            out.fail(format!("hamming-{path}-{tail}"), "hamming distance differs from the popcount definition", format!("n={n} row={j} expected {} got {got}", expect[j]));
        } else {
            out.count("values_judged", 1);
        }
    };
    for j in 0..m {
        let y = &ys[j * n..(j + 1) * n];
        if let Some(g) = guarded(out, "hamming", "u8", n, || hamming(&x, y)) {
            cmp(out, "hamming", g, j);
            if n == 0 {
                policy_check(out, policy, "hamming/empty", "hamming", "u8", n, g);
            }
        }
        if let Some(g) = guarded(out, "hamming_scalar", "u8", n, || hamming_scalar(&x, y)) {
            cmp(out, "hamming_scalar", g, j);
        }
    }
    if n > 0 {
        if let Some(v) = guarded(out, "hamming_distance_batch", "u8", n, || hamming_distance_batch(&x, &ys, n).collect::<Vec<f32>>()) {
            if v.len() != m {
                out.fail("batch-len-hamming_distance_batch-u8".into(), "batch helper returned a wrong number of distances", format!("n={n} m={m} got {}", v.len()));
            } else {
                for (j, g) in v.iter().enumerate() {
                    cmp(out, "hamming_distance_batch", *g, j);
                }
            }
        }
        let from: ArrayRef = Arc::new(PrimitiveArray::<UInt8Type>::from(x.clone()));
        let vals: ArrayRef = Arc::new(PrimitiveArray::<UInt8Type>::from(ys.clone()));
        let valid: Vec<bool> = (0..m).map(|_| !rng.chance(1, 4)).collect();
        let fsl = FixedSizeListArray::new(Arc::new(Field::new("item", DataType::UInt8, true)), n as i32, vals, Some(NullBuffer::from(valid.clone())));
        for (path, f) in [
            ("hamming_distance_arrow_batch", hamming_distance_arrow_batch as fn(&dyn Array, &FixedSizeListArray) -> lance_linalg::Result<Arc<arrow_array::Float32Array>>),
            ("DistanceType::Hamming.arrow_batch_func", DistanceType::Hamming.arrow_batch_func()),
        ] {
            if let Some(res) = guarded(out, path, "u8", n, || f(from.as_ref(), &fsl)) {
                match res {
                    Err(e) => out.fail(format!("arrow-batch-err-{path}-u8"), "arrow batch helper failed on a supported type", e.to_string()),
                    Ok(arr) => {
                        for j in 0..m {
                            if arr.is_valid(j) != valid[j] {
                                out.fail(format!("arrow-batch-nulls-{path}-u8"), "null buffer of `to` not propagated", format!("n={n} row {j}"));
                            } else if valid[j] {
                                cmp(out, path, arr.value(j), j);
                            }
                        }
                    }
                }
            }
        }
    }
    if n > 0 && expect.iter().any(|e| *e > 0) {
        out.nontrivial.push(fnv(format!("hamming|{n}|{mode}").as_bytes()));
    }
}

/// Int8 `from` vector + Int8 FixedSizeList `to` (converted to f32 by the helpers)
pub fn check_int8_arrow(rng: &mut Rng, n: usize, out: &mut Out) {
    if n == 0 {
        return;
    }
    let m = rng.urange(1, 3);
    let x: Vec<i8> = (0..n).map(|_| rng.next_u32() as i8).collect();
    let ys: Vec<i8> = (0..n * m).map(|_| rng.next_u32() as i8).collect();
    let xf: Vec<f64> = x.iter().map(|v| *v as f64).collect();
    let refs: Vec<Ref> = (0..m).map(|j| reference(&xf, &ys[j * n..(j + 1) * n].iter().map(|v| *v as f64).collect::<Vec<_>>())).collect();
    let from: ArrayRef = Arc::new(PrimitiveArray::<Int8Type>::from(x));
    let vals: ArrayRef = Arc::new(PrimitiveArray::<Int8Type>::from(ys));
    let fsl = FixedSizeListArray::new(Arc::new(Field::new("item", DataType::Int8, true)), n as i32, vals, None);
    let info = CaseInfo { n, shape: "int8", ex: 2, ey: 2, offx: 0, offy: 0 };
    out.evaluations += 1;
    type ArrowFn = fn(&dyn Array, &FixedSizeListArray) -> lance_linalg::Result<Arc<arrow_array::Float32Array>>;
    let paths: [(&str, &str, ArrowFn); 3] = [
        ("l2", "l2_distance_arrow_batch", l2_distance_arrow_batch),
        ("dot_distance", "dot_distance_arrow_batch", dot_distance_arrow_batch),
        ("cosine", "cosine_distance_arrow_batch", cosine_distance_arrow_batch),
    ];
    for (metric, path, f) in paths {
        let Some(res) = guarded(out, path, "i8", n, || f(from.as_ref(), &fsl)) else { continue };
        match res {
            Err(e) => out.fail(format!("arrow-batch-err-{path}-i8"), "arrow batch helper failed on a supported type", e.to_string()),
            Ok(arr) => {
                if arr.len() != m {
                    out.fail(format!("arrow-batch-len-{path}-i8"), "arrow batch helper returned a wrong number of rows", format!("n={n} m={m} got {}", arr.len()));
                    continue;
                }
                for j in 0..m {
                    let g = arr.value(j);
                    let jd = match metric {
                        "l2" => judge_l2(g, &refs[j], Acc::F32),
                        "dot_distance" => judge_dot_distance(g, &refs[j], Acc::F32),
                        _ => {
                            if refs[j].nx2 == 0.0 || refs[j].ny2 == 0.0 {
                                continue;
                            }
                            judge_cosine(g, &refs[j], Acc::F32)
                        }
                    };
                    record(out, jd, metric, path, "i8", &info, j);
                }
            }
        }
    }
}
