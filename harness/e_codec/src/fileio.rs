//! Whole-file round trips through lance-file (v2.x writer / reader) on an in-memory object store.
//! Used where a mechanism is not reachable through public traits (mini-block repetition index,
//! struct packing, dictionary) and for `take`-style random access.
#![allow(dead_code)]

use arrow_array::{RecordBatch, UInt32Array};
use arrow_schema::SchemaRef;
use futures::TryStreamExt;
use lance_core::cache::LanceCache;
use lance_encoding::decoder::{DecoderPlugins, FilterExpression};
use lance_encoding::version::LanceFileVersion;
use lance_file::reader::{describe_encoding, FileReader, FileReaderOptions};
use lance_file::writer::{FileWriter, FileWriterOptions};
use lance_io::object_store::ObjectStore;
use lance_io::scheduler::{ScanScheduler, SchedulerConfig};
use lance_io::utils::CachedFileSize;
use lance_io::ReadBatchParams;
use object_store::path::Path;
use std::sync::Arc;

pub struct MemFile {
    pub store: Arc<ObjectStore>,
    pub path: Path,
}

pub async fn write_file(
    batches: &[RecordBatch],
    schema: SchemaRef,
    version: LanceFileVersion,
    max_page_bytes: Option<u64>,
    name: &str,
) -> Result<MemFile, String> {
    let store = Arc::new(ObjectStore::memory());
    let path = Path::from(format!("{name}.lance"));
    let lance_schema = lance_core::datatypes::Schema::try_from(schema.as_ref()).map_err(|e| format!("schema: {e}"))?;
    let writer = store.create(&path).await.map_err(|e| format!("create: {e}"))?;
    let options = FileWriterOptions {
        format_version: Some(version),
        max_page_bytes,
        ..Default::default()
    };
    let mut w = FileWriter::try_new(writer, lance_schema, options).map_err(|e| format!("writer: {e}"))?;
    for b in batches {
        w.write_batch(b).await.map_err(|e| format!("write_batch: {e}"))?;
    }
    w.finish().await.map_err(|e| format!("finish: {e}"))?;
    Ok(MemFile { store, path })
}

pub async fn open(f: &MemFile) -> Result<FileReader, String> {
    let sched = ScanScheduler::new(f.store.clone(), SchedulerConfig::default_for_testing());
    let fs = sched.open_file(&f.path, &CachedFileSize::unknown()).await.map_err(|e| format!("open_file: {e}"))?;
    let cache = LanceCache::with_capacity(64 * 1024 * 1024);
    FileReader::try_open(fs, None, Arc::<DecoderPlugins>::default(), &cache, FileReaderOptions::default())
        .await
        .map_err(|e| format!("try_open: {e}"))
}

pub async fn read(r: &FileReader, params: ReadBatchParams, batch_size: u32) -> Result<Vec<RecordBatch>, String> {
    let s = r.read_stream(params, batch_size, 4, FilterExpression::no_filter()).map_err(|e| format!("read_stream: {e}"))?;
    s.try_collect::<Vec<_>>().await.map_err(|e| format!("read: {e}"))
}

pub async fn read_all(r: &FileReader, batch_size: u32) -> Result<Vec<RecordBatch>, String> {
    read(r, ReadBatchParams::RangeFull, batch_size).await
}

pub async fn take(r: &FileReader, idx: &[u32], batch_size: u32) -> Result<Vec<RecordBatch>, String> {
    read(r, ReadBatchParams::Indices(UInt32Array::from(idx.to_vec())), batch_size).await
}

/// textual description of the encoding of every page of every column
pub fn page_encodings(r: &FileReader) -> Vec<Vec<String>> {
    r.metadata().column_metadatas.iter().map(|c| c.pages.iter().map(describe_encoding).collect()).collect()
}

pub fn runtime() -> tokio::runtime::Runtime {
    tokio::runtime::Builder::new_current_thread().enable_all().build().unwrap()
}
