//! C28 kernels: generators + round-trip oracles for `fsst::fsst::{compress, decompress}` and
//! `lance_bitpacking::BitPacking::{unchecked_pack, unchecked_unpack}`.
//!
//! Dependency-light on purpose (std + fsst + lance-bitpacking + arrow-array's OffsetSizeTrait + the
//! seeded `Rng`): `/verif/san` includes this very file with `#[path]` and runs it under Miri.
#![allow(dead_code)]

use crate::prng::{fnv, Rng};
use arrow_array::OffsetSizeTrait;
use fsst::fsst::{compress, decompress, FSST_LEAST_INPUT_SIZE, FSST_SYMBOL_TABLE_SIZE};
use lance_bitpacking::BitPacking;
use std::panic::{catch_unwind, AssertUnwindSafe};

#[derive(Debug, Clone)]
pub struct Failure {
    /// narrow class of the witness
    pub sig: String,
    pub what: String,
    pub detail: String,
}

// ---------------------------------------------------------------------------------------------
// FSST
// ---------------------------------------------------------------------------------------------

pub const FSST_KINDS: &[&str] = &[
    "text",          // words from a small vocabulary (compressible)
    "random",        // incompressible random bytes
    "all256",        // every byte value occurs
    "repeat",        // long runs of one byte / short period
    "small",         // very many tiny strings incl. empties
    "huge",          // 1-3 very large strings
    "boundary",      // total size exactly at FSST_LEAST_INPUT_SIZE -1/0/+1
    "esc",           // heavy 0xFF (escape code) content
    "chunk511",      // string lengths around 511/512/1022 (compress_bulk chunking) and 7/8/9
    "mixed",         // concatenation of several kinds
    "below",         // below the least-input threshold (copy path)
    "empty",         // zero strings / only empty strings
    "skewed",        // 2-4 distinct byte values, one of them rare (terminator selection)
    "prefixes",      // all prefixes / suffixes of one base string (symbol overlap)
    // structured binary corpora: records over a small vocabulary of multi-byte tokens that together cover
    // all 256 byte values, Zipf frequencies (multi-byte symbols containing rare bytes are learned and the
    // terminator — the rarest byte — really occurs in the data)
    "tokens",        // short records cut at token boundaries and mid-token, optional trailing 0x00 / 0xFF
    "tokens511",     // long records whose lengths sit around multiples of 511 (compress_bulk chunking)
    "tokens_edge",   // total size around FSST_LEAST_INPUT_SIZE
    // "every token is a symbol": <= 32 tokens of exactly 8 (sometimes 4..7) bytes, every byte value in exactly one
    // token, two frequency tiers, one least-frequent token whose rarest byte sits at a chosen position (incl. the
    // last); most records end 1..7 bytes before the end of their last token
    "symtok",
];

/// kind of FSST case `idx`: 1/4 "symtok", 1/4 the Zipf token corpora, 1/2 the 14 classic kinds
pub fn fsst_kind_for(idx: u64) -> &'static str {
    let n = FSST_KINDS.len() as u64; // 14 classic + 3 token kinds + symtok
    match idx % 4 {
        0 => "symtok",
        1 => FSST_KINDS[(n - 4 + (idx / 4) % 3) as usize],
        r => FSST_KINDS[((idx / 4) * 2 + (r - 2)) as usize % (n as usize - 4)],
    }
}

/// what `symtok_corpus` built (for probes / evidence)
pub struct SymtokInfo {
    pub rare_token: Vec<u8>,
    pub rare_pos: usize,
    pub tokens: Vec<Vec<u8>>,
    pub n_hi: usize,
    pub hi_w: f64,
    pub cut_share: u64,
    pub cut_hi: bool,
}

/// corpus in which every token can become a whole FSST symbol (see FSST_KINDS "symtok")
pub fn symtok_corpus(rng: &mut Rng, target: usize) -> Vec<Vec<u8>> {
    symtok_corpus_info(rng, target).0
}

pub fn symtok_corpus_info(rng: &mut Rng, target: usize) -> (Vec<Vec<u8>>, SymtokInfo) {
    let l = if rng.chance(17, 20) { 8 } else { rng.urange(5, 7) };
    let k = 32usize;
    let mut perm: Vec<u8> = (0..=255u8).collect();
    rng.shuffle(&mut perm);
    let mut tokens: Vec<Vec<u8>> = (0..k).map(|t| perm[t * l..(t + 1) * l].to_vec()).collect();
    // bytes not covered by the K tokens (only when l < 8) live in frequent 8-byte filler tokens
    let fillers: Vec<Vec<u8>> = perm[k * l..].chunks(8).map(|c| c.to_vec()).collect();
    // two tiers within a factor <= 5: the frequent tier becomes whole symbols in the first rounds, which frees the
    // table slots of its single bytes; the substrings of the low tier are learned in the later rounds.
    // R = the least frequent token (low tier); the byte at position p of R is the rarest byte of the corpus.
    let hi_w = *rng.pick(&[4.0f64, 5.0]);
    // (measured with the symbol-table probe: with 12-20 frequent tokens 40-80 % of the low-tier tokens get
    // multi-byte symbols and the terminator always lies in a low-tier token)
    let n_hi = *rng.pick(&[12usize, 12, 16, 16, 20]);
    let r_idx = n_hi + rng.usize_below(k - n_hi);
    let p = if rng.chance(1, 2) { l - 1 } else { rng.usize_below(l) };
    let r_w = *rng.pick(&[0.8f64, 0.9, 1.0]);
    let weights: Vec<f64> = (0..k).map(|t| if t == r_idx { r_w } else if t < n_hi { hi_w } else { 1.0 }).collect();
    let mut cum = vec![];
    let mut acc = 0.0;
    for w in &weights {
        acc += w;
        cum.push(acc);
    }
    for _ in &fillers {
        acc += hi_w;
        cum.push(acc);
    }
    tokens.extend(fillers.iter().cloned());
    let pick = |rng: &mut Rng| -> usize {
        let x = rng.f64() * acc;
        cum.partition_point(|c| *c < x).min(tokens.len() - 1)
    };
    let cut_share = *rng.pick(&[3u64, 6, 9]); // of 10 records whose last token is a low-tier token
    let cut_hi = rng.chance(1, 3); // also cut frequent-tier last tokens
    let trail0 = rng.below(3); // never / sometimes / often a trailing 0x00
    let mut out: Vec<Vec<u8>> = vec![];
    let mut tot = 0usize;
    while tot < target {
        let nt = rng.urange(1, 40);
        let mut rec: Vec<u8> = Vec::with_capacity(nt * 8);
        let mut last = 0usize;
        for _ in 0..nt {
            last = pick(rng);
            rec.extend_from_slice(&tokens[last]);
        }
        let low = last >= n_hi && last < k;
        if tokens[last].len() > 1 && (low || cut_hi) && rng.below(10) < cut_share {
            // end with a proper prefix of the last token: every cut position 1..len-1; a record whose last token is
            // R ends right before the rare byte half of the time
            let ll = tokens[last].len();
            let cut = if last == r_idx && p > 0 && rng.bool() { ll - p } else { rng.urange(1, ll - 1) };
            rec.truncate(rec.len() - cut);
        }
        if trail0 > 0 && rng.chance(trail0, 4) {
            rec.push(0x00);
        }
        tot += rec.len();
        out.push(rec);
    }
    let rt = tokens[r_idx].clone();
    // records that end with every proper prefix of R (several of each, most right before the rare byte)
    let extra = rng.urange(8, 40);
    for j in 0..extra {
        let keep = if j % 2 == 0 && p > 0 { p } else { rng.urange(1, l - 1) };
        let mut rec = vec![];
        for _ in 0..rng.urange(0, 6) {
            rec.extend_from_slice(&tokens[pick(rng)]);
        }
        rec.extend_from_slice(&rt[..keep]);
        if j % 5 == 4 {
            rec.push(0x00);
        }
        out.push(rec);
    }
    // the bytes of R after position p would tie with it: let them occur alone a few times as well
    for b in rt.iter().skip(p + 1) {
        for _ in 0..extra / 2 + 2 {
            out.push(vec![*b]);
        }
    }
    rng.shuffle(&mut out);
    (out, SymtokInfo { rare_token: rt, rare_pos: p, tokens: tokens[..k].to_vec(), n_hi, hi_w, cut_share, cut_hi })
}

pub struct TokenVocab {
    pub tokens: Vec<Vec<u8>>,
    /// cumulative Zipf weights
    cum: Vec<f64>,
}

impl TokenVocab {
    pub fn new(rng: &mut Rng) -> Self {
        let ntok = rng.urange(22, 64);
        let mut perm: Vec<u8> = (0..=255u8).collect();
        rng.shuffle(&mut perm);
        let shared: Vec<u8> = (0..rng.urange(2, 6)).map(|_| rng.next_u32() as u8).collect();
        let mut tokens: Vec<Vec<u8>> = vec![];
        let mut next = 0usize;
        for t in 0..ntok {
            let left_tokens = ntok - t;
            let need = (256 - next).div_ceil(left_tokens); // bytes this token must still cover
            let len = rng.urange(need.max(2), 12.max(need.max(2)));
            let mut tok = Vec::with_capacity(len);
            for _ in 0..len {
                if next < 256 && (tok.len() < need || rng.chance(1, 3)) {
                    tok.push(perm[next]);
                    next += 1;
                } else {
                    tok.push(*rng.pick(&shared));
                }
            }
            tokens.push(tok);
        }
        // any byte still uncovered goes to the last tokens
        let mut t = 0;
        while next < 256 {
            let k = tokens.len() - 1 - (t % tokens.len());
            tokens[k].push(perm[next]);
            next += 1;
            t += 1;
        }
        // which token is frequent is independent of which bytes it carries
        rng.shuffle(&mut tokens);
        let s = *rng.pick(&[0.7f64, 1.0, 1.3, 1.8]);
        let mut cum = Vec::with_capacity(ntok);
        let mut acc = 0.0;
        for k in 0..tokens.len() {
            acc += 1.0 / ((k + 1) as f64).powf(s);
            cum.push(acc);
        }
        Self { tokens, cum }
    }
    pub fn pick<'a>(&'a self, rng: &mut Rng) -> &'a [u8] {
        let x = rng.f64() * self.cum[self.cum.len() - 1];
        let k = self.cum.partition_point(|c| *c < x).min(self.tokens.len() - 1);
        &self.tokens[k]
    }
    /// a record of about `len` bytes; `cut`: 0 = ends on a token boundary, 1 = ends inside a token (exactly
    /// `len` bytes), 2 = also starts inside a token; `trail`: optional extra last byte
    pub fn record(&self, rng: &mut Rng, len: usize, cut: u64, trail: Option<u8>) -> Vec<u8> {
        let mut s: Vec<u8> = vec![];
        if cut == 2 {
            let t = self.pick(rng);
            let a = rng.usize_below(t.len());
            s.extend_from_slice(&t[a..]);
        }
        while s.len() < len {
            s.extend_from_slice(self.pick(rng));
        }
        if cut >= 1 {
            s.truncate(len);
        }
        if let Some(b) = trail {
            s.push(b);
        }
        s
    }
}

#[derive(Clone)]
pub struct FsstCase {
    pub kind: &'static str,
    /// the logical strings
    pub strings: Vec<Vec<u8>>,
    /// garbage bytes before the first string (first offset != 0, as for a sliced Arrow array)
    pub lead: usize,
    pub wide: bool, // i64 offsets
    /// `scale` (0..=100) shrinks sizes (Miri legs use small scales)
    pub scale: u32,
}

fn vocab(rng: &mut Rng) -> Vec<Vec<u8>> {
    let n = rng.urange(3, 60);
    (0..n)
        .map(|_| {
            let l = rng.urange(1, 12);
            (0..l)
                .map(|_| {
                    if rng.chance(1, 20) {
                        rng.next_u32() as u8
                    } else {
                        b'a' + rng.below(26) as u8
                    }
                })
                .collect()
        })
        .collect()
}

fn pickv<'a>(rng: &mut Rng, v: &'a [Vec<u8>]) -> &'a [u8] {
    &v[rng.usize_below(v.len())]
}

fn text_string(rng: &mut Rng, vocab: &[Vec<u8>], maxw: usize) -> Vec<u8> {
    let w = rng.urange(0, maxw);
    let mut s = vec![];
    for i in 0..w {
        if i > 0 {
            s.push(b' ');
        }
        s.extend_from_slice(pickv(rng, vocab));
    }
    s
}

/// total payload target for a "large" case
fn big_target(rng: &mut Rng, scale: u32) -> usize {
    let lo = FSST_LEAST_INPUT_SIZE;
    let hi = match scale {
        0..=10 => FSST_LEAST_INPUT_SIZE + 2048,
        11..=50 => 3 * FSST_LEAST_INPUT_SIZE,
        _ => 12 * FSST_LEAST_INPUT_SIZE,
    };
    rng.urange(lo, hi)
}

fn fill_until(
    rng: &mut Rng,
    target: usize,
    mut f: impl FnMut(&mut Rng) -> Vec<u8>,
) -> Vec<Vec<u8>> {
    let mut out = vec![];
    let mut tot = 0usize;
    let mut guard = 0;
    while tot < target && guard < 4_000_000 {
        let s = f(rng);
        tot += s.len();
        out.push(s);
        guard += 1;
    }
    out
}

pub fn gen_fsst(rng: &mut Rng, kind: &'static str, scale: u32) -> FsstCase {
    let wide = rng.bool();
    let lead = if rng.chance(1, 4) { rng.urange(1, 40) } else { 0 };
    let target = big_target(rng, scale);
    let strings: Vec<Vec<u8>> = match kind {
        "text" => {
            let v = vocab(rng);
            let maxw = *rng.pick(&[2usize, 6, 20, 200]);
            fill_until(rng, target, |r| text_string(r, &v, maxw))
        }
        "random" => {
            let maxl = *rng.pick(&[4usize, 40, 600, 5000]);
            fill_until(rng, target, |r| {
                let l = r.urange(0, maxl);
                r.bytes(l)
            })
        }
        "all256" => {
            let mode = rng.below(3);
            fill_until(rng, target, |r| match mode {
                0 => (0..=255u8).collect(),
                1 => {
                    let mut v: Vec<u8> = (0..=255u8).collect();
                    r.shuffle(&mut v);
                    v.truncate(r.urange(1, 256));
                    v
                }
                _ => {
                    let b = r.next_u32() as u8;
                    let l = r.urange(1, 20);
                    (0..l).map(|i| b.wrapping_add(i as u8)).collect()
                }
            })
        }
        "repeat" => {
            let period = rng.urange(1, 9);
            let pat = rng.bytes(period);
            let maxl = *rng.pick(&[16usize, 300, 2000, 40000]);
            fill_until(rng, target, |r| {
                let l = r.urange(0, maxl);
                let ph = r.usize_below(period);
                (0..l).map(|i| pat[(i + ph) % period]).collect()
            })
        }
        "small" => {
            let v = vocab(rng);
            fill_until(rng, target, |r| {
                if r.chance(1, 3) {
                    vec![]
                } else {
                    let mut s = r.pick(&v).clone();
                    s.truncate(r.urange(0, 8));
                    s
                }
            })
        }
        "huge" => {
            let n = rng.urange(1, 3);
            let v = vocab(rng);
            let rand = rng.chance(1, 3);
            (0..n)
                .map(|_| {
                    let l = target / n + rng.urange(0, 10);
                    if rand {
                        rng.bytes(l)
                    } else {
                        let mut s = vec![];
                        while s.len() < l {
                            s.extend_from_slice(pickv(rng, &v));
                        }
                        s
                    }
                })
                .collect()
        }
        "boundary" => {
            let total = (FSST_LEAST_INPUT_SIZE as i64 + rng.range(-2, 2)) as usize;
            let v = vocab(rng);
            let mut out: Vec<Vec<u8>> = vec![];
            let mut tot = 0;
            while tot < total {
                let mut s = text_string(rng, &v, 12);
                s.truncate(total - tot);
                tot += s.len();
                out.push(s);
            }
            out
        }
        "esc" => {
            let p = *rng.pick(&[1u64, 4, 9, 10]);
            let maxl = *rng.pick(&[5usize, 64, 700]);
            fill_until(rng, target, |r| {
                let l = r.urange(0, maxl);
                (0..l)
                    .map(|_| {
                        if r.chance(p, 10) {
                            0xFF
                        } else if r.chance(1, 2) {
                            0xFE
                        } else {
                            b'a' + r.below(4) as u8
                        }
                    })
                    .collect()
            })
        }
        "chunk511" => {
            let v = vocab(rng);
            let lens = [0usize, 1, 7, 8, 9, 15, 16, 17, 510, 511, 512, 513, 1021, 1022, 1023, 1024, 1533];
            let rand = rng.chance(1, 3);
            fill_until(rng, target, |r| {
                let l = *r.pick(&lens);
                if rand {
                    r.bytes(l)
                } else {
                    let mut s = vec![];
                    while s.len() < l {
                        s.extend_from_slice(pickv(r, &v));
                    }
                    s.truncate(l);
                    s
                }
            })
        }
        "mixed" => {
            let mut out = vec![];
            let parts = rng.urange(2, 4);
            for _ in 0..parts {
                let k = *rng.pick(&["text", "random", "all256", "repeat", "small", "esc", "chunk511"]);
                let mut c = gen_fsst(rng, k, 0);
                let keep = (c.strings.len() / parts).max(1);
                c.strings.truncate(keep);
                out.extend(c.strings);
            }
            rng.shuffle(&mut out);
            out
        }
        "below" => {
            let tgt = rng.urange(0, FSST_LEAST_INPUT_SIZE - 1);
            let v = vocab(rng);
            let mut out = fill_until(rng, tgt, |r| text_string(r, &v, 8));
            // keep strictly below the threshold
            let mut tot: usize = out.iter().map(|s| s.len()).sum();
            while tot >= FSST_LEAST_INPUT_SIZE {
                tot -= out.pop().map(|s| s.len()).unwrap_or(0);
            }
            out
        }
        "empty" => {
            let n = *rng.pick(&[0usize, 1, 2, 1000, 40000]);
            vec![vec![]; n]
        }
        "skewed" => {
            let nb = rng.urange(2, 4);
            let alphabet = rng.bytes(nb);
            let rare = rng.urange(50, 5000) as u64;
            let maxl = *rng.pick(&[3usize, 30, 900]);
            fill_until(rng, target, |r| {
                let l = r.urange(0, maxl);
                (0..l)
                    .map(|_| {
                        if r.chance(1, rare) {
                            alphabet[0]
                        } else {
                            alphabet[1 + r.usize_below(nb - 1)]
                        }
                    })
                    .collect()
            })
        }
        "prefixes" => {
            let v = vocab(rng);
            let base = text_string(rng, &v, 40);
            let base = if base.is_empty() { vec![b'x'; 9] } else { base };
            fill_until(rng, target, |r| {
                let a = r.usize_below(base.len());
                let b = r.urange(a, base.len());
                base[a..b].to_vec()
            })
        }
        "symtok" => {
            let total = *rng.pick(&[FSST_LEAST_INPUT_SIZE + 64, 40_000, 70_000, 140_000, 200_000]);
            let total = if scale <= 10 { FSST_LEAST_INPUT_SIZE + 64 } else { total };
            symtok_corpus(rng, total)
        }
        "tokens" | "tokens511" | "tokens_edge" => {
            let v = TokenVocab::new(rng);
            let trail_mode = rng.below(4); // none / sometimes 0x00 / sometimes 0xFF / mixed
            let mut trail = |r: &mut Rng| -> Option<u8> {
                match trail_mode {
                    0 => None,
                    1 => r.chance(1, 2).then_some(0x00),
                    2 => r.chance(1, 2).then_some(0xFF),
                    _ => match r.below(4) {
                        0 => Some(0x00),
                        1 => Some(0xFF),
                        _ => None,
                    },
                }
            };
            let total = if kind == "tokens_edge" { (FSST_LEAST_INPUT_SIZE as i64 + rng.range(-3, 40)) as usize } else { target };
            let mut out: Vec<Vec<u8>> = vec![];
            let mut tot = 0usize;
            while tot < total {
                let len = match kind {
                    "tokens511" => {
                        let m = rng.urange(1, 4);
                        ((m * 511) as i64 + rng.range(-9, 9)).max(1) as usize
                    }
                    _ => *rng.pick(&[1usize, 2, 3, 5, 8, 13, 21, 34, 60, 100, 200]) + rng.usize_below(4),
                };
                let cut = rng.below(3);
                let t = trail(rng);
                let mut rec = v.record(rng, len, cut, t);
                if kind == "tokens_edge" && tot + rec.len() > total {
                    rec.truncate(total - tot);
                }
                tot += rec.len().max(1);
                out.push(rec);
            }
            out
        }
        _ => unreachable!(),
    };
    FsstCase {
        kind,
        strings,
        lead,
        wide,
        scale,
    }
}

#[derive(Debug, Clone, Default)]
pub struct FsstObs {
    pub n_strings: usize,
    pub in_bytes: usize,
    pub out_bytes: usize,
    pub encoder_on: bool,
    pub n_symbols: u8,
    pub rejected: Option<String>,
    pub sig: u64,
}

fn to_off<T: OffsetSizeTrait>(x: usize) -> T {
    T::from_usize(x).unwrap()
}

/// How the caller sizes the output buffers. `Lance` = what lance-encoding does (2x for compress,
/// 8x for decompress); `Slack` adds random slack; `Exact2x8x` = same without any slack beyond.
#[derive(Clone, Copy, Debug, PartialEq)]
pub enum Sizing {
    Lance,
    Slack,
}

pub fn fsst_roundtrip<T: OffsetSizeTrait>(
    case: &FsstCase,
    sizing: Sizing,
    slack: usize,
    corrupt: bool,
) -> Result<FsstObs, Failure> {
    // flatten
    let mut buf: Vec<u8> = vec![0xA5; case.lead];
    let mut offs: Vec<T> = Vec::with_capacity(case.strings.len() + 1);
    offs.push(to_off::<T>(buf.len()));
    for s in &case.strings {
        buf.extend_from_slice(s);
        offs.push(to_off::<T>(buf.len()));
    }
    let extra = if sizing == Sizing::Slack { slack } else { 0 };
    let mut symtab = vec![0u8; FSST_SYMBOL_TABLE_SIZE];
    let mut cbuf = vec![0u8; buf.len() * 2 + extra];
    let mut coff: Vec<T> = vec![T::default(); offs.len() * 2 + extra];
    let kind = case.kind;
    let w = if case.wide { 64 } else { 32 };

    let r = catch_unwind(AssertUnwindSafe(|| {
        compress::<T>(&mut symtab, &buf, &offs, &mut cbuf, &mut coff)
    }));
    let mut obs = FsstObs {
        n_strings: case.strings.len(),
        in_bytes: buf.len() - case.lead,
        ..Default::default()
    };
    match r {
        Err(p) => {
            return Err(Failure {
                sig: format!("fsst-compress-panic-{kind}-lead{}", (case.lead > 0) as u8),
                what: "fsst::compress panicked instead of returning Err / output".into(),
                detail: panic_msg(p),
            })
        }
        Ok(Err(e)) => {
            obs.rejected = Some(e.to_string());
            return Ok(obs);
        }
        Ok(Ok(())) => {}
    }
    let header = u64::from_ne_bytes(symtab[..8].try_into().unwrap());
    obs.encoder_on = header & (1 << 24) != 0;
    obs.n_symbols = (header & 255) as u8;
    // compressed offsets: same count, monotone, inside the compressed buffer
    if coff.len() != offs.len() {
        return Err(Failure {
            sig: format!("fsst-compressed-offset-count-{kind}"),
            what: "compress produced a different number of offsets".into(),
            detail: format!("in {} out {}", offs.len(), coff.len()),
        });
    }
    for i in 1..coff.len() {
        if coff[i] < coff[i - 1] || coff[i].as_usize() > cbuf.len() {
            return Err(Failure {
                sig: format!("fsst-compressed-offsets-invalid-{kind}"),
                what: "compressed offsets not monotone / outside the compressed buffer".into(),
                detail: format!("i={i} {:?} {:?} len {}", coff[i - 1], coff[i], cbuf.len()),
            });
        }
    }
    obs.out_bytes = coff[coff.len() - 1].as_usize() - coff[0].as_usize();
    if corrupt && !cbuf.is_empty() {
        // selftest: corrupt the *observation* so that the oracle must fire
        let k = cbuf.len() / 2;
        cbuf[k] ^= 0x01;
    }
    let mut dbuf = vec![0x5Au8; cbuf.len() * 8 + extra];
    let mut doff: Vec<T> = vec![T::default(); coff.len() + extra];
    let r = catch_unwind(AssertUnwindSafe(|| {
        decompress::<T>(&symtab, &cbuf, &coff, &mut dbuf, &mut doff)
    }));
    match r {
        Err(p) => {
            return Err(Failure {
                sig: format!("fsst-decompress-panic-{kind}"),
                what: "fsst::decompress panicked on compress's own output".into(),
                detail: panic_msg(p),
            })
        }
        Ok(Err(e)) => {
            return Err(Failure {
                sig: format!("fsst-decompress-err-{kind}"),
                what: "fsst::decompress rejected compress's own output".into(),
                detail: e.to_string(),
            })
        }
        Ok(Ok(())) => {}
    }
    if doff.len() != offs.len() {
        return Err(Failure {
            sig: format!("fsst-roundtrip-count-{kind}"),
            what: "decompress returned a different number of strings".into(),
            detail: format!("in {} out {}", offs.len() - 1, doff.len().saturating_sub(1)),
        });
    }
    for (i, s) in case.strings.iter().enumerate() {
        let a = doff[i].as_usize();
        let b = doff[i + 1].as_usize();
        let got = if a <= b && b <= dbuf.len() {
            &dbuf[a..b]
        } else {
            return Err(Failure {
                sig: format!("fsst-roundtrip-offsets-{kind}"),
                what: "decompressed offsets not monotone / out of range".into(),
                detail: format!("string {i}: {a}..{b} of {}", dbuf.len()),
            });
        };
        if got != s.as_slice() {
            let pos = got
                .iter()
                .zip(s.iter())
                .position(|(x, y)| x != y)
                .unwrap_or(got.len().min(s.len()));
            let cls = if got.len() != s.len() { "length" } else { "bytes" };
            return Err(Failure {
                sig: format!("fsst-roundtrip-{cls}-{kind}-off{w}-enc{}", obs.encoder_on as u8),
                what: "decompress(compress(x)) != x".into(),
                detail: format!(
                    "string {i}: len expected {} got {}, first difference at byte {pos}: expected {:?} got {:?}",
                    s.len(),
                    got.len(),
                    &s[pos.min(s.len())..(pos + 12).min(s.len())],
                    &got[pos.min(got.len())..(pos + 12).min(got.len())]
                ),
            });
        }
    }
    // diversity signature: what the codec actually did on this input
    let ratio_bucket = if obs.in_bytes == 0 {
        0
    } else {
        (obs.out_bytes * 8 / obs.in_bytes.max(1)).min(31)
    };
    let s = format!(
        "{kind}|{w}|{}|{}|{}|{}|{}|{}",
        obs.encoder_on,
        obs.n_symbols,
        ratio_bucket,
        (obs.n_strings as f64 + 1.0).log2() as u32,
        (obs.in_bytes as f64 + 1.0).log2() as u32,
        case.lead > 0
    );
    obs.sig = fnv(s.as_bytes());
    Ok(obs)
}

pub fn run_fsst_case(case: &FsstCase, rng: &mut Rng, corrupt: bool) -> Result<FsstObs, Failure> {
    let sizing = if rng.chance(1, 3) { Sizing::Slack } else { Sizing::Lance };
    let slack = rng.urange(1, 64);
    if case.wide {
        fsst_roundtrip::<i64>(case, sizing, slack, corrupt)
    } else {
        fsst_roundtrip::<i32>(case, sizing, slack, corrupt)
    }
}

pub fn panic_msg(p: Box<dyn std::any::Any + Send>) -> String {
    if let Some(s) = p.downcast_ref::<&str>() {
        s.to_string()
    } else if let Some(s) = p.downcast_ref::<String>() {
        s.clone()
    } else {
        "<non-string panic>".into()
    }
}

// ---------------------------------------------------------------------------------------------
// FastLanes bit-packing
// ---------------------------------------------------------------------------------------------

pub const BP_PATTERNS: &[&str] = &[
    "random", "ones", "alt", "alt_lane", "single_bit", "ramp", "sparse", "top_bit", "zeros",
];

pub trait BpWord: BitPacking + Copy + PartialEq + std::fmt::Debug + Default {
    const BITS: usize;
    const NAME: &'static str;
    fn from_u64(x: u64) -> Self;
    fn to_u64(self) -> u64;
}
macro_rules! bpw {
    ($t:ty, $n:expr) => {
        impl BpWord for $t {
            const BITS: usize = <$t>::BITS as usize;
            const NAME: &'static str = $n;
            fn from_u64(x: u64) -> Self {
                x as $t
            }
            fn to_u64(self) -> u64 {
                self as u64
            }
        }
    };
}
bpw!(u8, "u8");
bpw!(u16, "u16");
bpw!(u32, "u32");
bpw!(u64, "u64");

pub fn width_mask(width: usize) -> u64 {
    if width == 0 {
        0
    } else if width >= 64 {
        u64::MAX
    } else {
        (1u64 << width) - 1
    }
}

pub fn gen_chunk<T: BpWord>(rng: &mut Rng, width: usize, pattern: &str) -> Vec<T> {
    let m = width_mask(width);
    let mut v = vec![0u64; 1024];
    match pattern {
        "random" => v.iter_mut().for_each(|x| *x = rng.next_u64() & m),
        "ones" => v.iter_mut().for_each(|x| *x = m),
        "alt" => v.iter_mut().enumerate().for_each(|(i, x)| *x = if i % 2 == 0 { m } else { 0 }),
        "alt_lane" => {
            let lanes = 1024 / T::BITS;
            let ph = rng.usize_below(2);
            v.iter_mut()
                .enumerate()
                .for_each(|(i, x)| *x = if (i / lanes + ph) % 2 == 0 { m } else { 0 })
        }
        "single_bit" => {
            if width > 0 {
                let b = rng.usize_below(width);
                let rot = rng.bool();
                v.iter_mut().enumerate().for_each(|(i, x)| {
                    *x = if rot { 1u64 << ((b + i) % width) } else { 1u64 << b }
                })
            }
        }
        "ramp" => {
            let s = rng.next_u64();
            v.iter_mut()
                .enumerate()
                .for_each(|(i, x)| *x = (s.wrapping_add(i as u64)) & m)
        }
        "sparse" => {
            let k = rng.urange(1, 8);
            for _ in 0..k {
                let i = rng.usize_below(1024);
                v[i] = rng.next_u64() & m;
            }
        }
        "top_bit" => {
            if width > 0 {
                let t = 1u64 << (width - 1);
                v.iter_mut().for_each(|x| *x = t | (rng.next_u64() & m & rng.next_u64()))
            }
        }
        _ => {}
    }
    v.into_iter().map(T::from_u64).collect()
}

#[derive(Debug, Default, Clone)]
pub struct BpObs {
    pub nonzero: bool,
    pub sig: u64,
}

const GUARD: usize = 16;

/// pack/unpack one 1024-value chunk at `width`; output buffers are pre-filled with garbage and
/// surrounded by guard words (writes outside the documented output length are detected).
pub fn bp_roundtrip<T: BpWord>(
    rng: &mut Rng,
    width: usize,
    pattern: &str,
    corrupt: bool,
) -> Result<BpObs, Failure> {
    let vals: Vec<T> = gen_chunk::<T>(rng, width, pattern);
    let packed_len = 1024 * width / T::BITS;
    let g1 = T::from_u64(rng.next_u64() | 1);
    let g2 = T::from_u64(rng.next_u64() | 1);
    let mut pbuf: Vec<T> = (0..packed_len + 2 * GUARD)
        .map(|_| T::from_u64(rng.next_u64()))
        .collect();
    for i in 0..GUARD {
        pbuf[i] = g1;
        pbuf[GUARD + packed_len + i] = g1;
    }
    let name = T::NAME;
    let r = catch_unwind(AssertUnwindSafe(|| unsafe {
        T::unchecked_pack(width, &vals, &mut pbuf[GUARD..GUARD + packed_len]);
    }));
    if let Err(p) = r {
        return Err(Failure {
            sig: format!("bitpack-pack-panic-{name}-w{width}"),
            what: "unchecked_pack panicked on a valid 1024-chunk".into(),
            detail: panic_msg(p),
        });
    }
    if (0..GUARD).any(|i| pbuf[i] != g1 || pbuf[GUARD + packed_len + i] != g1) {
        return Err(Failure {
            sig: format!("bitpack-pack-overrun-{name}-w{width}"),
            what: "unchecked_pack wrote outside 1024*W/T output words".into(),
            detail: String::new(),
        });
    }
    if corrupt && packed_len > 0 {
        let k = rng.usize_below(packed_len);
        let bit = rng.usize_below(T::BITS);
        pbuf[GUARD + k] = T::from_u64(pbuf[GUARD + k].to_u64() ^ (1u64 << bit));
    }
    let mut ubuf: Vec<T> = (0..1024 + 2 * GUARD)
        .map(|_| T::from_u64(rng.next_u64()))
        .collect();
    for i in 0..GUARD {
        ubuf[i] = g2;
        ubuf[GUARD + 1024 + i] = g2;
    }
    let r = catch_unwind(AssertUnwindSafe(|| unsafe {
        T::unchecked_unpack(width, &pbuf[GUARD..GUARD + packed_len], &mut ubuf[GUARD..GUARD + 1024]);
    }));
    if let Err(p) = r {
        return Err(Failure {
            sig: format!("bitpack-unpack-panic-{name}-w{width}"),
            what: "unchecked_unpack panicked on pack's own output".into(),
            detail: panic_msg(p),
        });
    }
    if (0..GUARD).any(|i| ubuf[i] != g2 || ubuf[GUARD + 1024 + i] != g2) {
        return Err(Failure {
            sig: format!("bitpack-unpack-overrun-{name}-w{width}"),
            what: "unchecked_unpack wrote outside the 1024 output values".into(),
            detail: String::new(),
        });
    }
    let got = &ubuf[GUARD..GUARD + 1024];
    if got != vals.as_slice() {
        let pos = got.iter().zip(vals.iter()).position(|(a, b)| a != b).unwrap();
        let nbad = got.iter().zip(vals.iter()).filter(|(a, b)| a != b).count();
        return Err(Failure {
            sig: format!("bitpack-roundtrip-{name}-w{width}"),
            what: "unchecked_unpack(unchecked_pack(x)) != x".into(),
            detail: format!(
                "pattern {pattern}: {nbad} of 1024 values differ, first at index {pos}: expected {:?} got {:?}",
                vals[pos], got[pos]
            ),
        });
    }
    let nonzero = vals.iter().any(|v| v.to_u64() != 0);
    Ok(BpObs {
        nonzero,
        sig: fnv(format!("{name}|{width}|{pattern}").as_bytes()),
    })
}
