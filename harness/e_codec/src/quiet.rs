//! Panic bookkeeping: Lance panics are *observations* for the oracles (caught with catch_unwind), so
//! the default hook's backtrace spam is replaced by a thread-local record of message + location.
use std::cell::RefCell;

thread_local! {
    static LAST: RefCell<Option<(String, String)>> = const { RefCell::new(None) };
}

pub fn install() {
    std::panic::set_hook(Box::new(|info| {
        let msg = if let Some(s) = info.payload().downcast_ref::<&str>() {
            s.to_string()
        } else if let Some(s) = info.payload().downcast_ref::<String>() {
            s.clone()
        } else {
            "<non-string panic>".to_string()
        };
        let loc = info.location().map(|l| format!("{}:{}", l.file(), l.line())).unwrap_or_default();
        // panics on Lance's own worker threads (lance-cpu pool) are not visible to the thread that awaits
        // them other than as a RecvError; keep the first such location globally as well
        if let Ok(mut g) = WORKER.lock() {
            // keep the FIRST panic under /repo since the last take (later ones are usually consequences,
            // e.g. the RecvError unwrap in spawn_cpu after the worker died)
            if loc.contains("/repo/") && g.is_none() {
                *g = Some((msg.clone(), loc.clone()));
            }
        }
        LAST.with(|l| *l.borrow_mut() = Some((msg, loc)));
    }));
}

static WORKER: std::sync::Mutex<Option<(String, String)>> = std::sync::Mutex::new(None);

/// (message, file:line) of the last panic on this thread
pub fn take_last() -> Option<(String, String)> {
    LAST.with(|l| l.borrow_mut().take())
}

/// last panic raised at a location under /repo on any thread (e.g. Lance's CPU pool)
pub fn take_repo_panic() -> Option<(String, String)> {
    WORKER.lock().ok().and_then(|mut g| g.take())
}

/// runs `f`, returning Err((message, location)) if it panicked
pub fn catch<R>(f: impl FnOnce() -> R) -> Result<R, (String, String)> {
    match std::panic::catch_unwind(std::panic::AssertUnwindSafe(f)) {
        Ok(r) => Ok(r),
        Err(_) => Err(take_last().unwrap_or_default()),
    }
}

/// worker threads of a check: env VERIF_THREADS (default 16), capped by the machine
pub fn threads() -> usize {
    let want = std::env::var("VERIF_THREADS").ok().and_then(|s| s.trim().parse::<usize>().ok()).unwrap_or(16).max(1);
    let have = std::thread::available_parallelism().map(|x| x.get()).unwrap_or(8);
    want.min(have).min(16)
}
