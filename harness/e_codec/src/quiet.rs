//! Panic bookkeeping: Lance panics are *observations* for the oracles (caught with catch_unwind), so
//! the default hook's backtrace spam is replaced by a thread-local record of message + location.
use std::cell::RefCell;

thread_local! {
    static LAST: RefCell<Option<(String, String)>> = const { RefCell::new(None) };
}

pub fn install() {
    std::panic::set_hook(Box::new(|info| {
        let msg = if let Some(s) = info.payload().downcast_ref::<&str>() {
            s.to_string()
        } else if let Some(s) = info.payload().downcast_ref::<String>() {
            s.clone()
        } else {
            "<non-string panic>".to_string()
        };
        let loc = info.location().map(|l| format!("{}:{}", l.file(), l.line())).unwrap_or_default();
        // panics on Lance's own worker threads (lance-cpu pool) are not visible to the thread that awaits
        // them other than as a RecvError; keep the first such location globally as well
        if let Ok(mut g) = WORKER.lock() {
            // keep the FIRST panic under /repo since the last take (later ones are usually consequences,
            // e.g. the RecvError unwrap in spawn_cpu after the worker died)
            // (panics inside arrow / std reached from Lance's worker threads count as well; a location under
            // /repo replaces an earlier foreign one only if nothing under /repo was seen yet)
            if g.is_none() {
                *g = Some((msg.clone(), loc.clone()));
            }
        }
        LAST.with(|l| *l.borrow_mut() = Some((msg, loc)));
    }));
}

static WORKER: std::sync::Mutex<Option<(String, String)>> = std::sync::Mutex::new(None);

/// (message, file:line) of the last panic on this thread
pub fn take_last() -> Option<(String, String)> {
    LAST.with(|l| l.borrow_mut().take())
}

/// last panic raised at a location under /repo on any thread (e.g. Lance's CPU pool)
pub fn take_repo_panic() -> Option<(String, String)> {
    WORKER.lock().ok().and_then(|mut g| g.take())
}

/// runs `f`, returning Err((message, location)) if it panicked
pub fn catch<R>(f: impl FnOnce() -> R) -> Result<R, (String, String)> {
    match std::panic::catch_unwind(std::panic::AssertUnwindSafe(f)) {
        Ok(r) => Ok(r),
        Err(_) => Err(take_last().unwrap_or_default()),
    }
}

/// worker threads of a check: env VERIF_THREADS (default 16), capped by the machine
pub fn threads() -> usize {
    let want = std::env::var("VERIF_THREADS").ok().and_then(|s| s.trim().parse::<usize>().ok()).unwrap_or(16).max(1);
    let have = std::thread::available_parallelism().map(|x| x.get()).unwrap_or(8);
    want.min(have).min(16)
}

/// Gate for exact attribution of panics raised on Lance's worker threads: normal cases hold the gate
/// shared; a case that failed without a precise location re-runs alone holding it exclusively.
pub static IO_GATE: std::sync::RwLock<()> = std::sync::RwLock::new(());

/// Runs a fallible, panicking-prone IO closure (Lance decode / encode work happens on worker threads whose
/// panics reach the caller only as a RecvError / JoinError). On failure without a precise /repo location the
/// closure is re-run alone (exclusive gate) so that the first panic under /repo is this closure's.
/// Err text: "<error>; PANIC at <file:line>: <message>" or "PANIC at …"; a failure that does not reproduce alone
/// is marked "(not reproduced when re-run alone)".
pub fn run_attributed<T>(mut f: impl FnMut() -> Result<T, String>) -> Result<T, String> {
    fn once<T>(f: &mut impl FnMut() -> Result<T, String>) -> Result<T, String> {
        match catch(|| f()) {
            Ok(Ok(x)) => {
                Ok(x)
            }
            Ok(Err(e)) => match take_repo_panic() {
                Some((m, l)) => Err(format!("{e}; PANIC at {l}: {m}")),
                None => Err(e),
            },
            Err((m, l)) => {
                let (m, l) = take_repo_panic().unwrap_or((m, l));
                Err(format!("PANIC at {l}: {m}"))
            }
        }
    }
    let first = {
        let _g = IO_GATE.read().unwrap_or_else(|e| e.into_inner());
        once(&mut f)
    };
    match first {
        // every failure is re-run alone: under the shared gate the recorded "first panic" may belong to a case
        // running on another thread
        Err(e) => {
            let _g = IO_GATE.write().unwrap_or_else(|e| e.into_inner());
            let _ = take_repo_panic();
            match once(&mut f) {
                Err(e2) => Err(e2),
                Ok(_) => Err(format!("{e} (not reproduced when re-run alone)")),
            }
        }
        other => other,
    }
}

/// "<file>.rs:<line>" of the first location under /repo mentioned in an error text
pub fn repo_location(t: &str) -> Option<String> {
    // "<file>.rs:<line>" from the last path component of a source location mentioned in the text; independent of
    // where the lance tree is checked out (/repo, /tmp/…): locations inside a lance source tree
    // (…/rust/lance*/…, …/rust/compression/…) are preferred over registry / std paths
    let locs: Vec<&str> = t
        .split(|c: char| c.is_whitespace() || c == ',' || c == ';' || c == '"' || c == '(' || c == ')')
        .filter(|w| w.contains(".rs:") && w.contains('/'))
        .collect();
    let pick = locs.iter().find(|w| w.contains("/rust/lance") || w.contains("/rust/compression/")).or(locs.first())?;
    let mut it = pick.rsplit('/').next()?.split(':');
    let file = it.next()?;
    let line = it.next().unwrap_or("");
    Some(format!("{file}:{}", line.trim_matches(|c: char| !c.is_ascii_digit())))
}

/// narrow class of an IO failure text, stable across line-number shifts:
/// panic-<file>-<slug of the panic message> | err-<file> | other
pub fn failure_class(e: &str) -> String {
    let file_of = |t: &str| repo_location(t).map(|l| l.split(':').next().unwrap_or("").to_string()).unwrap_or_default();
    if let Some(p) = e.find("PANIC at ") {
        let rest = &e[p..];
        let msg = rest.splitn(2, ": ").nth(1).unwrap_or("");
        let mut slug = String::new();
        for w in msg.split(|c: char| !c.is_ascii_alphanumeric()).filter(|w| !w.is_empty() && !w.chars().all(|c| c.is_ascii_digit())).take(9) {
            if !slug.is_empty() {
                slug.push('-');
            }
            slug.push_str(&w.to_lowercase());
        }
        format!("panic-{}-{}", file_of(rest), slug)
    } else if repo_location(e).is_some() {
        format!("err-{}", file_of(e))
    } else {
        "other".to_string()
    }
}
