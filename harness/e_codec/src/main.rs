//! Engine binary `e_codec`: one module per property. See /verif/DESIGN.md.
use vmon::report::parse_args;

/// seeded PRNG under the path the shared (san-included) kernel files expect
mod prng {
    pub use vmon::prng::*;
}
mod k28;
mod k35;
mod k26;
mod k27;
mod fileio;
mod quiet;
mod probe;
mod c26;
mod c27;
mod c28;
mod c35;
mod c40;
mod c40udf;

fn main() {
    let args = parse_args();
    quiet::install();
    let code = match args.prop.as_str() {
        "C26" => c26::run(&args),
        "C27" => c27::run(&args),
        "C28" => c28::run(&args),
        "C35" => c35::run(&args),
        "C40" => c40::run(&args),
        "PROBE" => probe::run(),
        other => {
            eprintln!("HARNESS-ERROR e_codec does not serve property '{other}'");
            2
        }
    };
    std::process::exit(code);
}
