//! C27 — repetition / definition levels encode nesting losslessly.
//!
//! Parts: (1) run-time exhaustive enumeration of small nested shapes through RepDefBuilder ->
//! serialize -> RepDefUnraveler; (2) random larger shapes with several batches per page, several
//! pages per composite unraveler, garbage behind null lists and sliced offsets; (3) control-word
//! iterator/parser round trip for all (rep bits, def bits) widths; (4) row -> item translation of the
//! (private) mini-block repetition index and the full-zip path observed through lance-file random
//! access (`take`) of nested list columns against a direct walk of the nested offsets.
use crate::fileio;
use crate::k27::*;
use crate::prng::{fnv, Rng};
use arrow_array::{Array, ArrayRef, FixedSizeListArray, Int32Array, LargeListArray, ListArray, RecordBatch, StructArray};
use arrow_buffer::{BooleanBuffer, NullBuffer, OffsetBuffer, ScalarBuffer};
use arrow_schema::{DataType, Field, Fields, Schema};
use lance_encoding::version::LanceFileVersion;
use serde_json::json;
use std::collections::HashMap;
use std::sync::atomic::{AtomicBool, AtomicU64, Ordering};
use std::sync::Arc;
use vmon::report::{Args, Report, Tier};
use vmon::table::{cell_at, Cell};

fn all_sequences(max_depth: usize) -> Vec<Vec<Kind>> {
    let ks = [Kind::List, Kind::Fsl, Kind::Struct];
    let mut out: Vec<Vec<Kind>> = vec![vec![]];
    let mut frontier: Vec<Vec<Kind>> = vec![vec![]];
    for _ in 0..max_depth {
        let mut next = vec![];
        for s in &frontier {
            for k in ks {
                let mut t = s.clone();
                t.push(k);
                next.push(t);
            }
        }
        out.extend(next.iter().cloned());
        frontier = next;
    }
    out
}

/// limits per layer sequence: sequences with many list layers grow fastest and get the smallest limits
fn limits_for(kinds: &[Kind], tier: Tier) -> Limits {
    let depth = kinds.len();
    let lists = kinds.iter().filter(|k| **k == Kind::List).count();
    let l = |rows: usize, len: usize, elems: usize| Limits { max_rows: rows, max_list_len: len, max_elems: elems, max_dim: 2 };
    let q = match (depth, lists) {
        (0, _) => l(6, 0, 6),
        (1, _) => l(6, 3, 6),
        (2, 2) => l(4, 2, 4),
        (2, _) => l(5, 2, 5),
        (3, 3) => l(3, 2, 3),
        (3, 2) => l(3, 2, 4),
        (3, _) => l(4, 2, 4),
        (_, 4) | (_, 3) => l(2, 2, 2),
        (_, 2) => l(3, 2, 3),
        (_, _) => l(3, 2, 4),
    };
    match tier {
        Tier::Quick => q,
        // one more row / element everywhere
        Tier::Thorough => Limits { max_rows: q.max_rows + 1, max_list_len: q.max_list_len, max_elems: q.max_elems + 1, max_dim: 2 },
    }
}

/// chooser that fixes the first choice (row count) and delegates the rest to the odometer
struct FixedRows<'a> {
    rows: usize,
    first: bool,
    inner: &'a mut Odometer,
}
impl Chooser for FixedRows<'_> {
    fn choose(&mut self, arity: usize) -> usize {
        if self.first {
            self.first = false;
            return self.rows.min(arity - 1);
        }
        self.inner.choose(arity)
    }
}

fn seq_name(k: &[Kind]) -> String {
    let mut s: String = k.iter().map(|x| x.ch()).collect();
    s.push('p');
    s
}

fn selftest(args: &Args) -> i32 {
    let mut fired = 0;
    let mut total = 0;
    for kinds in all_sequences(2) {
        let lim = Limits { max_rows: 4, max_list_len: 2, max_elems: 5, max_dim: 2 };
        for i in 0..10u64 {
            let mut rng = Rng::for_case(args.seed, i);
            let s = build_shape(&kinds, &lim, &mut RandomChooser(&mut rng));
            let clean = roundtrip(std::slice::from_ref(&s), &[1], None, false);
            let Ok(obs) = clean else { continue };
            if obs.rejected.is_some() || !obs.has_def {
                continue;
            }
            total += 1;
            if roundtrip(std::slice::from_ref(&s), &[1], None, true).is_err() {
                fired += 1;
            }
        }
    }
    let mut cw = 0;
    let mut cwt = 0;
    for (mr, md) in [(1u16, 1u16), (3, 0), (0, 7), (200, 300), (1, 4000)] {
        let mut rng = Rng::for_case(args.seed, 99);
        cwt += 1;
        if control_words(&mut rng, mr, md, 50, true).is_err() {
            cw += 1;
        }
    }
    println!("SELFTEST C27 repdef corrupted-level cases detected {fired} of {total}; control words {cw} of {cwt}");
    // a flipped definition level can be absorbed when it lands on an element hidden by an outer null
    if total > 20 && fired * 10 >= total * 8 && cw == cwt { 0 } else { 2 }
}

pub fn run(args: &Args) -> i32 {
    if args.extra.contains_key("selftest") {
        return selftest(args);
    }
    let report = Report::new(
        args,
        "exploration",
        "(1) ALL nested shapes over {list, fixed-size-list, struct}^depth, depth<=4 (every layer independently: list nullable / emptyable / both / all-valid, FSL, struct with validity bitmap, struct via add_no_null; null structs either push their nulls down or leave all-valid / arbitrary layers below them), with a validity choice at every level and leaf (quick: 2-6 rows, list length<=3/2, 2-6 elements per level depending on depth and on the number of list layers, see limits_for), enumerated at run time through RepDefBuilder->serialize->RepDefUnraveler and compared on logical structure; (2) random larger shapes (depth<=5, up to 200 rows, several batches per page, several pages per composite unraveler, garbage behind null lists, sliced offsets, i32/i64 offsets); (3) control words for every (rep bits, def bits) in 0..=15 x 0..=15; (4) lance-file 2.1 random access (take) of nested list columns in mini-block and full-zip layout vs a direct walk. Non-trivial iff levels were produced (some null / list) and rows>0; distinct by (layer kinds, def meaning, logical rows).",
        (70, 900),
    )
    .with_min_nontrivial(1000);
    report.assume("garbage behind null lists is removed from the child arrays by the caller when add_offsets returns true (what ListStructuralEncoder does); struct nulls are pushed down into the children (what StructStructuralEncoder does)");
    report.assume("fixed-size-list layers combined with list layers are rejected by the unraveler (todo!(): 'Not yet supported FSL<...List<...>>') and counted as rejected inputs; add_fsl is not used by the 2.1 encoders at this commit");

    let threads = crate::quiet::threads();

    // ---------------- (1) exhaustive small shapes ----------------
    let seqs = all_sequences(4);
    let mut units = vec![];
    for (si, k) in seqs.iter().enumerate() {
        if k.contains(&Kind::Fsl) && k.contains(&Kind::List) {
            // rejected as a whole by the unraveler (todo!() in decimate): one representative case is enough
            report.count("layer_sequences_rejected_fsl_with_list", 1);
            continue;
        }
        let lim = limits_for(k, args.tier);
        for rows in 0..=lim.max_rows {
            units.push((si, rows));
        }
    }
    // big units first
    units.sort_by_key(|(si, rows)| std::cmp::Reverse(seqs[*si].len() * 100 + rows));
    let next = AtomicU64::new(0);
    let complete = AtomicBool::new(true);
    let per_seq: std::sync::Mutex<HashMap<String, u64>> = Default::default();
    let exhaustive_budget = report.budget_s() as f64 * 0.6;
    std::thread::scope(|s| {
        for _ in 0..threads {
            s.spawn(|| loop {
                let u = next.fetch_add(1, Ordering::Relaxed) as usize;
                if u >= units.len() {
                    break;
                }
                let (si, rows) = units[u];
                let kinds = &seqs[si];
                let lim = limits_for(kinds, args.tier);
                let name = seq_name(kinds);
                let mut od = Odometer::default();
                let mut n = 0u64;
                let mut nontriv = 0u64;
                let mut rejected = 0u64;
                let mut sigs = Vec::with_capacity(1024);
                loop {
                    od.start();
                    let shape = {
                        let mut ch = FixedRows { rows, first: true, inner: &mut od };
                        build_shape(kinds, &lim, &mut ch)
                    };
                    match roundtrip(std::slice::from_ref(&shape), &[1], None, false) {
                        Ok(obs) => {
                            n += 1;
                            if obs.rejected.is_some() {
                                rejected += 1;
                            } else if nontrivial(std::slice::from_ref(&shape), &obs) {
                                nontriv += 1;
                                sigs.push(shape_sig(&shape, &obs));
                                if n == 77 && report.want_sample() {
                                    report.sample(json!({"kinds": name, "rows": obs.expected, "def_meaning": obs.meaning, "levels": obs.levels}));
                                }
                            }
                        }
                        Err(f) => {
                            n += 1;
                            let loc = crate::quiet::take_last().map(|x| x.1);
                            report.violation(&f.sig, &f.what, json!({"engine":"exhaustive","kinds":name,"rows":rows,"choices": od.digits.iter().map(|d| d.0).collect::<Vec<_>>(),"detail":f.detail,"panic_location":loc}));
                        }
                    }
                    if sigs.len() >= 1024 {
                        for s in sigs.drain(..) {
                            report.nontrivial(s);
                        }
                    }
                    if !od.advance() {
                        break;
                    }
                    if n % 4096 == 0 && report.elapsed_s() > exhaustive_budget {
                        complete.store(false, Ordering::Relaxed);
                        break;
                    }
                }
                for s in sigs.drain(..) {
                    report.nontrivial(s);
                }
                report.cases(n);
                report.count("exhaustive_shapes", n);
                report.count("exhaustive_shapes_nontrivial", nontriv);
                report.count("exhaustive_shapes_rejected_fsl_with_list", rejected);
                for _ in 0..rejected {
                    report.rejected();
                }
                *per_seq.lock().unwrap().entry(name).or_insert(0) += n;
            });
        }
    });
    report.exhaustive(complete.load(Ordering::Relaxed));
    report.set("exhaustive_subspace", json!("all shapes over {list,fsl,struct}^d, d<=4 (FSL+list mixes are rejected by the unraveler and skipped), within the row / list-length / element limits of the rule, every validity assignment, struct nulls pushed down or not"));
    report.set("exhaustive_shapes_per_layer_sequence", json!(*per_seq.lock().unwrap()));

    // ---------------- (2) random larger shapes ----------------
    let n_random: u64 = args.tier.pick(30_000, 1_500_000);
    let random_deadline = report.budget_s() as f64 * 0.8;
    let next = AtomicU64::new(0);
    std::thread::scope(|s| {
        for _ in 0..threads {
            s.spawn(|| loop {
                let i = next.fetch_add(1, Ordering::Relaxed);
                if i >= n_random || report.elapsed_s() > random_deadline {
                    break;
                }
                let mut rng = Rng::for_case(args.seed, (5u64 << 40) + i);
                let depth = rng.urange(0, 5);
                let with_fsl = rng.chance(1, 5);
                let kinds: Vec<Kind> = (0..depth)
                    .map(|_| if with_fsl { *rng.pick(&[Kind::Fsl, Kind::Struct]) } else { *rng.pick(&[Kind::List, Kind::List, Kind::Struct]) })
                    .collect();
                let lim = Limits { max_rows: *rng.pick(&[3usize, 10, 40, 200]), max_list_len: *rng.pick(&[1usize, 3, 6]), max_elems: 2000, max_dim: 3 };
                let nb = rng.urange(1, 4);
                let mut shapes: Vec<Shape> = vec![];
                for _ in 0..nb {
                    let mut s = build_shape(&kinds, &lim, &mut RandomChooser(&mut rng));
                    // all batches must agree on FSL dimensions
                    if let Some(first) = shapes.first() {
                        if first.layers.iter().zip(s.layers.iter()).any(|(a, b)| a.kind == Kind::Fsl && a.dim != b.dim) {
                            s = first.clone();
                        }
                    }
                    shapes.push(s);
                }
                // group batches into pages
                let mut pages = vec![];
                let mut left = nb;
                while left > 0 {
                    let p = rng.urange(1, left);
                    pages.push(p);
                    left -= p;
                }
                let mut grng = Rng::for_case(args.seed, (6u64 << 40) + i);
                let use_garbage = rng.bool();
                match roundtrip(&shapes, &pages, if use_garbage { Some(&mut grng) } else { None }, false) {
                    Ok(obs) => {
                        report.count("random_shapes", 1);
                        if obs.rejected.is_some() {
                            report.rejected();
                            report.case(None);
                        } else if nontrivial(&shapes, &obs) {
                            report.case(Some(fnv(format!("{}|{}|{}", seq_name(&kinds), obs.meaning, obs.expected).as_bytes())));
                            report.count("random_levels_checked", obs.levels as u64);
                            if pages.len() > 1 {
                                report.count("random_multi_page_composites", 1);
                            }
                            if use_garbage {
                                report.count("random_with_garbage_or_sliced_offsets", 1);
                            }
                        } else {
                            report.case(None);
                        }
                    }
                    Err(f) => {
                        report.case(None);
                        let loc = crate::quiet::take_last().map(|x| x.1);
                        report.violation(&f.sig, &f.what, json!({"engine":"random","panic_location":loc,"seed":args.seed,"case":i,"kinds":seq_name(&kinds),"batches":nb,"pages":pages,"garbage":use_garbage,"detail":f.detail}));
                    }
                }
            });
        }
    });

    // ---------------- (3) control words ----------------
    {
        let mut combos = 0u64;
        let mut rng = Rng::for_case(args.seed, 7u64 << 40);
        let mut end_panics = 0u64;
        for br in 0..=15u32 {
            for bd in 0..=15u32 {
                let reps: Vec<u16> = if br == 0 { vec![0] } else { vec![1u16 << (br - 1), ((1u32 << br) - 1) as u16] };
                let defs: Vec<u16> = if bd == 0 { vec![0] } else { vec![1u16 << (bd - 1), ((1u32 << bd) - 1) as u16] };
                for mr in &reps {
                    for md in &defs {
                        for n in [0usize, 1, 2, 3, 257] {
                            match control_words(&mut rng, *mr, *md, n, false) {
                                Ok((words, bits_rep, bits_def)) => {
                                    report.count("control_words_checked", words as u64);
                                    let nt = n > 1 && (br > 0 || bd > 0);
                                    report.case(if nt { Some(fnv(format!("cw|{br}|{bd}|{mr}|{md}|{n}").as_bytes())) } else { None });
                                    if n == 257 && (bits_rep as u32 != br && bd == 0 || bits_def as u32 != bd && br == 0) {
                                        report.count("control_word_width_differs_from_minimum", 1);
                                    }
                                }
                                Err(f) => {
                                    report.case(None);
                                    report.violation(&f.sig, &f.what, json!({"engine":"control_words","max_rep":mr,"max_def":md,"n":n,"detail":f.detail}));
                                }
                            }
                        }
                    }
                }
                combos += 1;
                // diagnostic (not part of the property): behaviour after the last word
                if br + bd > 0 {
                    let mr = if br == 0 { 0 } else { 1u16 << (br - 1) };
                    let md = if bd == 0 { 0 } else { 1u16 << (bd - 1) };
                    let rep = vec![mr; 2];
                    let def = vec![md; 2];
                    let r = std::panic::catch_unwind(std::panic::AssertUnwindSafe(|| {
                        let mut it = lance_encoding::repdef::build_control_word_iterator(if br > 0 { Some(&rep) } else { None }, mr, if bd > 0 { Some(&def) } else { None }, md, 0, 2);
                        let mut buf = vec![];
                        it.append_next(&mut buf);
                        it.append_next(&mut buf);
                        it.append_next(&mut buf).is_none()
                    }));
                    if r.is_err() {
                        end_panics += 1;
                    }
                }
            }
        }
        report.set("control_word_width_combinations", json!(combos));
        report.set("diagnostic_control_word_iterators_panicking_instead_of_none_at_end", json!(end_panics));
    }

    // ---------------- (4) row -> item translation through lance-file random access ----------------
    let n_files: u64 = args.tier.pick(160, 6000);
    let next = AtomicU64::new(0);
    std::thread::scope(|s| {
        for _ in 0..threads {
            s.spawn(|| {
                let rt = fileio::runtime();
                loop {
                    let i = next.fetch_add(1, Ordering::Relaxed);
                    if i >= n_files || !report.time_left() {
                        break;
                    }
                    file_case(&report, &rt, args.seed, i);
                }
            });
        }
    });
    report.finish()
}

// ---------------------------------------------------------------------------------------------
// Shape -> Arrow
// ---------------------------------------------------------------------------------------------

fn nb(v: &Option<Vec<bool>>) -> Option<NullBuffer> {
    v.as_ref().map(|v| NullBuffer::new(BooleanBuffer::from(v.clone())))
}

/// Builds an Arrow array of the shape (lists / structs only; leaf Int32 or FSL<Int32>) with unique leaf
/// values. `garbage`: null lists keep non-empty ranges of (garbage) children.
fn shape_to_arrow(s: &Shape, leaf_fsl: Option<i32>, garbage: &mut Option<&mut Rng>, leaf_meta: &HashMap<String, String>) -> (ArrayRef, Field) {
    // leaf
    let width = leaf_fsl.unwrap_or(1) as usize;
    let n = s.leaf_n;
    let vals = Int32Array::from((0..(n * width) as i32).map(|x| x * 3 + 1).collect::<Vec<_>>());
    let (mut arr, mut field): (ArrayRef, Field) = if let Some(d) = leaf_fsl {
        let f = Arc::new(Field::new("item", DataType::Int32, true));
        let a = FixedSizeListArray::new(f.clone(), d, Arc::new(vals), nb(&s.leaf_validity));
        (Arc::new(a), Field::new("v", DataType::FixedSizeList(f, d), true).with_metadata(leaf_meta.clone()))
    } else {
        let a = Int32Array::new(vals.values().clone(), nb(&s.leaf_validity));
        (Arc::new(a), Field::new("v", DataType::Int32, true).with_metadata(leaf_meta.clone()))
    };
    for l in s.layers.iter().rev() {
        match l.kind {
            Kind::Struct => {
                let fields: Fields = vec![field.clone()].into();
                let a = StructArray::new(fields.clone(), vec![arr], nb(&l.validity));
                arr = Arc::new(a);
                field = Field::new("s", DataType::Struct(fields), true);
            }
            Kind::List => {
                // physical layout: optionally keep garbage children behind null lists
                let mut lens: Vec<usize> = l.lens.clone();
                let mut child = arr.clone();
                if let (Some(r), Some(v)) = (garbage.as_deref_mut(), &l.validity) {
                    if child.len() > 0 {
                        // rebuild the child with extra garbage rows interleaved: take() with repeated indices
                        let mut idx: Vec<u32> = vec![];
                        let mut pos = 0u32;
                        for (i, valid) in v.iter().enumerate() {
                            if !valid && r.chance(1, 2) {
                                let g = r.urange(1, 3);
                                for _ in 0..g {
                                    idx.push(r.usize_below(child.len()) as u32);
                                }
                                lens[i] = g;
                            } else {
                                for _ in 0..l.lens[i] {
                                    idx.push(pos);
                                    pos += 1;
                                }
                            }
                        }
                        child = arrow_select::take::take(child.as_ref(), &arrow_array::UInt32Array::from(idx), None).unwrap();
                    }
                }
                let mut offs = vec![0i64];
                for x in &lens {
                    offs.push(offs.last().unwrap() + *x as i64);
                }
                let f = Arc::new(field.clone().with_name("item"));
                if l.large {
                    let a = LargeListArray::new(f.clone(), OffsetBuffer::new(ScalarBuffer::from(offs)), child, nb(&l.validity));
                    arr = Arc::new(a);
                    field = Field::new("l", DataType::LargeList(f), true);
                } else {
                    let a = ListArray::new(f.clone(), OffsetBuffer::new(ScalarBuffer::from(offs.iter().map(|x| *x as i32).collect::<Vec<_>>())), child, nb(&l.validity));
                    arr = Arc::new(a);
                    field = Field::new("l", DataType::List(f), true);
                }
            }
            Kind::Fsl => unreachable!(),
        }
    }
    (arr, field)
}

/// precondition of the known AllValidList defect, computed from the model: some list layer has neither
/// nulls nor empty lists while definition levels exist (a null anywhere, or a null/empty list elsewhere)
fn allvalid_list_with_defs(s: &Shape) -> bool {
    let any_def = s.leaf_validity.as_ref().map(|v| v.iter().any(|x| !x)).unwrap_or(false)
        || s.layers.iter().any(|l| l.validity.as_ref().map(|v| v.iter().any(|x| !x)).unwrap_or(false) || (l.kind == Kind::List && l.lens.iter().zip(l.validity.clone().unwrap_or(vec![true; l.lens.len()])).any(|(n, v)| v && *n == 0)));
    let allvalid = s.layers.iter().any(|l| l.kind == Kind::List && l.n > 0 && l.validity.as_ref().map(|v| v.iter().all(|x| *x)).unwrap_or(true) && l.lens.iter().all(|n| *n > 0));
    any_def && allvalid
}

fn cells(a: &dyn Array) -> Vec<Cell> {
    (0..a.len()).map(|i| cell_at(a, i)).collect()
}

fn file_case(report: &Report, rt: &tokio::runtime::Runtime, seed: u64, i: u64) {
    let mut rng = Rng::for_case(seed, (8u64 << 40) + i);
    let depth = rng.urange(1, 3);
    let mut kinds: Vec<Kind> = (0..depth).map(|_| *rng.pick(&[Kind::List, Kind::List, Kind::Struct])).collect();
    if !kinds.contains(&Kind::List) {
        kinds[0] = Kind::List;
    }
    let structural = *rng.pick(&["miniblock", "fullzip", "default"]);
    let leaf_fsl = if rng.chance(1, 4) { Some(rng.range(1, 4) as i32) } else { None };
    let lim = Limits { max_rows: *rng.pick(&[5usize, 60, 700, 3000]), max_list_len: *rng.pick(&[1usize, 3, 8, 40]), max_elems: 60_000, max_dim: 1 };
    let nbatches = rng.urange(1, 3);
    let mut meta = HashMap::new();
    if structural != "default" {
        meta.insert("lance-encoding:structural-encoding".to_string(), structural.to_string());
    }
    let use_garbage = rng.chance(1, 3);
    let mut grng = Rng::for_case(seed, (9u64 << 40) + i);
    let mut batches = vec![];
    let mut schema = None;
    let mut expected: Vec<Cell> = vec![];
    let mut any_special = false;
    let mut known_pre = false;
    let mut leaf_items = 0usize;
    let mut leaf_has_validity = false;
    for _ in 0..nbatches {
        let s = build_shape(&kinds, &lim, &mut RandomChooser(&mut rng));
        if s.layers[0].n == 0 {
            continue;
        }
        known_pre |= allvalid_list_with_defs(&s);
        leaf_items += s.leaf_n;
        leaf_has_validity |= s.leaf_validity.is_some() || s.layers.iter().any(|l| l.n == 0 && l.validity.is_some());
        let mut g = if use_garbage { Some(&mut grng) } else { None };
        let (arr, field) = shape_to_arrow(&s, leaf_fsl, &mut g, &meta);
        let field = field.with_name("col");
        let sc = schema.get_or_insert_with(|| Arc::new(Schema::new(vec![field.clone()]))).clone();
        expected.extend(cells(arr.as_ref()));
        any_special |= s.layers.iter().any(|l| l.kind == Kind::List && (l.validity.as_ref().map(|v| v.iter().any(|x| !x)).unwrap_or(false) || l.lens.iter().any(|x| *x == 0)));
        match RecordBatch::try_new(sc, vec![arr]) {
            Ok(b) => batches.push(b),
            Err(e) => {
                report.harness_error(&format!("C27 file case {i}: cannot build batch: {e}"));
                return;
            }
        }
    }
    let Some(schema) = schema else {
        report.case(None);
        return;
    };
    let nrows = expected.len();
    let max_page = if rng.chance(1, 3) { Some(*rng.pick(&[4096u64, 65536])) } else { None };
    let kinds_s = seq_name(&kinds);
    let ctx = json!({"engine":"file","seed":seed,"case":i,"allvalid_list_with_def_levels":known_pre,"zero_leaf_items_with_child_validity":leaf_items == 0 && leaf_has_validity,"kinds":kinds_s,"structural":structural,"leaf_fsl":leaf_fsl,"rows":nrows,"garbage":use_garbage,"max_page_bytes":max_page});
    type IoOut = Result<(Vec<Vec<String>>, Vec<(String, Vec<u32>, Vec<Cell>)>), String>;
    let rng0 = rng.clone();
    let res: IoOut = crate::quiet::run_attributed(|| {
        let mut rng = rng0.clone();
        rt.block_on(async {
            let f = fileio::write_file(&batches, schema.clone(), LanceFileVersion::V2_1, max_page, &format!("c27-{i}")).await?;
            let r = fileio::open(&f).await?;
            let enc = fileio::page_encodings(&r);
            let mut reads = vec![];
            // full scan
            let all = fileio::read_all(&r, *rng.pick(&[7u32, 100, 1024])).await?;
            let got: Vec<Cell> = all.iter().flat_map(|b| cells(b.column(0).as_ref())).collect();
            reads.push(("scan".to_string(), (0..nrows as u32).collect::<Vec<_>>(), got));
            // random takes
            for t in 0..4 {
                let k = match t {
                    0 => 1,
                    1 => rng.urange(1, nrows.min(5)),
                    2 => rng.urange(1, nrows.min(64)),
                    _ => rng.urange(1, nrows),
                };
                let mut idx: Vec<u32> = rng.sample_indices(nrows, k).into_iter().map(|x| x as u32).collect();
                idx.sort();
                let out = fileio::take(&r, &idx, *rng.pick(&[3u32, 64, 4096])).await?;
                let got: Vec<Cell> = out.iter().flat_map(|b| cells(b.column(0).as_ref())).collect();
                reads.push((format!("take{t}"), idx, got));
            }
            Ok((enc, reads))
        })
    });
    match res {
        Err(e) if e.contains("(not reproduced when re-run alone)") => {
            report.case(None);
            report.count("file_failures_not_reproduced_alone", 1);
            report.inconclusive(&format!("C27 file case {i}: {e}"));
        }
        Err(e) => {
            // a failure to write/read an accepted nested array is a refutation of "reproduces the same structure"
            report.case(None);
            let cls = match crate::quiet::failure_class(&e) {
                c if c == "other" => format!("{kinds_s}-{structural}"),
                c => c,
            };
            report.violation(&format!("file-error-{cls}"), "lance-file write / read of a nested list column failed", {
                let mut c = ctx.clone();
                c["error"] = json!(e);
                c
            });
        }
        Ok((enc, reads)) => {
            let layout = if enc.iter().flatten().any(|e| e.contains("MiniBlockLayout")) { "miniblock" } else if enc.iter().flatten().any(|e| e.contains("FullZipLayout")) { "fullzip" } else { "other" };
            report.count(&format!("file_pages_layout_{layout}"), 1);
            let mut ok = true;
            for (what, idx, got) in reads {
                let want: Vec<&Cell> = idx.iter().map(|x| &expected[*x as usize]).collect();
                let same = got.len() == want.len() && got.iter().zip(want.iter()).all(|(a, b)| a == *b);
                report.count("file_rows_compared", idx.len() as u64);
                if !same {
                    ok = false;
                    let pos = got.iter().zip(want.iter()).position(|(a, b)| a != *b).unwrap_or(got.len().min(want.len()));
                    let cls = if got.len() != want.len() { "row-count" } else { "row-content" };
                    let kind = if what == "scan" { "scan" } else { "take" };
                    let mut c = ctx.clone();
                    c["read"] = json!(what);
                    c["layout"] = json!(layout);
                    c["indices_head"] = json!(idx.iter().take(20).collect::<Vec<_>>());
                    c["first_bad_position"] = json!(pos);
                    c["requested_row"] = json!(idx.get(pos));
                    c["expected"] = json!(want.get(pos).map(|c| c.render()));
                    c["got"] = json!(got.get(pos).map(|c| c.render()));
                    c["n_expected"] = json!(want.len());
                    c["n_got"] = json!(got.len());
                    // rows but no leaf item + empty child arrays with validity buffers: known root cause (C)
                    let sig = if leaf_items == 0 && leaf_has_validity { "file-zero-item-page-with-child-validity-values".to_string() } else { format!("file-{kind}-{cls}-{layout}") };
                    report.violation(&sig, "random access / scan of a nested list column returned other items than the requested rows hold", c);
                    break;
                }
            }
            if ok {
                report.count("file_round_trips", 1);
                if report.want_sample() && i % 17 == 3 {
                    report.sample(json!({"file_case": ctx, "layout": layout}));
                }
            }
            let nt = nrows > 1;
            report.case(if nt { Some(fnv(format!("file|{kinds_s}|{layout}|{leaf_fsl:?}|{}|{any_special}|{use_garbage}|{}", (nrows as f64).log2() as u32, max_page.is_some()).as_bytes())) } else { None });
        }
    }
}
