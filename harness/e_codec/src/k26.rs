//! C26 kernels: generators + the direct drive of the public compression traits
//! (`DefaultCompressionStrategy` -> `DefaultDecompressionStrategy`) with the round-trip / mini-block chunk
//! oracle. Depends only on lance-encoding, lance-core (Field), arrow and the seeded Rng so that
//! `/verif/san/san26` can include it for Miri (`ffi = false` keeps LZ4 / ZSTD — C code — out).
#![allow(dead_code)]

use crate::prng::Rng;
use arrow_array::builder::*;
use arrow_array::*;
use arrow_buffer::i256;
use arrow_schema::{DataType, Field as ArrowField, Fields, TimeUnit};
use lance_core::datatypes::Field;
use lance_encoding::buffer::LanceBuffer;
use lance_encoding::compression::{
    CompressionStrategy, DecompressionStrategy, DefaultCompressionStrategy,
    DefaultDecompressionStrategy,
};
use lance_encoding::data::{DataBlock, FixedWidthDataBlock, VariableWidthBlock};
use lance_encoding::encodings::logical::primitive::fullzip::PerValueDataBlock;
use lance_encoding::encodings::logical::primitive::miniblock::{MAX_MINIBLOCK_BYTES, MAX_MINIBLOCK_VALUES};
use lance_encoding::version::LanceFileVersion;
use std::collections::HashMap;
use std::panic::{catch_unwind, AssertUnwindSafe};
use std::sync::Arc;

// ---------------------------------------------------------------------------------------------
// canonical view of a data block: one byte string per value
// ---------------------------------------------------------------------------------------------

pub fn bits_rows(data: &[u8], bits: u64, n: u64) -> Result<Vec<Vec<u8>>, String> {
    let n = n as usize;
    if bits % 8 == 0 {
        let w = (bits / 8) as usize;
        if data.len() < n * w {
            return Err(format!("fixed-width buffer has {} bytes, need {} ({} values of {} bits)", data.len(), n * w, n, bits));
        }
        Ok((0..n).map(|i| data[i * w..(i + 1) * w].to_vec()).collect())
    } else {
        let need = (n as u64 * bits).div_ceil(8) as usize;
        if data.len() < need {
            return Err(format!("bit buffer has {} bytes, need {need}", data.len()));
        }
        Ok((0..n)
            .map(|i| {
                let mut v = 0u64;
                for b in 0..bits {
                    let pos = i as u64 * bits + b;
                    if data[(pos / 8) as usize] >> (pos % 8) & 1 == 1 {
                        v |= 1 << b;
                    }
                }
                v.to_le_bytes().to_vec()
            })
            .collect())
    }
}

pub fn var_rows(v: &VariableWidthBlock) -> Result<Vec<Vec<u8>>, String> {
    let n = v.num_values as usize;
    let offs: Vec<u64> = match v.bits_per_offset {
        32 => v.offsets.borrow_to_typed_slice::<u32>().iter().map(|x| *x as u64).collect(),
        64 => v.offsets.borrow_to_typed_slice::<u64>().to_vec(),
        o => return Err(format!("unexpected offset width {o}")),
    };
    if offs.len() < n + 1 {
        return Err(format!("{} offsets for {} values", offs.len(), n));
    }
    let data = v.data.as_ref();
    let mut out = Vec::with_capacity(n);
    for i in 0..n {
        let (a, b) = (offs[i] as usize, offs[i + 1] as usize);
        if a > b || b > data.len() {
            return Err(format!("offsets {a}..{b} invalid for {} data bytes (value {i})", data.len()));
        }
        out.push(data[a..b].to_vec());
    }
    Ok(out)
}

/// rows of a block holding `n` values
pub fn block_rows(b: &DataBlock, n: u64) -> Result<Vec<Vec<u8>>, String> {
    match b {
        DataBlock::FixedWidth(f) => {
            if f.num_values != n {
                return Err(format!("fixed-width block says {} values, expected {n}", f.num_values));
            }
            bits_rows(f.data.as_ref(), f.bits_per_value, n)
        }
        DataBlock::VariableWidth(v) => {
            if v.num_values != n {
                return Err(format!("variable-width block says {} values, expected {n}", v.num_values));
            }
            var_rows(v)
        }
        DataBlock::FixedSizeList(l) => {
            let child = block_rows(&l.child, n * l.dimension)?;
            Ok(child.chunks(l.dimension as usize).map(|c| c.concat()).collect())
        }
        DataBlock::Struct(s) => {
            let kids: Vec<Vec<Vec<u8>>> = s.children.iter().map(|c| block_rows(c, n)).collect::<Result<_, _>>()?;
            Ok((0..n as usize)
                .map(|i| {
                    let mut r = vec![];
                    for k in &kids {
                        r.extend_from_slice(&(k[i].len() as u32).to_le_bytes());
                        r.extend_from_slice(&k[i]);
                    }
                    r
                })
                .collect())
        }
        other => Err(format!("unexpected block type {}", other.name())),
    }
}

pub fn copy_buf(b: &LanceBuffer, start: usize, len: usize) -> Result<LanceBuffer, String> {
    let s = b.as_ref();
    if start + len > s.len() {
        return Err(format!("chunk buffer range {start}+{len} exceeds buffer of {} bytes", s.len()));
    }
    Ok(LanceBuffer::from(s[start..start + len].to_vec()))
}

pub fn codec_chain(desc: &str) -> String {
    // order of appearance of the codec names in the Debug rendering of the CompressiveEncoding
    const NAMES: [&str; 14] = [
        "OutOfLineBitpacking", "InlineBitpacking", "ByteStreamSplit", "Rle", "Fsst", "General", "VariablePackedStruct", "PackedStruct",
        "FixedSizeList", "Variable", "Constant", "Dictionary", "Flat", "Wrapped",
    ];
    let mut found: Vec<(usize, &str)> = vec![];
    for n in NAMES {
        let mut from = 0;
        while let Some(p) = desc[from..].find(&format!("{n}(")) {
            let at = from + p;
            // avoid counting "PackedStruct(" inside "VariablePackedStruct(" and "Bitpacking" overlaps
            let prev_alpha = at > 0 && desc.as_bytes()[at - 1].is_ascii_alphanumeric();
            if !prev_alpha {
                found.push((at, n));
            }
            from = at + n.len();
        }
    }
    found.sort();
    let mut out: Vec<&str> = vec![];
    for (_, n) in found {
        if out.last() != Some(&n) {
            out.push(n);
        }
    }
    let mut s = out.join(">");
    for sch in ["Lz4", "Zstd", "LZ4", "ZSTD"] {
        if desc.contains(sch) {
            s.push_str(&format!("[{}]", sch.to_lowercase()));
            break;
        }
    }
    s
}

// ---------------------------------------------------------------------------------------------
// generators
// ---------------------------------------------------------------------------------------------

pub const INT_PATTERNS: &[&str] = &["random", "width_k", "boundary", "all_equal", "runs", "extreme", "ramp", "neg_small", "two_values"];

pub fn gen_u64s(rng: &mut Rng, n: usize, bits: u32, pattern: &str) -> Vec<u64> {
    let mask = if bits == 64 { u64::MAX } else { (1u64 << bits) - 1 };
    match pattern {
        "random" => (0..n).map(|_| rng.next_u64() & mask).collect(),
        "width_k" => {
            let k = rng.urange(0, bits as usize) as u32;
            let m = if k == 0 { 0 } else if k == 64 { u64::MAX } else { (1u64 << k) - 1 };
            let mut v: Vec<u64> = (0..n).map(|_| rng.next_u64() & m).collect();
            if n > 0 && k > 0 {
                let i = rng.usize_below(n);
                v[i] = m; // make the width exact
            }
            v
        }
        "boundary" => {
            let k = rng.urange(1, bits as usize) as u32;
            let p = if k == 64 { u64::MAX } else { 1u64 << k };
            let c = [0u64, 1, p.wrapping_sub(1) & mask, p & mask, p.wrapping_add(1) & mask];
            (0..n).map(|_| *rng.pick(&c)).collect()
        }
        "all_equal" => {
            let r = rng.next_u64() & mask;
            let x = *rng.pick(&[0u64, 1, mask, r]);
            vec![x; n]
        }
        "runs" => {
            let mut v = Vec::with_capacity(n);
            let maxrun = *rng.pick(&[3usize, 40, 254, 255, 256, 257, 700, 5000]);
            let small = rng.bool();
            while v.len() < n {
                let x = if small { rng.below(5) } else { rng.next_u64() & mask };
                let r = rng.urange(1, maxrun).min(n - v.len());
                v.extend(std::iter::repeat_n(x, r));
            }
            v
        }
        "extreme" => {
            let hi = mask;
            let smin = 1u64 << (bits - 1);
            let c = [0u64, hi, smin, smin - 1, 1, hi - 1];
            (0..n).map(|_| *rng.pick(&c)).collect()
        }
        "ramp" => {
            let s = rng.next_u64();
            let step = *rng.pick(&[1u64, 3, 1 << 20]);
            (0..n as u64).map(|i| s.wrapping_add(i * step) & mask).collect()
        }
        "neg_small" => (0..n).map(|_| (rng.range(-3, 3) as u64) & mask).collect(),
        _ => {
            let a = rng.next_u64() & mask;
            let b = rng.next_u64() & mask;
            (0..n).map(|_| if rng.chance(1, 10) { b } else { a }).collect()
        }
    }
}

pub fn int_array(dt: &DataType, v: &[u64]) -> ArrayRef {
    match dt {
        DataType::Int8 => Arc::new(Int8Array::from(v.iter().map(|x| *x as i8).collect::<Vec<_>>())),
        DataType::Int16 => Arc::new(Int16Array::from(v.iter().map(|x| *x as i16).collect::<Vec<_>>())),
        DataType::Int32 => Arc::new(Int32Array::from(v.iter().map(|x| *x as i32).collect::<Vec<_>>())),
        DataType::Int64 => Arc::new(Int64Array::from(v.iter().map(|x| *x as i64).collect::<Vec<_>>())),
        DataType::UInt8 => Arc::new(UInt8Array::from(v.iter().map(|x| *x as u8).collect::<Vec<_>>())),
        DataType::UInt16 => Arc::new(UInt16Array::from(v.iter().map(|x| *x as u16).collect::<Vec<_>>())),
        DataType::UInt32 => Arc::new(UInt32Array::from(v.iter().map(|x| *x as u32).collect::<Vec<_>>())),
        DataType::UInt64 => Arc::new(UInt64Array::from(v.to_vec())),
        DataType::Date32 => Arc::new(Date32Array::from(v.iter().map(|x| *x as i32).collect::<Vec<_>>())),
        DataType::Timestamp(TimeUnit::Microsecond, None) => Arc::new(TimestampMicrosecondArray::from(v.iter().map(|x| *x as i64).collect::<Vec<_>>())),
        DataType::Float16 => Arc::new(Float16Array::from(v.iter().map(|x| half::f16::from_bits(*x as u16)).collect::<Vec<_>>())),
        DataType::Float32 => Arc::new(Float32Array::from(v.iter().map(|x| f32::from_bits(*x as u32)).collect::<Vec<_>>())),
        DataType::Float64 => Arc::new(Float64Array::from(v.iter().map(|x| f64::from_bits(*x)).collect::<Vec<_>>())),
        DataType::Duration(TimeUnit::Nanosecond) => Arc::new(DurationNanosecondArray::from(v.iter().map(|x| *x as i64).collect::<Vec<_>>())),
        _ => unreachable!("{dt}"),
    }
}

pub fn int_bits(dt: &DataType) -> u32 {
    match dt {
        DataType::Int8 | DataType::UInt8 => 8,
        DataType::Int16 | DataType::UInt16 | DataType::Float16 => 16,
        DataType::Int32 | DataType::UInt32 | DataType::Date32 | DataType::Float32 => 32,
        _ => 64,
    }
}

pub fn float_array(rng: &mut Rng, dt: &DataType, n: usize) -> (ArrayRef, &'static str) {
    let pat = *rng.pick(&["random", "few_values", "specials", "integral", "all_equal", "smooth", "runs"]);
    let f: Vec<f64> = match pat {
        "random" => (0..n).map(|_| (rng.f64() - 0.5) * 10f64.powi(rng.range(-5, 5) as i32)).collect(),
        "few_values" => {
            let c: Vec<f64> = (0..rng.urange(1, 6)).map(|_| rng.f64() * 100.0).collect();
            (0..n).map(|_| *rng.pick(&c)).collect()
        }
        "specials" => {
            let c = [f64::NAN, f64::INFINITY, f64::NEG_INFINITY, 0.0, -0.0, f64::MIN_POSITIVE, 1e-310, f64::MAX, 1.5];
            (0..n).map(|_| *rng.pick(&c)).collect()
        }
        "integral" => (0..n).map(|_| rng.range(-1000, 1000) as f64).collect(),
        "all_equal" => vec![rng.f64(); n],
        "smooth" => {
            let mut x = rng.f64();
            (0..n)
                .map(|_| {
                    x += (rng.f64() - 0.5) * 1e-3;
                    x
                })
                .collect()
        }
        _ => {
            let mut v = Vec::with_capacity(n);
            while v.len() < n {
                let x = rng.f64();
                let r = rng.urange(1, 400).min(n - v.len());
                v.extend(std::iter::repeat_n(x, r));
            }
            v
        }
    };
    let arr: ArrayRef = match dt {
        DataType::Float32 => Arc::new(Float32Array::from(f.iter().map(|x| *x as f32).collect::<Vec<_>>())),
        DataType::Float16 => Arc::new(Float16Array::from(f.iter().map(|x| half::f16::from_f64(*x)).collect::<Vec<_>>())),
        _ => Arc::new(Float64Array::from(f)),
    };
    (arr, pat)
}

pub fn bytes_values(rng: &mut Rng, n: usize) -> (Vec<Vec<u8>>, &'static str) {
    if rng.chance(1, 4) {
        // "every token is a symbol" corpus (same idea as k28.rs symtok): 32 tokens of 8 (4..7) bytes, every byte value
        // in exactly one token, two frequency tiers + one least frequent token, most values end with a proper
        // prefix of their last token
        let l = if rng.chance(17, 20) { 8 } else { rng.urange(5, 7) };
        let mut perm: Vec<u8> = (0..=255u8).collect();
        rng.shuffle(&mut perm);
        let mut tokens: Vec<Vec<u8>> = (0..32).map(|t| perm[t * l..(t + 1) * l].to_vec()).collect();
        let fillers: Vec<Vec<u8>> = perm[32 * l..].chunks(8).map(|c| c.to_vec()).collect();
        let hi_w = *rng.pick(&[4.0f64, 5.0]);
        let n_hi = *rng.pick(&[12usize, 12, 16, 16, 20]);
        let r_idx = n_hi + rng.usize_below(32 - n_hi);
        let p = if rng.chance(1, 2) { l - 1 } else { rng.usize_below(l) };
        let mut cum = vec![];
        let mut acc = 0.0;
        for t in 0..32 {
            acc += if t == r_idx { 0.85 } else if t < n_hi { hi_w } else { 1.0 };
            cum.push(acc);
        }
        for _ in &fillers {
            acc += hi_w;
            cum.push(acc);
        }
        tokens.extend(fillers.iter().cloned());
        let cut_share = *rng.pick(&[3u64, 5, 8]);
        let trail0 = rng.below(3);
        let mut v: Vec<Vec<u8>> = Vec::with_capacity(n);
        let mut r_uses = 0;
        // mini-block keeps values < 256 bytes: 1..30 tokens; the value count n decides the total size
        for _ in 0..n {
            let nt = rng.urange(1, 30);
            let mut rec = vec![];
            let mut last_len = 0;
            let mut last_tok = 0;
            for _ in 0..nt {
                let x = rng.f64() * acc;
                let t = cum.partition_point(|c| *c < x).min(tokens.len() - 1);
                if t == r_idx {
                    r_uses += 1;
                }
                rec.extend_from_slice(&tokens[t]);
                last_len = tokens[t].len();
                last_tok = t;
            }
            if rng.below(10) < cut_share && last_len > 1 && (last_tok >= n_hi || rng.chance(1, 3)) {
                // every cut position; a value whose last token is the rare one ends right before the rare byte
                let cut = if last_tok == r_idx && p > 0 && rng.bool() { last_len - p } else { rng.urange(1, last_len - 1) };
                rec.truncate(rec.len() - cut);
            }
            if trail0 > 0 && rng.chance(trail0, 4) {
                rec.push(0x00);
            }
            v.push(rec);
        }
        // boost the other bytes of the rare token (single-byte values) so that position p holds the rarest byte
        let boost = (r_uses / 2).max(3).min(n / 4);
        let rt = tokens[r_idx].clone();
        let mut slot = 0;
        for (j, b) in rt.iter().enumerate() {
            if j > p {
                for _ in 0..boost {
                    if slot < v.len() {
                        v[slot] = vec![*b];
                        slot += 1;
                    }
                }
            }
        }
        rng.shuffle(&mut v);
        return (v, "symtok");
    }
    let pat = if rng.chance(1, 3) { "tokens" } else { *rng.pick(&["text", "random", "empty_mix", "all_same", "long", "tiny", "all_empty", "ff_heavy", "one_big"]) };
    if pat == "tokens" {
        // structured binary corpus (see k28.rs): multi-byte tokens covering all 256 byte values, Zipf frequencies,
        // values cut at token boundaries / mid-token, optional trailing 0x00 / 0xFF, some around multiples of 511
        let ntok = rng.urange(22, 64);
        let mut perm: Vec<u8> = (0..=255u8).collect();
        rng.shuffle(&mut perm);
        let mut tokens: Vec<Vec<u8>> = vec![vec![]; ntok];
        for (i, b) in perm.iter().enumerate() {
            tokens[i % ntok].push(*b);
        }
        for t in tokens.iter_mut() {
            while t.len() < 2 {
                t.push(perm[rng.usize_below(8)]);
            }
        }
        rng.shuffle(&mut tokens);
        let zs = *rng.pick(&[0.7f64, 1.0, 1.3, 1.8]);
        let cum: Vec<f64> = (0..ntok).scan(0.0, |a, k| { *a += 1.0 / ((k + 1) as f64).powf(zs); Some(*a) }).collect();
        let long = rng.chance(1, 4);
        let v: Vec<Vec<u8>> = (0..n)
            .map(|_| {
                let len = if long && rng.chance(1, 8) { (rng.urange(1, 2) * 511) as i64 + rng.range(-5, 5) } else { *rng.pick(&[1i64, 3, 8, 13, 21, 40, 90]) + rng.range(0, 3) } as usize;
                let mut s = vec![];
                while s.len() < len {
                    let x = rng.f64() * cum[ntok - 1];
                    let k = cum.partition_point(|c| *c < x).min(ntok - 1);
                    s.extend_from_slice(&tokens[k]);
                }
                if rng.chance(2, 3) {
                    s.truncate(len);
                }
                match rng.below(6) {
                    0 => s.push(0x00),
                    1 => s.push(0xFF),
                    _ => {}
                }
                s
            })
            .collect();
        return (v, "tokens");
    }
    let vocab: Vec<Vec<u8>> = (0..rng.urange(2, 40)).map(|_| (0..rng.urange(1, 10)).map(|_| b'a' + rng.below(26) as u8).collect()).collect();
    let text = |rng: &mut Rng, maxw: usize| -> Vec<u8> {
        let mut s = vec![];
        for i in 0..rng.urange(0, maxw) {
            if i > 0 {
                s.push(b' ');
            }
            s.extend_from_slice(&vocab[rng.usize_below(vocab.len())]);
        }
        s
    };
    let v: Vec<Vec<u8>> = match pat {
        "text" => (0..n).map(|_| text(rng, 12)).collect(),
        "random" => (0..n).map(|_| { let l = rng.urange(0, 40); rng.bytes(l) }).collect(),
        "empty_mix" => (0..n).map(|_| if rng.bool() { vec![] } else { text(rng, 4) }).collect(),
        "all_same" => {
            let s = text(rng, 6);
            vec![s; n]
        }
        "long" => (0..n).map(|_| { let l = rng.urange(200, 1500); let mut s = text(rng, 400); s.resize(l, b'x'); s }).collect(),
        "tiny" => (0..n).map(|_| { let l = rng.urange(0, 3); rng.bytes(l) }).collect(),
        "all_empty" => vec![vec![]; n],
        "ff_heavy" => (0..n).map(|_| (0..rng.urange(0, 30)).map(|_| if rng.bool() { 0xFF } else { rng.next_u32() as u8 }).collect()).collect(),
        _ => {
            let big = rng.usize_below(n.max(1));
            (0..n).map(|i| if i == big { let l = rng.urange(5000, 70000); let mut s = text(rng, 2000); s.resize(l, b'y'); s } else { text(rng, 3) }).collect()
        }
    };
    (v, pat)
}

pub fn bytes_array(dt: &DataType, v: &[Vec<u8>], ascii: bool) -> ArrayRef {
    let strs = || v.iter().map(|b| if ascii { String::from_utf8_lossy(b).to_string() } else { b.iter().map(|c| (b'a' + c % 26) as char).collect::<String>() }).collect::<Vec<_>>();
    match dt {
        DataType::Utf8 => Arc::new(StringArray::from(strs())),
        DataType::LargeUtf8 => Arc::new(LargeStringArray::from(strs())),
        DataType::Binary => Arc::new(BinaryArray::from(v.iter().map(|b| b.as_slice()).collect::<Vec<_>>())),
        _ => Arc::new(LargeBinaryArray::from(v.iter().map(|b| b.as_slice()).collect::<Vec<_>>())),
    }
}

pub fn pick_n(rng: &mut Rng) -> usize {
    let c = [1usize, 2, 3, 7, 8, 100, 255, 256, 257, 1023, 1024, 1025, 2048, 4095, 4096, 4097, 5000, 8192, 10_000, 20_000];
    if rng.chance(1, 4) {
        rng.urange(1, 6000)
    } else {
        *rng.pick(&c)
    }
}

pub struct Gen {
    pub array: ArrayRef,
    pub class: &'static str,
    pub pattern: String,
}

pub fn gen_array(rng: &mut Rng, class: &'static str, n: usize) -> Gen {
    match class {
        "int" => {
            let dt = rng.pick(&[DataType::Int8, DataType::Int16, DataType::Int32, DataType::Int64, DataType::UInt8, DataType::UInt16, DataType::UInt32, DataType::UInt64, DataType::Date32, DataType::Timestamp(TimeUnit::Microsecond, None), DataType::Duration(TimeUnit::Nanosecond)]).clone();
            let p = *rng.pick(INT_PATTERNS);
            let v = gen_u64s(rng, n, int_bits(&dt), p);
            Gen { array: int_array(&dt, &v), class, pattern: format!("{dt}/{p}") }
        }
        "float" => {
            let dt = rng.pick(&[DataType::Float32, DataType::Float64, DataType::Float16]).clone();
            if rng.chance(1, 4) {
                // raw bit patterns: every NaN payload, subnormals ...
                let p = *rng.pick(INT_PATTERNS);
                let v = gen_u64s(rng, n, int_bits(&dt), p);
                Gen { array: int_array(&dt, &v), class, pattern: format!("{dt}/bits-{p}") }
            } else {
                let (a, p) = float_array(rng, &dt, n);
                Gen { array: a, class, pattern: format!("{dt}/{p}") }
            }
        }
        "bool" => {
            let p = *rng.pick(&["random", "all_true", "all_false", "runs"]);
            let v: Vec<bool> = match p {
                "random" => (0..n).map(|_| rng.bool()).collect(),
                "all_true" => vec![true; n],
                "all_false" => vec![false; n],
                _ => (0..n).map(|i| (i / 37) % 2 == 0).collect(),
            };
            Gen { array: Arc::new(BooleanArray::from(v)), class, pattern: format!("bool/{p}") }
        }
        "wide" => {
            // fixed widths that are not 8/16/32/64 bits
            match rng.below(3) {
                0 => {
                    let v: Vec<i128> = (0..n).map(|_| ((rng.next_u64() as i128) << 64 | rng.next_u64() as i128) >> rng.below(120)).collect();
                    Gen { array: Arc::new(Decimal128Array::from(v).with_precision_and_scale(38, 3).unwrap()), class, pattern: "decimal128".into() }
                }
                1 => {
                    let w = *rng.pick(&[1i32, 3, 5, 12, 33]);
                    let mut b = FixedSizeBinaryBuilder::with_capacity(n, w);
                    for _ in 0..n {
                        b.append_value(rng.bytes(w as usize)).unwrap();
                    }
                    Gen { array: Arc::new(b.finish()), class, pattern: format!("fsb{w}") }
                }
                _ => {
                    let v: Vec<i256> = (0..n).map(|_| i256::from_parts(rng.next_u64() as u128, (rng.next_u64() >> 8) as i128)).collect();
                    Gen { array: Arc::new(Decimal256Array::from(v).with_precision_and_scale(76, 0).unwrap()), class, pattern: "decimal256".into() }
                }
            }
        }
        "var" => {
            let dt = rng.pick(&[DataType::Utf8, DataType::LargeUtf8, DataType::Binary, DataType::LargeBinary]).clone();
            let (v, p) = bytes_values(rng, n);
            // the token corpora must keep their raw bytes (all 256 values): binary types only
            let dt = match (p, &dt) {
                ("tokens" | "symtok", DataType::Utf8) => DataType::Binary,
                ("tokens" | "symtok", DataType::LargeUtf8) => DataType::LargeBinary,
                _ => dt,
            };
            let ascii = matches!(p, "text" | "empty_mix" | "all_same" | "long" | "all_empty" | "one_big");
            Gen { array: bytes_array(&dt, &v, ascii), class, pattern: format!("{dt}/{p}") }
        }
        "fsl" => {
            let dim = *rng.pick(&[1i32, 2, 3, 8, 16, 33]);
            let dt = rng.pick(&[DataType::Float32, DataType::Int32, DataType::UInt8, DataType::Float64]).clone();
            let v = gen_u64s(rng, n * dim as usize, int_bits(&dt), "random");
            let child = int_array(&dt, &v);
            let f = Arc::new(ArrowField::new("item", dt.clone(), true));
            Gen { array: Arc::new(FixedSizeListArray::new(f, dim, child, None)), class, pattern: format!("fsl<{dt};{dim}>") }
        }
        "struct_fixed" => {
            let k = rng.urange(1, 4);
            let mut fields = vec![];
            let mut cols: Vec<ArrayRef> = vec![];
            for i in 0..k {
                let dt = rng.pick(&[DataType::Int8, DataType::Int32, DataType::UInt64, DataType::Float32, DataType::Int16, DataType::Float64]).clone();
                let p = *rng.pick(INT_PATTERNS);
                let v = gen_u64s(rng, n, int_bits(&dt), p);
                cols.push(int_array(&dt, &v));
                fields.push(ArrowField::new(format!("f{i}"), dt, true));
            }
            let fields: Fields = fields.into();
            Gen { array: Arc::new(StructArray::new(fields, cols, None)), class, pattern: format!("struct{k}") }
        }
        _ => {
            // struct with a variable-width child (variable packed struct, 2.2 only)
            let k = rng.urange(1, 3);
            let mut fields = vec![];
            let mut cols: Vec<ArrayRef> = vec![];
            for i in 0..k {
                if i == 0 || rng.bool() {
                    let (v, _) = bytes_values(rng, n);
                    let dt = rng.pick(&[DataType::Utf8, DataType::Binary]).clone();
                    cols.push(bytes_array(&dt, &v, false));
                    fields.push(ArrowField::new(format!("f{i}"), dt, true));
                } else {
                    let dt = rng.pick(&[DataType::Int32, DataType::UInt64, DataType::Float32]).clone();
                    let v = gen_u64s(rng, n, int_bits(&dt), "random");
                    cols.push(int_array(&dt, &v));
                    fields.push(ArrowField::new(format!("f{i}"), dt, true));
                }
            }
            let fields: Fields = fields.into();
            Gen { array: Arc::new(StructArray::new(fields, cols, None)), class: "struct_var", pattern: format!("structv{k}") }
        }
    }
}

pub fn gen_metadata(rng: &mut Rng, class: &str, ffi: bool) -> HashMap<String, String> {
    let mut m = HashMap::new();
    let comp = if ffi { *rng.pick(&["", "", "none", "lz4", "zstd", "fsst"]) } else { *rng.pick(&["", "", "none", "fsst"]) };
    if !comp.is_empty() {
        m.insert("lance-encoding:compression".to_string(), comp.to_string());
    }
    if (comp == "zstd" || comp == "lz4") && rng.bool() {
        m.insert("lance-encoding:compression-level".to_string(), rng.range(-2, 9).to_string());
    }
    if rng.chance(1, 3) {
        m.insert("lance-encoding:rle-threshold".to_string(), rng.pick(&["0.0", "0.25", "0.5", "0.9", "1.0", "2.0"]).to_string());
    }
    if class == "float" && rng.chance(1, 2) || rng.chance(1, 10) {
        m.insert("lance-encoding:bss".to_string(), rng.pick(&["off", "on", "auto"]).to_string());
    }
    m
}

// ---------------------------------------------------------------------------------------------
// Part A: direct drive of the compression traits
// ---------------------------------------------------------------------------------------------

#[derive(Debug)]
pub struct Fail {
    pub sig: String,
    pub what: String,
    pub detail: String,
}

pub enum Outcome {
    Ok { chain: String, chunks: usize, bytes_in: u64, bytes_out: u64 },
    Rejected(String),
    Failed(Fail),
}

pub fn pmsg(p: Box<dyn std::any::Any + Send>) -> String {
    if let Some(s) = p.downcast_ref::<&str>() {
        s.to_string()
    } else if let Some(s) = p.downcast_ref::<String>() {
        s.clone()
    } else {
        "<non-string panic>".into()
    }
}

pub fn unsupported_msg(m: &str) -> bool {
    let l = m.to_lowercase();
    l.contains("invalid user input") || l.contains("not yet supported") || l.contains("not supported") || l.contains("not yet implemented") || l.contains("not implemented") || l.contains("does not support")
}

pub fn first_diff(a: &[Vec<u8>], b: &[Vec<u8>]) -> String {
    if a.len() != b.len() {
        return format!("{} values expected, {} decoded", a.len(), b.len());
    }
    for (i, (x, y)) in a.iter().zip(b.iter()).enumerate() {
        if x != y {
            let nbad = a.iter().zip(b.iter()).filter(|(p, q)| p != q).count();
            return format!("{nbad} of {} values differ, first at {i}: expected {:02x?} got {:02x?}", a.len(), &x[..x.len().min(16)], &y[..y.len().min(16)]);
        }
    }
    "identical".into()
}

pub fn run_direct(path: &str, version: LanceFileVersion, field: &Field, block: DataBlock, rows: &[Vec<u8>], rng: &mut Rng, corrupt: bool) -> Outcome {
    let n = rows.len() as u64;
    let strategy = DefaultCompressionStrategy::new().with_version(version);
    let dec = DefaultDecompressionStrategy::default();
    let bytes_in: u64 = rows.iter().map(|r| r.len() as u64).sum();
    let fail = |cls: &str, chain: &str, what: &str, detail: String| Outcome::Failed(Fail { sig: format!("{path}-{cls}-{chain}"), what: what.into(), detail });
    match path {
        "miniblock" => {
            let r = catch_unwind(AssertUnwindSafe(|| -> Result<_, String> {
                let c = strategy.create_miniblock_compressor(field, &block).map_err(|e| format!("create: {e}"))?;
                let (mb, enc) = c.compress(block).map_err(|e| format!("compress: {e}"))?;
                Ok((mb, enc))
            }));
            let (mb, enc) = match r {
                Err(p) => {
                    let m = pmsg(p);
                    return if unsupported_msg(&m) { Outcome::Rejected(m) } else { fail("compress-panic", "", "mini-block compressor panicked", m) };
                }
                Ok(Err(e)) => return Outcome::Rejected(e),
                Ok(Ok(x)) => x,
            };
            let chain = codec_chain(&format!("{enc:?}"));
            // ---- chunk invariants (miniblock.rs) ----
            if mb.num_values != n {
                return fail("num-values", &chain, "MiniBlockCompressed.num_values differs from the input", format!("{} vs {n}", mb.num_values));
            }
            let nchunks = mb.chunks.len();
            let max_row_len = rows.iter().map(|r| r.len()).max().unwrap_or(0);
            let mut wide_over = false;
            let mut vals_before = 0u64;
            let mut offs = vec![0usize; mb.data.len()];
            let mut decoded: Vec<Vec<u8>> = Vec::with_capacity(n as usize);
            let dcmp = match catch_unwind(AssertUnwindSafe(|| dec.create_miniblock_decompressor(&enc, &dec))) {
                Ok(Ok(d)) => d,
                Ok(Err(e)) => return fail("no-decompressor", &chain, "no decompressor for the compressor's own description", e.to_string()),
                Err(p) => return fail("no-decompressor", &chain, "creating the decompressor for the compressor's own description panicked", pmsg(p)),
            };
            let mut bytes_out = 0u64;
            for (ci, ch) in mb.chunks.iter().enumerate() {
                let last = ci + 1 == nchunks;
                if ch.buffer_sizes.len() != mb.data.len() {
                    return fail("chunk-buffers", &chain, "chunk has a different number of buffers than the page", format!("chunk {ci}: {} vs {}", ch.buffer_sizes.len(), mb.data.len()));
                }
                let total: u64 = ch.buffer_sizes.iter().map(|x| *x as u64).sum();
                bytes_out += total;
                if total > MAX_MINIBLOCK_BYTES {
                    // lance only chooses mini-block by itself for values narrower than 256 bytes; with wider
                    // values (user-forced mini-block) a chunk cannot always respect the limit
                    if max_row_len < 256 {
                        // one signature per root cause: the fixed-width bit-packer or the variable-width (binary) chunker
                        let root = if chain.contains("InlineBitpacking") { "bitpacking" } else if chain.contains("Variable") { "binary" } else { chain.as_str() };
                        return fail("chunk-bytes", root, "mini-block chunk exceeds the documented byte limit (8 KiB - 6)", format!("chunk {ci} of {nchunks}: {total} bytes for {} values (log_num_values {})", ch.num_values(vals_before, n), ch.log_num_values));
                    }
                    wide_over = true;
                }
                if ch.log_num_values > 12 {
                    return fail("chunk-log", &chain, "mini-block chunk log_num_values > 12", format!("chunk {ci}: {}", ch.log_num_values));
                }
                if !last && ch.log_num_values == 0 {
                    return fail("chunk-pow2", &chain, "a non-final chunk has log_num_values 0 (value count not a power of two > 1)", format!("chunk {ci} of {nchunks}"));
                }
                if vals_before >= n && !(n == 0) {
                    return fail("chunk-count", &chain, "chunks describe more values than the page holds", format!("chunk {ci}: {vals_before} values before, page has {n}"));
                }
                let cv = ch.num_values(vals_before, n);
                if cv == 0 || cv > MAX_MINIBLOCK_VALUES || vals_before + cv > n {
                    return fail("chunk-values", &chain, "chunk value count outside 1..=4096 / beyond the page", format!("chunk {ci} of {nchunks}: {cv} values after {vals_before} of {n} (log {})", ch.log_num_values));
                }
                let mut bufs = vec![];
                for (bi, sz) in ch.buffer_sizes.iter().enumerate() {
                    match copy_buf(&mb.data[bi], offs[bi], *sz as usize) {
                        Ok(b) => bufs.push(b),
                        Err(e) => return fail("chunk-range", &chain, "chunk buffer sizes exceed the page buffers", e),
                    }
                    offs[bi] += *sz as usize;
                }
                if corrupt && ci == 0 {
                    if let Some(b) = bufs.iter_mut().rev().find(|b| b.len() > 0) {
                        let mut v = b.as_ref().to_vec();
                        let k = v.len() / 2;
                        v[k] ^= 0x10;
                        *b = LanceBuffer::from(v);
                    }
                }
                let out = catch_unwind(AssertUnwindSafe(|| dcmp.decompress(bufs, cv)));
                let blk = match out {
                    Err(p) => return fail("decompress-panic", &chain, "mini-block decompressor panicked on the compressor's own output", format!("chunk {ci} ({cv} values): {}", pmsg(p))),
                    Ok(Err(e)) => return fail("decompress-err", &chain, "mini-block decompressor rejected the compressor's own output", format!("chunk {ci}: {e}")),
                    Ok(Ok(b)) => b,
                };
                match block_rows(&blk, cv) {
                    Ok(r) => decoded.extend(r),
                    Err(e) => return fail("decoded-malformed", &chain, "decompressed chunk is malformed", format!("chunk {ci}: {e}")),
                }
                vals_before += cv;
            }
            if vals_before != n {
                return fail("chunk-sum", &chain, "chunk value counts do not add up to the page", format!("{vals_before} vs {n}"));
            }
            for (bi, o) in offs.iter().enumerate() {
                if *o != mb.data[bi].len() {
                    return fail("chunk-leftover", &chain, "page buffer has bytes not covered by any chunk", format!("buffer {bi}: {} of {} bytes used", o, mb.data[bi].len()));
                }
            }
            if decoded != rows {
                return fail("roundtrip", &chain, "decompress(compress(block)) != block", first_diff(rows, &decoded));
            }
            let chain = if wide_over { format!("{chain}+wide-chunk-over-limit") } else { chain };
            Outcome::Ok { chain, chunks: nchunks, bytes_in, bytes_out }
        }
        "pervalue" => {
            let r = catch_unwind(AssertUnwindSafe(|| -> Result<_, String> {
                let c = strategy.create_per_value(field, &block).map_err(|e| format!("create: {e}"))?;
                c.compress(block).map_err(|e| format!("compress: {e}"))
            }));
            let (pv, enc) = match r {
                Err(p) => {
                    let m = pmsg(p);
                    return if unsupported_msg(&m) { Outcome::Rejected(m) } else { fail("compress-panic", "", "per-value compressor panicked", m) };
                }
                Ok(Err(e)) => return Outcome::Rejected(e),
                Ok(Ok(x)) => x,
            };
            let chain = codec_chain(&format!("{enc:?}"));
            let bytes_out = pv.data_size();
            // whole block, then a random sub-range (per-value compression promises independent values)
            let (a, b) = if n > 1 {
                let a = rng.usize_below(n as usize);
                (a, rng.urange(a + 1, n as usize))
            } else {
                (0, n as usize)
            };
            let mut views: Vec<(usize, usize, PerValueDataBlock)> = vec![];
            match &pv {
                PerValueDataBlock::Fixed(f) => {
                    if f.num_values != n {
                        return fail("num-values", &chain, "per-value output has a different number of values", format!("{} vs {n}", f.num_values));
                    }
                    let w = (f.bits_per_value / 8) as usize;
                    if f.bits_per_value % 8 != 0 {
                        return fail("bits", &chain, "per-value fixed output is not byte aligned", format!("{} bits", f.bits_per_value));
                    }
                    let mut whole = f.data.as_ref().to_vec();
                    if corrupt && !whole.is_empty() {
                        let k = whole.len() / 2;
                        whole[k] ^= 1;
                    }
                    views.push((0, n as usize, PerValueDataBlock::Fixed(FixedWidthDataBlock { data: LanceBuffer::from(whole.clone()), bits_per_value: f.bits_per_value, num_values: n, block_info: Default::default() })));
                    if whole.len() >= b * w {
                        views.push((a, b, PerValueDataBlock::Fixed(FixedWidthDataBlock { data: LanceBuffer::from(whole[a * w..b * w].to_vec()), bits_per_value: f.bits_per_value, num_values: (b - a) as u64, block_info: Default::default() })));
                    }
                }
                PerValueDataBlock::Variable(v) => {
                    if v.num_values != n {
                        return fail("num-values", &chain, "per-value output has a different number of values", format!("{} vs {n}", v.num_values));
                    }
                    let offs: Vec<u64> = match v.bits_per_offset {
                        32 => v.offsets.borrow_to_typed_slice::<u32>().iter().map(|x| *x as u64).collect(),
                        _ => v.offsets.borrow_to_typed_slice::<u64>().to_vec(),
                    };
                    let mut data = v.data.as_ref().to_vec();
                    if corrupt && !data.is_empty() {
                        let k = data.len() / 2;
                        data[k] ^= 1;
                    }
                    let mk = |a: usize, b: usize| -> Option<PerValueDataBlock> {
                        if offs.len() < b + 1 || offs[b] as usize > data.len() || offs[a] > offs[b] {
                            return None;
                        }
                        let base = offs[a];
                        let o: Vec<u64> = offs[a..=b].iter().map(|x| x - base).collect();
                        let d = data[offs[a] as usize..offs[b] as usize].to_vec();
                        let offsets = if v.bits_per_offset == 32 { LanceBuffer::reinterpret_vec(o.iter().map(|x| *x as u32).collect::<Vec<_>>()) } else { LanceBuffer::reinterpret_vec(o) };
                        Some(PerValueDataBlock::Variable(VariableWidthBlock { data: LanceBuffer::from(d), offsets, bits_per_offset: v.bits_per_offset, num_values: (b - a) as u64, block_info: Default::default() }))
                    };
                    match mk(0, n as usize) {
                        Some(x) => views.push((0, n as usize, x)),
                        None => return fail("offsets", &chain, "per-value variable output has inconsistent offsets", format!("{} offsets, {} data bytes", offs.len(), data.len())),
                    }
                    if let Some(x) = mk(a, b) {
                        views.push((a, b, x));
                    }
                }
            }
            for (a, b, view) in views {
                let cnt = (b - a) as u64;
                let out = catch_unwind(AssertUnwindSafe(|| -> Result<DataBlock, String> {
                    match view {
                        PerValueDataBlock::Fixed(f) => dec.create_fixed_per_value_decompressor(&enc).map_err(|e| e.to_string())?.decompress(f, cnt).map_err(|e| e.to_string()),
                        PerValueDataBlock::Variable(v) => dec.create_variable_per_value_decompressor(&enc).map_err(|e| e.to_string())?.decompress(v).map_err(|e| e.to_string()),
                    }
                }));
                let blk = match out {
                    Err(p) => return fail("decompress-panic", &chain, "per-value decompressor panicked on the compressor's own output", format!("values {a}..{b}: {}", pmsg(p))),
                    Ok(Err(e)) => return fail("decompress-err", &chain, "per-value decompressor rejected the compressor's own output", format!("values {a}..{b}: {e}")),
                    Ok(Ok(x)) => x,
                };
                let got = match block_rows(&blk, cnt) {
                    Ok(r) => r,
                    Err(e) => return fail("decoded-malformed", &chain, "decompressed per-value block is malformed", format!("values {a}..{b}: {e}")),
                };
                if got != rows[a..b] {
                    let cls = if a == 0 && b == n as usize { "roundtrip" } else { "roundtrip-subrange" };
                    return fail(cls, &chain, "decompress(compress(block)) != block", format!("values {a}..{b}: {}", first_diff(&rows[a..b], &got)));
                }
            }
            Outcome::Ok { chain, chunks: 0, bytes_in, bytes_out }
        }
        _ => {
            let r = catch_unwind(AssertUnwindSafe(|| -> Result<_, String> {
                let (c, enc) = strategy.create_block_compressor(field, &block).map_err(|e| format!("create: {e}"))?;
                let buf = c.compress(block).map_err(|e| format!("compress: {e}"))?;
                Ok((buf, enc))
            }));
            let (buf, enc) = match r {
                Err(p) => {
                    let m = pmsg(p);
                    return if unsupported_msg(&m) || m.contains("unreachable") { Outcome::Rejected(m) } else { fail("compress-panic", "", "block compressor panicked", m) };
                }
                Ok(Err(e)) => return Outcome::Rejected(e),
                Ok(Ok(x)) => x,
            };
            let chain = codec_chain(&format!("{enc:?}"));
            let bytes_out = buf.len() as u64;
            let mut bytes = buf.as_ref().to_vec();
            if corrupt && !bytes.is_empty() {
                let k = bytes.len() / 2;
                bytes[k] ^= 1;
            }
            let out = catch_unwind(AssertUnwindSafe(|| -> Result<DataBlock, String> {
                dec.create_block_decompressor(&enc).map_err(|e| e.to_string())?.decompress(LanceBuffer::from(bytes), n).map_err(|e| e.to_string())
            }));
            let blk = match out {
                Err(p) => return fail("decompress-panic", &chain, "block decompressor panicked on the compressor's own output", pmsg(p)),
                Ok(Err(e)) => return fail("decompress-err", &chain, "block decompressor rejected the compressor's own output", e),
                Ok(Ok(x)) => x,
            };
            let got = match block_rows(&blk, n) {
                Ok(r) => r,
                Err(e) => return fail("decoded-malformed", &chain, "decompressed block is malformed", e),
            };
            if got != rows {
                return fail("roundtrip", &chain, "decompress(compress(block)) != block", first_diff(rows, &got));
            }
            Outcome::Ok { chain, chunks: 0, bytes_in, bytes_out }
        }
    }
}

pub struct DirectCase {
    pub path: &'static str,
    pub class: &'static str,
    pub version: LanceFileVersion,
    pub n: usize,
}

pub fn direct_case(seed: u64, i: u64, ffi: bool) -> (Rng, DirectCase) {
    let mut rng = Rng::for_case(seed, (10u64 << 40) + i);
    let path = *rng.pick(&["miniblock", "miniblock", "pervalue", "block"]);
    let class = match path {
        "miniblock" => *rng.pick(&["int", "int", "float", "var", "var", "bool", "wide", "fsl", "struct_fixed"]),
        "pervalue" => *rng.pick(&["var", "var", "int", "float", "wide", "fsl", "struct_var"]),
        _ => *rng.pick(&["int", "int", "float", "var", "wide"]),
    };
    let version = if class == "struct_var" || rng.chance(1, 3) { LanceFileVersion::V2_2 } else { LanceFileVersion::V2_1 };
    let mut n = pick_n(&mut rng);
    if class == "var" && rng.chance(1, 2) {
        n = n.max(3000); // enough bytes for FSST / general compression thresholds
    } else if class == "var" && rng.chance(2, 3) {
        n = n.max(600); // token corpora (~100 bytes per value) reach the 32 KiB FSST threshold
    }
    if !ffi {
        // interpreted (Miri): small blocks only; 2.2 would pick ZSTD (C code) for blocks over 32 KiB and for
        // per-value general compression, FSST above its 32 KiB threshold takes minutes
        n = [1usize, 2, 7, 64, 255, 256, 257, 1023, 1024, 1025, 1500][(i % 11) as usize];
        if class == "var" || class == "struct_var" {
            n = n.min(300);
        }
    }
    let version = if ffi { version } else if class == "struct_var" { LanceFileVersion::V2_2 } else { LanceFileVersion::V2_1 };
    (rng, DirectCase { path, class, version, n })
}

pub fn run_direct_case(seed: u64, i: u64, corrupt: bool, ffi: bool) -> (DirectCase, String, HashMap<String, String>, Outcome) {
    let (mut rng, mut case) = direct_case(seed, i, ffi);
    let g = gen_array(&mut rng, case.class, case.n);
    if case.path == "miniblock" && g.pattern.ends_with("one_big") {
        // a single 5-70 KB value can never fit a mini-block chunk; lance routes such data to full-zip
        case.path = "pervalue";
    }
    let meta = gen_metadata(&mut rng, g.class, ffi);
    let af = ArrowField::new("c", g.array.data_type().clone(), true).with_metadata(meta.clone());
    let field = match Field::try_from(&af) {
        Ok(f) => f,
        Err(e) => return (case, g.pattern, meta, Outcome::Rejected(format!("field: {e}"))),
    };
    let block = DataBlock::from_array(g.array.clone());
    let rows = match block_rows(&block, case.n as u64) {
        Ok(r) => r,
        Err(e) => return (case, g.pattern, meta, Outcome::Rejected(format!("input block not representable: {e}"))),
    };
    let out = run_direct(case.path, case.version, &field, block, &rows, &mut rng, corrupt);
    (case, g.pattern, meta, out)
}

